"""C17 — generated qubit and measurement errors follow their stated distributions
   (SimpleErrorModel.generate, paulitools.pauli_to_bsf, app._run_once against Model/Stream.lean)

What is a THEOREM (Props/C17.lean, about the model, for all n / distributions / streams): the error has length 2n,
qubit i is a function of the i-th consumed uniform only, the preimage of each Pauli under the inverse-CDF map is the
half-open interval [c_{P-1}, c_P) whose length is dist P (so a zero-probability Pauli is impossible), X/Z column
placement, same stream => same error, a measurement flip happens iff u >= 1-q (never and without draws for q = 0, always
for q = 1), and the order in which a multi-step / multi-run simulation consumes the stream.

What ties the model to the code (this module, exact comparison, no tolerance): the real `generate(code, p, rng)` of
every IID model and the `step_errors` / `step_measurement_errors` a recording decoder receives from
`run_once`, `run_once_ftp`, `run`, `run_ftp` must equal, bit for bit, what the model computes from the uniforms of a TWIN
generator (same seed) — the model is given the cdf numpy computed in floating point as exact rationals, and in parallel
the exact rational cdf of the float probabilities; the two may differ only where a uniform lies within 2^-48 of a
threshold (counted as float-boundary, never observed).

What is EXPLORED / TRUSTED rather than proved: that numpy's `Generator.choice(a, size, p)` is the inverse-CDF map of
`rng.random(size)` (assumption, re-checked on numpy alone at the start of every run); that PCG64 doubles are uniform
and independent (trusted; a chi-square frequency / pairwise-independence test over many real draws is run as a
supporting TEST and reported under coverage.explored, it is not the decision procedure).
"""
import json
import math
from fractions import Fraction

import numpy as np

from qv import core
from qv.core import bits, rat

LEVEL = 'proof'

RULE = ('every IID model of qecsim.models.generic (depolarizing, bit-flip, phase-flip, bit-phase-flip, biased '
        'depolarizing X/Y/Z x biases, biased-Y-X x biases, center-slice x limits x positions) x p in {0, 1e-12, 0.1, '
        '0.5, 0.9, 1} x codes with n = 4..400 (five-qubit, Steane, planar, toric, rotated planar, rotated toric, colour) '
        'x seeds, generator sometimes pre-advanced: the real generate() output, the Pauli string and the number of '
        'uniforms consumed compared exactly with the model applied to a twin generator\'s uniforms; recorded step errors '
        'and measurement flips of run_once / run_once_ftp / run / run_ftp (T in 1..5, q in {None, 0, 1e-12, 0.3, 1}, up '
        'to 3 runs from one seed) predicted from ONE stream; searchsorted primitive on random sorted cdfs with ties and '
        'uniforms exactly on thresholds; float cdf vs exact cdf within 2^-48. non-trivial = a case in which at least one '
        'uniform is consumed and the distribution is not a point mass on I (p > 0) or, for runs, q > 0 or T > 1')

DEN = 2 ** 53
BAND = Fraction(1, 2 ** 48)
PS = [0.0, 1e-12, 0.1, 0.5, 0.9, 1.0]
P_CHI = 1e-9          # chi-square alarms only below this p-value (per test)

ASSUMPTIONS = [
    'numpy.random.Generator.choice(a, size=k, p=p) == a[searchsorted(cumsum(p)/cumsum(p)[-1], rng.random(k), '
    'side="right")] with exactly k doubles consumed, independent of chunking (numpy {}; re-checked on numpy alone at '
    'the start of this run: see coverage.explored.numpy_choice_contract)'.format(np.__version__),
    'numpy.random.Generator.random returns doubles k/2^53 in [0,1) (checked for every uniform sent to the model)',
    'uniformity and independence of the PCG64 stream (numpy contract, trusted; supported by the chi-square test)',
    'floating-point cumsum / division of numpy (the float cdf is recomputed with the same numpy calls and sent to '
    'the model as exact rationals; it is checked to lie within 2^-48 of the exact rational cdf)',
]


# ------------------------------------------------------------------------------------------ specs

def model_specs():
    specs = [('DepolarizingErrorModel', []), ('BitFlipErrorModel', []), ('PhaseFlipErrorModel', []),
             ('BitPhaseFlipErrorModel', [])]
    for axis in 'XYZ':
        for bias in (0.5, 3, 10, 100.0, 1e6):
            specs.append(('BiasedDepolarizingErrorModel', [bias, axis]))
    for bias in (0, 0.5, 1, 3, 10, 300.0):
        specs.append(('BiasedYXErrorModel', [bias]))
    for lim in ((0, 0, 1), (1, 0, 0), (0, 1, 0), (0.5, 0.5, 0), (1, 0, 2), (0, 3, 1)):
        for pos in (-1.0, -0.5, 0.0, 0.25, 1.0):
            specs.append(('CenterSliceErrorModel', [list(lim), pos]))
    return specs


def make_model(spec):
    import qecsim.models.generic as g
    name, args = spec
    args = [tuple(a) if isinstance(a, list) else a for a in args]
    return getattr(g, name)(*args)


def code_specs():
    return [('basic.FiveQubitCode', []), ('basic.SteaneCode', []), ('rotatedtoric.RotatedToricCode', [2, 2]),
            ('planar.PlanarCode', [2, 2]), ('planar.PlanarCode', [3, 5]), ('planar.PlanarCode', [10, 10]),
            ('planar.PlanarCode', [14, 15]), ('toric.ToricCode', [2, 2]), ('toric.ToricCode', [3, 4]),
            ('toric.ToricCode', [14, 14]), ('rotatedplanar.RotatedPlanarCode', [3, 3]),
            ('rotatedplanar.RotatedPlanarCode', [7, 9]), ('rotatedplanar.RotatedPlanarCode', [20, 20]),
            ('rotatedtoric.RotatedToricCode', [4, 6]), ('rotatedtoric.RotatedToricCode', [20, 20]),
            ('color.Color666Code', [3]), ('color.Color666Code', [7]), ('color.Color666Code', [21])]


_codes = {}


def make_code(spec):
    import importlib
    key = json.dumps(spec)
    if key not in _codes:
        mod, cls = spec[0].split('.')
        _codes[key] = getattr(importlib.import_module('qecsim.models.' + mod), cls)(*spec[1])
    return _codes[key]


# ------------------------------------------------------------------------------------------ numpy side

def float_cdf(p):
    """exactly what Generator.choice computes from p"""
    cdf = np.array([float(x) for x in p], dtype=np.float64).cumsum()
    cdf /= cdf[-1]
    return cdf


def ratlist(xs):
    xs = list(xs)
    return ','.join(rat(Fraction(float(x))) for x in xs) if xs else '_'


def stream_wire(u):
    ks = []
    for x in u:
        x = float(x)
        k = int(x * DEN)
        if not (0 <= k < DEN and k / DEN == x):
            raise core.Infra('rng.random returned a value that is not k/2^53 in [0,1): {!r}'.format(x))
        ks.append(k)
    return '{}:{}'.format(DEN, ','.join(map(str, ks)) if ks else '_')


def locate(u, value, start):
    """index at which `value` (the real generator's next double) sits in the twin stream"""
    for i in range(start, len(u)):
        if u[i] == value:
            return i
    return -1


def dist_valid(dist):
    d = [float(x) for x in dist]
    return all(x >= 0 for x in d) and all(math.isfinite(x) for x in d) and abs(sum(d) - 1) < 1e-8


def check_numpy_contract(ctx):
    """the stated assumption, on numpy alone (independent of qecsim and of the Lean model)"""
    r = ctx.rng
    n_checked = 0
    for it in range(ctx.scale(300, 3000)):
        k = r.choice([2, 4, 4, 4])
        p = [r.random() if r.random() < 0.75 else 0.0 for _ in range(k)]
        if sum(p) == 0:
            p[r.randrange(k)] = 1.0
        s = sum(p); p = [x / s for x in p]
        if r.random() < 0.2:
            p = [1.0 if i == r.randrange(k) else 0.0 for i in range(k)]
            if sum(p) != 1.0:
                p = [1.0] + [0.0] * (k - 1)
        n = r.choice([1, 4, 5, 7, 13, 100, 400])
        a = ('I', 'X', 'Y', 'Z') if k == 4 else (0, 1)
        seed = r.randrange(2 ** 32)
        g = np.random.default_rng(seed); t = np.random.default_rng(seed)
        pre = r.choice([0, 0, 3, 17])
        if pre:
            g.random(pre); t.random(pre)
        if r.random() < 0.3 and n > 1:     # chunked
            c = r.randrange(1, n)
            out = np.concatenate([g.choice(a, size=c, p=p), g.choice(a, size=(n - c,), p=p)])
        else:
            out = g.choice(a, size=n, p=p)
        u = t.random(n)
        exp = np.array(a)[float_cdf(p).searchsorted(u, side='right')]
        if not (exp == out).all() or g.random() != t.random():
            raise core.Infra('assumption broken: numpy Generator.choice is not the inverse-CDF of rng.random '
                             '(seed={}, p={}, n={})'.format(seed, p, n))
        n_checked += 1
    ctx.explored['numpy_choice_contract'] = {
        'evaluations': n_checked, 'exhaustive': False,
        'rule': 'random p (k = 2 or 4, zeros and point masses included), sizes 1..400, pre-advanced and chunked calls: '
                'Generator.choice == a[searchsorted(cumsum(p)/last, twin.random(n), "right")] and both generators in '
                'the same state afterwards; a failure is an infrastructure error (assumption), not a qecsim violation'}


# ------------------------------------------------------------------------------------------ chi-square (support)

def chi2_pvalue(obs, exp):
    """Pearson chi-square p-value; cells with expectation < 5 are pooled; expectation 0 with a hit => 0.0"""
    from scipy.stats import chi2
    for o, e in zip(obs, exp):
        if e == 0 and o > 0:
            return 0.0
    big = [(o, e) for o, e in zip(obs, exp) if e >= 5]
    small = [(o, e) for o, e in zip(obs, exp) if 0 < e < 5]
    if small:
        so, se = sum(o for o, _ in small), sum(e for _, e in small)
        big.append((so, se))
    big = [(o, e) for o, e in big if e > 0]
    if len(big) < 2:
        return 1.0
    x = sum((o - e) ** 2 / e for o, e in big)
    return float(chi2.sf(x, len(big) - 1))


def freq_test(em, code, p, seeds):
    """real draws only: single-qubit and disjoint-adjacent-pair frequencies against dist / dist x dist.
       returns (p_single, p_pair, n_draws, detail)"""
    dist = [float(x) for x in em.probability_distribution(p)]
    n = code.n_k_d[0]
    single = [0] * 4; pair = [0] * 16; nd = 0; npairs = 0
    for sd in seeds:
        e = em.generate(code, p, np.random.default_rng(sd))
        e = np.asarray(e)
        if e.shape != (2 * n,):
            return 0.0, 0.0, nd, 'shape {}'.format(e.shape)
        idx = e[:n] * 1 + e[n:] * 2          # I=0 X=1 Z=2 Y=3
        idx = np.array([0, 1, 3, 2])[idx]    # -> I X Y Z order
        cnt = np.bincount(idx, minlength=4)
        for k in range(4):
            single[k] += int(cnt[k])
        m2 = (n // 2) * 2
        pr = idx[0:m2:2] * 4 + idx[1:m2:2]
        pc = np.bincount(pr, minlength=16)
        for k in range(16):
            pair[k] += int(pc[k])
        nd += n; npairs += m2 // 2
    ps = chi2_pvalue(single, [nd * d for d in dist])
    pp = chi2_pvalue(pair, [npairs * dist[a] * dist[b] for a in range(4) for b in range(4)])
    return ps, pp, nd, {'single_counts_IXYZ': single, 'dist': dist, 'draws': nd,
                        'pair_diag_counts': [pair[0], pair[5], pair[10], pair[15]], 'pairs': npairs}


def make_recorders():
    from qecsim.model import Decoder, DecoderFTP, DecodeResult, ErrorModel

    class RecDec(Decoder, DecoderFTP):
        def __init__(self):
            self.calls = []

        def _rec(self, kw):
            self.calls.append({'step_errors': [np.array(e) for e in kw['step_errors']],
                               'meas': [np.array(x) for x in kw['step_measurement_errors']],
                               'q': kw['measurement_error_probability']})
            return DecodeResult(success=True)

        def decode(self, code, syndrome, **kw):
            return self._rec(kw)

        def decode_ftp(self, code, time_steps, syndrome, **kw):
            return self._rec(kw)

        label = 'c17-recorder'

    class RecEM(ErrorModel):
        """delegates to the real model; remembers the generator the run loop hands over"""

        def __init__(self, em):
            self.em = em; self.rng = None

        def probability_distribution(self, probability):
            return self.em.probability_distribution(probability)

        def generate(self, code, probability, rng=None):
            self.rng = rng
            return self.em.generate(code, probability, rng)

        @property
        def label(self):
            return self.em.label

    return RecDec, RecEM


def flip_freq_test(em, code, p, q, T, seeds):
    """real run_once_ftp only: flip frequency against q; returns (pvalue, n_bits, ones)"""
    from qecsim import app
    RecDec, _ = make_recorders()
    ones = 0; nb = 0
    for sd in seeds:
        dec = RecDec()
        app.run_once_ftp(code, T, em, dec, p, q, np.random.default_rng(sd))
        for f in dec.calls[0]['meas']:
            f = np.asarray(f); ones += int(f.sum()); nb += f.size
    qq = (0.0 if T == 1 else p) if q is None else q
    return chi2_pvalue([nb - ones, ones], [nb * (1 - qq), nb * qq]), nb, ones


# ------------------------------------------------------------------------------------------ case builders

def show_runs(calls):
    rs = []
    for c in calls:
        steps = ['{}|{}'.format(bits(e), bits(f)) for e, f in zip(c['step_errors'], c['meas'])]
        rs.append(','.join(steps) if steps else '.')
    return ';'.join(rs) if rs else '-'


def gen_case(ctx, mspec, cspec, p, seed, pre):
    em = make_model(mspec); code = make_code(cspec)
    n = code.n_k_d[0]
    try:
        dist = em.probability_distribution(p)
    except Exception:
        ctx.count('skipped', 'dist-raises'); return
    if not dist_valid(dist):
        ctx.count('skipped', 'invalid-dist(C16)'); return
    rng = np.random.default_rng(seed); twin = np.random.default_rng(seed)
    if pre:
        rng.random(pre)
    u = twin.random(pre + n + 3)
    err = em.generate(code, p, rng)
    consumed = locate(u, rng.random(), pre)
    err = np.asarray(err)
    inp = {'model': mspec, 'code': cspec, 'p': p, 'seed': seed, 'pre': pre}
    # -- direct monitors (property itself, independent of the model)
    if err.shape != (2 * n,) or not np.isin(err, (0, 1)).all():
        ctx.monitor_fail('generated error is not a binary vector of length 2n', inp, key='generate-shape')
        return
    letters = pauli_letters(err, n)
    for k, ch in enumerate('IXYZ'):
        if float(dist[k]) == 0 and ch in letters:
            ctx.monitor_fail('Pauli {} has probability 0 under {} at p={} but appears in the generated error'.format(
                ch, em.label, p), dict(inp, error=bits(err)), key='zero-prob-pauli')
            return
    rng2 = np.random.default_rng(seed)
    if pre:
        rng2.random(pre)
    if not np.array_equal(err, np.asarray(em.generate(code, p, rng2))):
        ctx.monitor_fail('same generator state gives a different error', inp, key='generate-nondeterministic')
        return
    # -- correspondence
    cdf = float_cdf(dist)
    us = stream_wire(u)
    line = 'c17 gen {} {} {} {} {}'.format(n, ratlist(dist), ratlist(cdf), us, pre)
    b = bits(err)
    post = make_post_gen(ctx, [Fraction(float(x)) for x in u[pre:pre + n]], [Fraction(float(c)) for c in cdf])
    nontrivial = p > 0 and n > 0
    ctx.case(line, 'ok {} {} {}'.format(b, b, consumed if consumed >= 0 else 'unknown'), nontrivial=nontrivial,
             meta=dict(inp, kind='gen'), post=post)
    ctx.case('c17 pauli {} {} {} {}'.format(n, ratlist(cdf), us, pre), 'ok ' + letters, nontrivial=nontrivial,
             meta=dict(inp, kind='gen'))
    ctx.count('model', mspec[0]); ctx.count('p', p); ctx.count('n', n); ctx.count('pre', pre)


def pauli_letters(err, n):
    x = err[:n]; z = err[n:]
    return ''.join('IXZY'[int(a) + 2 * int(b)] for a, b in zip(x, z)) or '_'


def make_post_gen(ctx, us, cdf):
    def post(reply):
        parts = reply.split()
        if len(parts) == 4 and parts[0] == 'ok' and parts[1] != parts[2] and len(parts[1]) == len(parts[2]):
            n = len(parts[1]) // 2
            diff = [i for i in range(n) if parts[1][i] != parts[2][i] or parts[1][n + i] != parts[2][n + i]]
            if all(min(abs(us[i] - c) for c in cdf) <= BAND for i in diff):
                ctx.count('float-boundary', 'gen'); parts[2] = parts[1]
        return ' '.join(parts)
    return post


def run_case(ctx, mspec, cspec, p, q, T, R, seed, api):
    """api in once_ftp / ftp / once / run"""
    from qecsim import app
    RecDec, RecEM = make_recorders()
    em = make_model(mspec); code = make_code(cspec)
    n = code.n_k_d[0]; m = code.stabilizers.shape[0]
    try:
        dist = em.probability_distribution(p)
    except Exception:
        ctx.count('skipped', 'dist-raises'); return
    if not dist_valid(dist):
        ctx.count('skipped', 'invalid-dist(C16)'); return
    dec = RecDec(); rem = RecEM(em)
    inp = {'model': mspec, 'code': cspec, 'p': p, 'q': q, 'T': T, 'R': R, 'seed': seed, 'api': api}
    with core.TimeLimit(120):
        if api == 'once_ftp':
            app.run_once_ftp(code, T, rem, dec, p, q, np.random.default_rng(seed))
        elif api == 'ftp':
            app.run_ftp(code, T, rem, dec, p, q, max_runs=R, random_seed=seed)
        elif api == 'once':
            app.run_once(code, rem, dec, p, np.random.default_rng(seed))
        else:
            app.run(code, rem, dec, p, max_runs=R, random_seed=seed)
    qq_expected = (0.0 if T == 1 else p) if q is None else q
    if api in ('once', 'run'):
        qq_expected = 0.0
    twin = np.random.default_rng(seed)
    total = R * T * (n + m) + 3
    u = twin.random(total)
    consumed = locate(u, rem.rng.random(), 0)
    # -- direct monitors
    for c in dec.calls:
        if len(c['meas']) != T or len(c['step_errors']) != T:
            ctx.monitor_fail('decoder context does not hold T step errors / measurement errors', inp,
                             key='run-context-shape'); return
        for f in c['meas']:
            f = np.asarray(f)
            if f.shape != (m,) or not np.isin(f, (0, 1)).all():
                ctx.monitor_fail('measurement error is not a binary vector over the syndrome bits', inp,
                                 key='meas-shape'); return
            if qq_expected == 0 and f.any():
                ctx.monitor_fail('measurement error probability 0 but a syndrome bit was flipped', inp,
                                 key='meas-q0'); return
            if qq_expected == 1 and not f.all():
                ctx.monitor_fail('measurement error probability 1 but a syndrome bit was not flipped', inp,
                                 key='meas-q1'); return
        for e in c['step_errors']:
            if np.asarray(e).shape != (2 * n,):
                ctx.monitor_fail('step error is not of length 2n', inp, key='generate-shape'); return
    qf = Fraction(float(dec.calls[0]['q'])) if dec.calls else None
    cdfE = float_cdf(dist)
    cdfM = float_cdf((1 - qq_expected, qq_expected)) if qq_expected else np.array([1.0, 1.0])
    qw = 'N' if q is None else rat(Fraction(float(q)))
    if api in ('once', 'run'):
        qw = '0/1'
    line = 'c17 run {} {} {} {} {} {} {} {} {} {}'.format(
        R, T, n, m, rat(Fraction(float(p))), qw, ratlist(dist), ratlist(cdfE), ratlist(cdfM), stream_wire(u))
    runs = show_runs(dec.calls)
    cons = consumed if consumed >= 0 else 'unknown'
    impl = 'ok q={} {} {} {} {}'.format(rat(qf) if qf is not None else 'none', runs, cons, runs, cons)
    used = [Fraction(float(x)) for x in u[:max(consumed, 0)]]
    thr = [Fraction(float(c)) for c in list(cdfE) + list(cdfM)]

    def post(reply):
        parts = reply.split()
        if len(parts) == 6 and parts[0] == 'ok' and (parts[2], parts[3]) != (parts[4], parts[5]):
            if any(min(abs(x - c) for c in thr) <= BAND for x in used):
                ctx.count('float-boundary', 'run'); parts[4], parts[5] = parts[2], parts[3]
        return ' '.join(parts)
    ctx.case(line, impl, nontrivial=(qq_expected > 0 or T > 1 or p > 0), meta=dict(inp, kind='run'), post=post)
    ctx.count('api', api); ctx.count('T', T); ctx.count('q', q); ctx.count('R', R)
    ctx.count('flip-branch', 'draws' if qq_expected else 'no-draws')


def idx_cases(ctx):
    r = ctx.rng
    for it in range(ctx.scale(400, 4000)):
        k = r.choice([0, 1, 2, 4, 4, 6])
        vals = sorted(Fraction(r.randrange(0, 17), 16) for _ in range(k))
        u = Fraction(r.randrange(0, 17), 16) if r.random() < 0.7 else Fraction(r.randrange(DEN), DEN)
        exp = int(np.searchsorted(np.array([float(v) for v in vals], dtype=np.float64), float(u), side='right'))
        ctx.case('c17 idx {} {}'.format(','.join(rat(v) for v in vals) if vals else '_', rat(u)),
                 '{} {}'.format(exp, exp), nontrivial=(k > 0))
    ctx.count('primitive', 'searchsorted')


def cdf_cases(ctx, dists):
    for dist in dists:
        cdf = [Fraction(float(c)) for c in float_cdf(dist)]

        def post(reply, cdf=cdf):
            try:
                ex = [Fraction(int(a), int(b)) for a, b in (t.split('/') for t in reply.split(','))]
            except Exception:
                return reply
            if len(ex) == len(cdf) and all(abs(a - b) <= BAND for a, b in zip(ex, cdf)) and ex[-1] == 1:
                return 'within-2^-48'
            return 'exact cdf {} vs float cdf {}'.format(reply, ','.join(rat(c) for c in cdf))
        ctx.case('c17 cdf ' + ratlist(dist), 'within-2^-48', nontrivial=True, post=post)


# ------------------------------------------------------------------------------------------ run

def run(ctx):
    from qecsim import paulitools as pt
    r = ctx.rng
    ctx.assumptions = list(ASSUMPTIONS)
    check_numpy_contract(ctx)
    mspecs = model_specs(); cspecs = code_specs()
    quick = ctx.quick()

    # A. generate(): every model x every p x codes x seeds
    dists = []
    for mspec in mspecs:
        for p in PS:
            try:
                d = make_model(mspec).probability_distribution(p)
                if dist_valid(d):
                    dists.append(tuple(float(x) for x in d))
            except Exception:
                pass
            codes = r.sample(cspecs, 6) if quick else cspecs
            for cspec in codes:
                for _ in range(2 if quick else 3):
                    gen_case(ctx, mspec, cspec, p, r.randrange(2 ** 32), r.choice([0, 0, 1, 5, 64]))
    cdf_cases(ctx, sorted(set(dists)))

    # B. whole runs: recorded step errors and measurement flips from one stream
    small = [c for c in cspecs if make_code(c).n_k_d[0] <= (60 if quick else 200)]
    for it in range(ctx.scale(600, 4000)):
        mspec = r.choice(mspecs); cspec = r.choice(small)
        p = r.choice(PS); T = r.choice([1, 1, 2, 3, 5]); q = r.choice([None, None, 0.0, 1e-12, 0.3, 1.0, 0])
        api = r.choice(['once_ftp', 'once_ftp', 'ftp', 'ftp', 'once', 'run'])
        R = r.choice([1, 2, 3]) if api in ('ftp', 'run') else 1
        if api in ('once', 'run'):
            T = 1
        run_case(ctx, mspec, cspec, p, q, T, R, r.randrange(2 ** 32), api)

    # C. primitives
    idx_cases(ctx)
    for it in range(ctx.scale(100, 1000)):
        n = r.choice([1, 2, 5, 9])
        s = ''.join(r.choice('IXYZ') for _ in range(n))
        ctx.case('c17 tobsf ' + s, bits(pt.pauli_to_bsf(s)), nontrivial=True)

    # D. supporting TEST (not the decision procedure): chi-square frequencies / pairwise independence / flips
    n_tests = 0; n_draws = 0; min_p = 1.0
    big = ('rotatedplanar.RotatedPlanarCode', [20, 20])
    for mspec in (r.sample(mspecs, 6) if quick else mspecs):
        p = r.choice([0.1, 0.5, 0.9])
        em = make_model(mspec)
        try:
            if not dist_valid(em.probability_distribution(p)):
                continue
        except Exception:
            continue
        seeds = [r.randrange(2 ** 32) for _ in range(ctx.scale(100, 500))]
        ps_, pp_, nd, detail = freq_test(em, make_code(big), p, seeds)
        n_tests += 2; n_draws += nd; min_p = min(min_p, ps_, pp_)
        if ps_ < P_CHI or pp_ < P_CHI:
            ctx.monitor_fail('TEST: empirical {} frequencies of {} at p={} inconsistent with the distribution '
                             '(chi-square p-value single={:.3g} pair={:.3g})'.format(
                                 'single-qubit' if ps_ < P_CHI else 'pairwise', em.label, p, ps_, pp_),
                             {'model': mspec, 'code': big, 'p': p, 'seeds': seeds[:5], 'detail': detail},
                             key='chi-square-qubits')
    for q in (None, 0.3, 0.05):
        T = 3; p = 0.2
        em = make_model(('DepolarizingErrorModel', [])); code = make_code(('planar.PlanarCode', [10, 10]))
        seeds = [r.randrange(2 ** 32) for _ in range(ctx.scale(60, 400))]
        pv, nb, ones = flip_freq_test(em, code, p, q, T, seeds)
        n_tests += 1; n_draws += nb; min_p = min(min_p, pv)
        if pv < P_CHI:
            ctx.monitor_fail('TEST: empirical measurement-flip frequency {}/{} inconsistent with q={} (p-value {:.3g})'
                             .format(ones, nb, q, pv), {'q': q, 'T': T, 'p': p, 'seeds': seeds[:5]},
                             key='chi-square-flips')
    ctx.explored['chi_square_support_test'] = {
        'evaluations': n_tests, 'draws': n_draws, 'min_p_value': min_p, 'alarm_below': P_CHI, 'exhaustive': False,
        'rule': 'TEST, supporting only: Pearson chi-square of single-qubit Pauli counts and of disjoint adjacent-pair '
                'counts (against dist x dist) over real generate() calls on a 400-qubit code, and of measurement-flip '
                'counts over real run_once_ftp calls; oracle = scipy.stats.chi2'}
    return ctx.finish(RULE, search=search)


# ------------------------------------------------------------------------------------------ failing-input search

def property_check(meta, seeds_base=12345, n_seeds=150):
    """evaluate the PROPERTY on the real code only, for the configuration of a disagreeing case (and near variants).
       returns a dict describing a concrete failing input, or None."""
    from qecsim import app
    mspec, cspec, p = meta['model'], meta['code'], meta['p']
    em = make_model(mspec); code = make_code(cspec)
    n = code.n_k_d[0]
    dist = [float(x) for x in em.probability_distribution(p)]
    base = {'model': mspec, 'code': cspec, 'p': p}
    # zero-probability Paulis / shape / determinism on a handful of seeds
    for sd in [meta.get('seed', 0)] + list(range(seeds_base, seeds_base + 20)):
        e = np.asarray(em.generate(code, p, np.random.default_rng(sd)))
        if e.shape != (2 * n,) or not np.isin(e, (0, 1)).all():
            return dict(base, what='generated error is not a binary vector of length 2n', seed=sd, error=str(e)[:200])
        letters = pauli_letters(e, n)
        for k, ch in enumerate('IXYZ'):
            if dist[k] == 0 and ch in letters:
                return dict(base, what='Pauli {} has probability 0 under {} (dist {}) but generate() returned {}'.format(
                    ch, em.label, dist, letters[:60]), seed=sd, key='zero-prob-pauli')
        e2 = np.asarray(em.generate(code, p, np.random.default_rng(sd)))
        if not np.array_equal(e, e2):
            return dict(base, what='same generator seed gives different errors', seed=sd)
    # measurement flips: never for 0, always for 1, frequency q otherwise
    if meta.get('kind') == 'run':
        RecDec, _ = make_recorders()
        T = max(int(meta.get('T', 2)), 2)
        for q, want in ((0.0, 0), (1.0, 1)):
            dec = RecDec()
            app.run_once_ftp(code, T, em, dec, p, q, np.random.default_rng(seeds_base))
            for t, f in enumerate(dec.calls[0]['meas']):
                f = np.asarray(f)
                if (f != want).any():
                    return dict(base, what='run_once_ftp with measurement_error_probability={} : step {} flips {} — '
                                            'every syndrome bit must {} be flipped'.format(
                                                q, t, bits(f)[:60], 'always' if want else 'never'),
                                q=q, T=T, seed=seeds_base, key='meas-q{}'.format(want))
        for q in (0.3, None, meta.get('q')):
            if q in (0, 1) or (q is None and p in (0, 1)):
                continue
            pv, nb, ones = flip_freq_test(em, code, p, q, T, range(seeds_base, seeds_base + n_seeds))
            if pv < P_CHI:
                return dict(base, what='run_once_ftp measurement flips: {} of {} syndrome bits flipped with q={} '
                                        '(chi-square p-value {:.3g})'.format(ones, nb, q, pv), q=q, T=T,
                            seeds='{}..{}'.format(seeds_base, seeds_base + n_seeds - 1), key='chi-square-flips')
    # frequencies / pairwise independence of the qubits
    for cs in (cspec, ('rotatedplanar.RotatedPlanarCode', [20, 20])):
        c = make_code(cs)
        ps_, pp_, nd, detail = freq_test(em, c, p, range(seeds_base, seeds_base + n_seeds))
        if ps_ < P_CHI or pp_ < P_CHI:
            return dict(base, code=cs, what='{} frequencies over {} real draws inconsistent with dist {} '
                                            '(chi-square p-value single={:.3g}, adjacent pairs vs product={:.3g})'.format(
                                                'single-qubit' if ps_ < P_CHI else 'pairwise (independence)', nd,
                                                dist, ps_, pp_),
                        detail=detail, seeds='{}..{}'.format(seeds_base, seeds_base + n_seeds - 1),
                        key='chi-square-qubits')
    return None


_probe_cache = {}


def family_probe(meta):
    """near variants across the model family, evaluated once per process: the pure / strongly biased models on the
    mismatching case's code (zero-probability Paulis, frequencies) and a multi-step run (flip rules)"""
    key = json.dumps(meta.get('code'))
    if key not in _probe_cache:
        found = None
        for mspec in (('BitFlipErrorModel', []), ('PhaseFlipErrorModel', []), ('BitPhaseFlipErrorModel', []),
                      ('BiasedDepolarizingErrorModel', [100.0, 'Z']), ('BiasedDepolarizingErrorModel', [100.0, 'X'])):
            found = property_check({'model': mspec, 'code': meta['code'], 'p': 0.5, 'kind': 'run', 'T': 2, 'q': 0.3,
                                    'seed': 777}, n_seeds=80)
            if found:
                break
        _probe_cache[key] = found
    return _probe_cache[key]


def search(m):
    meta = m.get('meta') or {}
    if 'model' not in meta:
        return None
    found = property_check(meta)
    if found:
        return found
    found = family_probe(meta)
    if found:
        return found
    # near variants: the same model at the other probabilities
    for p in (0.5, 0.1, 0.9, 1.0):
        if p != meta['p']:
            found = property_check(dict(meta, p=p), n_seeds=60)
            if found:
                return found
    return None


def replay(ctx, path):
    body = json.load(open(path)); bad = 0
    for v in body.get('violations', []):
        ce = v.get('counterexample') or {}
        inp = ce.get('input') if isinstance(ce.get('input'), dict) else ce
        meta = None
        if isinstance(inp, dict) and 'model' in inp and 'code' in inp and 'p' in inp:
            meta = dict(inp)
            meta.setdefault('kind', 'run' if ('q' in inp or 'T' in inp) else 'gen')
        elif v.get('first_mismatch') and (v['first_mismatch'].get('meta') or {}).get('model'):
            meta = v['first_mismatch']['meta']
        if meta:
            try:
                r = search({'meta': meta})
            except Exception as ex:
                r = None; print('replay error', repr(ex)[:200])
            print('replay', {k: meta.get(k) for k in ('model', 'code', 'p', 'q', 'T')}, '->', r)
            bad += bool(r)
    return 1 if bad else 0       # core.do_replay prints the VIOLATION line (and re-runs the whole check when 0)
