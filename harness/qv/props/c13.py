"""C13 — matching is perfect and of minimum total weight
   (qecsim.graphtools: SimpleGraph.add_edge, mwpm, mwpm_networkx, blossom5.weight_to_int_fn against
   Model/Matching.lean).

What is PROVED (Props/C13.lean, all finite graphs, all rational weights)
  * addEdge_no_reversed_dupes : after any insertion sequence keys are distinct, no pair is stored in both
    orientations, and the weight stored for {a,b} is the last one written (either orientation);
  * isPerfectMatching_spec    : the checker evaluated by the driver on the REAL output is true iff every pair is a
    graph edge and every node occurs exactly once;
  * minPM_spec                : the oracle `minPM` is `some m` iff a perfect matching exists and m is the minimum of
    their total weights, `none` iff none exists;
  * negation_reduces          : among perfect matchings maximising sum(-w) = minimising sum(w); when a perfect matching
    exists every maximum-cardinality matching is perfect; hence the wrapper (negate, maxcardinality=True) returns a
    minimum-weight perfect matching WHENEVER the networkx routine meets its documented contract.
What is EXPLORED, not proved (reported separately in ctx.explored)
  * Edmonds' blossom algorithm inside networkx (`max_weight_matching`) is NOT modelled: it lives outside /repo.  Its
    output is tested on every run against the proved oracle: the Lean driver evaluates `isPerfectMatching` on the real
    `gt.mwpm` result and compares its exact weight with `minPM` (exact in Q; for floats whose sums are not exact in
    binary64 within REL_TOL).
  * graphs larger than the oracle's reach (15..20 nodes) from the real decoders: an independent Python bitmask DP.
  * float arithmetic inside weight_to_int_fn (the float quotient/product are inputs of the model).
Weight laws with a huge dynamic range inside one graph (RANGE_KINDS; part_range): a backend that prepares the weights
(scaling / rounding to integers at ~1e-9 of the maximum, as the Blossom V path does) returns a perfect but non-minimum
matching exactly there; the float allowance REL_TOL is therefore tied to binary64 noise (1e-12 * n * max|w|), not to 1e-9.
The failing-input search adds dynamic-range variants of the recorded graph (one pair re-written with a 1e10 / 1e12
penalty) and a fixed family of small graphs of every weight law.
The Blossom V backend path is exercised through a STAND-IN library (qv/c13_standin.py, qv/c13_pypm_standin.c): the real
wrapper code runs in child processes, Blossom V itself is replaced and stays unverified.  The Lean model of that wrapper
(Model/Blossom5.lean: mwpmIds / mwpmObjs / mwpmBlossom5, and the dispatch Matching.mwpm; the theorems of
Props/C14/Blossom.lean rest on it) is TIED to the real code there: for every stand-in call the arrays the C function
received and the mates array it left behind (dumped by the C code itself), the observed `list(set(...))` node listing and
the Python result are compared for exact equality with the driver ops `c13 b5ids / b5objs / b5gt / b5mwpm` (clib := table
look-up of the recorded mates array), error paths included (contiguity assert of mwpm_ids, empty-graph shortcut).
Node kinds include orderable-but-not-totally-ordered objects (Timed, frozensets); weight laws include uniformly tiny
weights (k * 2**-e judged exactly, k * 10**-e judged relative to max|w| — the tolerance has no absolute floor).
LEVEL = 'proof' refers to the wrapper + oracle theorems only.
"""
import itertools
import json
from fractions import Fraction

from qv import core
from qv.core import rat

LEVEL = 'proof'
REL_TOL = 1e-12               # float noise allowance relative to n * max|w| (about 4500 machine epsilons; the networkx
                               # backend was observed to return an exactly minimal matching on every probe, also for
                               # weights spanning 18 decades) — small enough that a backend which quantises the weights
                               # at 1e-9 of the maximum (as the Blossom V preparation does) is told from float noise
ORACLE_MAX_NODES = 14          # (n-1)!! leaves of the verified oracle on a complete graph: 135135 at n = 14
DP_MAX_NODES = 20

RULE = ('(a) random insertion sequences into the real SimpleGraph (nodes: ints, index tuples, identity-hashed objects; '
        'both orientations, same-orientation overwrite, reversed and triple re-insertion, self loops): dict contents in '
        'order compared exactly with the model; (b) graphs with a planted perfect matching, 2..14 nodes (16 in '
        'thorough), complete / sparse / planted+few, weights int / dyadic float / zero / negative / tied / big int / '
        'general float, and weight laws with a huge dynamic range inside ONE graph (penalty edges 1e6..1e12, positive '
        'or negative, int or float, next to dyadic fractions / small ints / floats 1e-12.5..1e-6 of the penalty / a third '
        'nested scale / magnitudes log-uniform over 18 decades), random insertion order and orientation with '
        're-insertions: the real gt.mwpm result is checked by '
        'the Lean driver (isPerfectMatching on the real output, exact weight = verified minPM; general floats within '
        '1e-12 * n * max|w|); (c) the arguments the wrapper hands to networkx (negated weights, maxcardinality) captured by '
        'monkeypatching and compared with the model, empty graph => empty set; (d) graphs built by the real '
        'PlanarMWPM/PlanarCMWPM/ToricMWPM/RotatedPlanarSMWPM/RotatedToricSMWPM decoders on random small syndromes, '
        'captured at gt.mwpm, same check; (f) call HISTORIES on gt.mwpm / mwpm_networkx (mwpm_blossom5 on empty graphs) in '
        'one process on one set of nodes: consecutive graphs equal except for weights that collide under Python\'s hash '
        '(-1/-2, 0 / k(2^61-1), w / w + k(2^61-1), x / x*2^61 for floats, int/float/bool of equal value) or are equal after '
        'conversion to binary64 (2^53 / 2^53+1), one re-written '
        'weight, insertion order / orientation, the same SimpleGraph object after a further add_edge, the same graph '
        'twice, empty graphs in between; after every call the returned set is updated in place (add / clear / discard / '
        'union with earlier results); every answer judged by the verified monitors, sets returned earlier must keep '
        'their value and identity is never re-used, a sample compared with the answer of a fresh process; '
        '(e) weight_to_int_fn branch + rounding with blossom5.infty patched; (g) the Blossom V backend path (gt.mwpm '
        'dispatch, gt.mwpm_blossom5, blossom5.mwpm, blossom5.mwpm_ids) executed in child processes against a stand-in '
        'libpypm.so compiled per run (exact DP on the ints it receives; infty 2**30 and 1000), loaded via $QECSIM_CFG: '
        'SimpleGraph / dict / edge-list inputs, 7 node kinds, ints, floats, tiny floats, bools, zeros, negatives, all-int '
        'graphs mixing tiny weights with weights >= infty/10 (multiples of 2**32, C-int limits, the threshold), parallel '
        'edges, empty inputs, call histories, decoder graphs; every answer: perfect matching, minimum ORIGINAL weight '
        'within the documented scaling allowance (n/2)/s (exact when the documented rule is the identity), minimum INTEGER '
        'weight as handed over (Lean oracle, exact), handed integer weights = model weight_to_int; and the wrapper model '
        'Model/Blossom5.lean run by the driver on the same argument, the observed list(set(...)) node listing and the mates '
        'array the C code dumped (clib := table look-up) must reproduce exactly the id edge arrays nodes_a / nodes_b / '
        'weights and n_nodes the C function received, the assert outcome (non-contiguous ids: assert, no C call), the id '
        'pairs of mwpm_ids, the node pairs returned, the empty-graph shortcut and the gt.mwpm dispatch. '
        'non-trivial = graph with >= 4 nodes or an insertion sequence with a re-inserted pair')


# ------------------------------------------------------------------------------------------ helpers

class Obj:
    """identity-hashed node object, like PlanarCMWPMDecoder's _Node"""
    __slots__ = ('index',)

    def __init__(self, index):
        self.index = index


class Timed:
    """identity-hashed node object that is ORDERABLE by a time step several nodes share (what one adds for heapq /
    sorted): `<` is defined but not total — for two nodes of one time step neither a < b nor b < a"""
    __slots__ = ('t', 'index')

    def __init__(self, t, index):
        self.t, self.index = t, index

    def __lt__(self, other):
        return self.t < other.t


NODE_KINDS = ['int', 'tuple', 'obj', 'mixed', 'timed', 'fset', 'str']


def make_nodes(rng, n, kind):
    if kind == 'int':
        return list(range(100, 100 + n))
    if kind == 'timed':     # orderable, identity-hashed, three nodes per time step
        return [Timed(i // 3, i) for i in range(n)]
    if kind == 'fset':      # hashable, only partially ordered by `<` (subset): chains and incomparable pairs
        return [frozenset(range(i + 1)) if i % 4 == 0 else frozenset((('a', i), ('b', i // 2))) for i in range(n)]
    if kind == 'str':
        return ['v{}'.format(i * 7 % 13) + 'x' * (i % 3) + str(i) for i in range(n)]
    if kind == 'tuple':
        pool = [(r, c) for r in range(-2, 6) for c in range(-2, 6)]
        rng.shuffle(pool)
        return pool[:n]
    if kind == 'obj':
        return [Obj((i // 3, i % 3)) for i in range(n)]
    # mixed, as in decoders with virtual nodes: tuples and objects
    return [Obj(i) if rng.random() < 0.5 else (i, -i) for i in range(n)]


def fr(w):
    return Fraction(w)


def ops_wire(ops):
    return ';'.join('{},{},{}'.format(a, b, rat(fr(w))) for a, b, w in ops) or '_'


def graph_wire(items):
    return ';'.join('{},{},{}'.format(a, b, rat(fr(w))) for (a, b), w in items) or '_'


def mates_wire(pairs):
    return ';'.join('{},{}'.format(a, b) for a, b in pairs) or '_'


def number_graph(graph):
    """map the node objects of a real graph dict to 0,1,2,… in first-appearance order; returns (items, ids)"""
    ids = {}
    items = []
    for (a, b), w in graph.items():
        for x in (a, b):
            if x not in ids:
                ids[x] = len(ids)
        items.append(((ids[a], ids[b]), w))
    return items, ids


def canon_mates(mates, ids):
    """real mwpm output -> sorted list of int pairs, or a string describing why it is not a set of node pairs"""
    if not isinstance(mates, (set, frozenset)):
        return 'not-a-set:' + type(mates).__name__
    out = []
    for m in mates:
        if not (isinstance(m, tuple) and len(m) == 2):
            return 'not-a-pair'
        a, b = m
        try:
            if a not in ids or b not in ids:
                return 'unknown-node'
        except TypeError:
            return 'unknown-node'
        out.append((ids[a], ids[b]))
    return sorted(out)


def py_weight(items, pairs):
    """exact total weight of `pairs` in the dict contents `items` (either stored orientation), None if a non-edge"""
    d = {}
    for (a, b), w in items:
        d[(a, b)] = fr(w)
    tot = Fraction(0)
    for a, b in pairs:
        if (a, b) in d:
            tot += d[(a, b)]
        elif (b, a) in d:
            tot += d[(b, a)]
        else:
            return None
    return tot


def py_min_pm(n, wfun):
    """independent oracle: bitmask DP over node subsets; wfun(i, j) -> Fraction or None"""
    if n % 2:
        return None
    full = (1 << n) - 1
    memo = {0: Fraction(0)}

    def go(mask):
        if mask in memo:
            return memo[mask]
        i = (mask & -mask).bit_length() - 1
        best = None
        rest = mask & ~(1 << i)
        m = rest
        while m:
            j = (m & -m).bit_length() - 1
            m &= m - 1
            w = wfun(i, j)
            if w is None:
                continue
            sub = go(rest & ~(1 << j))
            if sub is None:
                continue
            if best is None or w + sub < best:
                best = w + sub
        memo[mask] = best
        return best
    import sys
    sys.setrecursionlimit(10000)
    return go(full)


def last_write(ops):
    """the graph the insertion sequence MEANS: unordered pair -> last weight written"""
    d = {}
    for a, b, w in ops:
        d[frozenset((a, b))] = fr(w)
    return d


def py_property(n_nodes, wdict, pairs, all_int=False):
    """the property itself, Python side: returns None when `pairs` is a minimum-weight perfect matching of the graph
    `wdict` (frozenset pair -> Fraction) on nodes 0..n_nodes-1, else a description"""
    if isinstance(pairs, str):
        return 'result is ' + pairs
    best = None
    if n_nodes <= DP_MAX_NODES:
        best = py_min_pm(n_nodes, lambda i, j: wdict.get(frozenset((i, j))) if i != j else None)
        if best is None:
            return None   # no perfect matching exists: outside the property's domain
    seen = [0] * n_nodes
    tot = Fraction(0)
    for a, b in pairs:
        if a == b or frozenset((a, b)) not in wdict:
            return 'pair ({},{}) is not an edge of the graph'.format(a, b)
        seen[a] += 1; seen[b] += 1
        tot += wdict[frozenset((a, b))]
    if any(c != 1 for c in seen):
        return 'node {} occurs {} times in the matching'.format(
            next(i for i, c in enumerate(seen) if c != 1), next(c for c in seen if c != 1))
    if n_nodes <= DP_MAX_NODES:
        scale = max([abs(w) for w in wdict.values()] + [Fraction(0)]) * n_nodes
        if best is not None and tot - best > (0 if all_int else Fraction(REL_TOL) * scale):
            return 'total weight {} exceeds the minimum over perfect matchings {}'.format(tot, best)
    return None


# ------------------------------------------------------------------------------------------ generators

WKINDS = ['int', 'smallint', 'dyadic', 'zero', 'negative', 'tied', 'bigint', 'hugeint', 'float', 'mixed']


def gen_weight(rng, kind):
    if kind == 'int':
        return rng.randint(0, 40)
    if kind == 'smallint':
        return rng.randint(0, 3)
    if kind == 'dyadic':
        return rng.randint(-64, 256) / rng.choice([1, 2, 4, 8, 16])
    if kind == 'zero':
        return rng.choice([0, 0, 0, 0.0, 1, 2])
    if kind == 'negative':
        return rng.randint(-30, 5)
    if kind == 'tied':
        return rng.choice([1, 1, 1, 2, 2.0, 0.5])
    if kind == 'bigint':
        return rng.randint(-10 ** 12, 10 ** 12)
    if kind == 'hugeint':    # Python ints far beyond 2**53 that differ only in their low bits (exact in int arithmetic)
        return rng.choice([2 ** 56, 2 ** 56, 2 ** 60, 10 ** 20, -(2 ** 62), 2 ** 80]) + rng.randint(0, 9)
    if kind == 'float':
        return rng.choice([rng.random() * 10, -rng.random(), rng.gauss(0, 3), 0.1 * rng.randint(1, 30)])
    return gen_weight(rng, rng.choice(WKINDS[:-1]))


# weight laws with a huge dynamic range INSIDE one graph (drawn per graph, not per edge): penalty edges of 1e6 … 1e12
# next to small weights whose differences are far below 1e-9 of the maximum
RANGE_KINDS = ['range-dyadic', 'range-float', 'range-mixed', 'range-neg', 'range-log', 'range-2scale',
               'tiny-dyadic', 'tiny-float']


def weight_sampler(rng, kind):
    """per-graph weight law: returns a 0-ary function drawing one weight"""
    if kind not in RANGE_KINDS:
        return lambda: gen_weight(rng, kind)
    if kind == 'tiny-dyadic':      # every weight k * 2**-e: uniformly tiny, all sums exact in binary64 (judged exactly)
        unit = 2.0 ** -rng.choice([55, 60, 64, 100, 200, 600])
        lo = rng.choice([0, 1, 1, -20])
        return lambda: unit * rng.randint(lo, 50)
    if kind == 'tiny-float':       # every weight k * 10**-e, e = 17 .. 200: differences far below the ulp of 1.0
        unit = 10.0 ** -rng.choice([17, 18, 18, 24, 30, 30, 60, 100, 200])
        lo = rng.choice([0, 1, 1, -20])
        return lambda: unit * rng.choice([rng.randint(lo, 50), rng.randint(lo, 50), rng.uniform(lo, 50)])
    k = rng.uniform(6, 12)
    pen_int = rng.choice([10 ** round(k), 2 ** round(k * 3.3219), rng.randint(10 ** 6, 10 ** 12)])
    p_pen = rng.choice([0.1, 0.25, 0.5])
    if kind == 'range-dyadic':     # exact in binary64: integer penalties (as int or float), dyadic fractions
        as_float = rng.random() < 0.5
        return lambda: ((float(pen_int) if as_float else pen_int) * rng.choice([1, 1, 2, 3]) if rng.random() < p_pen
                        else rng.randint(0, 64) / rng.choice([2, 4, 8, 16]))
    if kind == 'range-mixed':      # small ints next to a non-integral penalty, or integer penalties next to fractions
        if rng.random() < 0.5:
            return lambda: (pen_int + 0.5 if rng.random() < p_pen else rng.randint(0, 5))
        return lambda: (pen_int if rng.random() < p_pen else rng.choice([rng.randint(0, 9), rng.randint(0, 9),
                                                                         rng.randint(0, 40) / 4]))
    pen = 10.0 ** k
    small = pen * 10.0 ** rng.uniform(-12.5, -6)     # scale of the small weights: 1e-12.5 … 1e-6 of the penalty
    if kind == 'range-float':
        return lambda: (pen * rng.uniform(0.5, 1.0) if rng.random() < p_pen else
                        rng.choice([small * rng.random(), small * rng.random(), 0.0, small * 0.1 * rng.randint(1, 9)]))
    if kind == 'range-neg':        # huge NEGATIVE weights (edges forced into the matching) next to fractions of either sign
        return lambda: (-pen * rng.uniform(0.5, 1.0) if rng.random() < p_pen else small * rng.uniform(-1.0, 1.0))
    if kind == 'range-2scale':     # three nested scales: penalty, unit scale, and corrections far below the unit scale
        tiny = small * 10.0 ** rng.uniform(-6, -2)
        return lambda: (pen if rng.random() < p_pen else small * rng.randint(0, 3) + tiny * rng.randint(0, 9))
    # range-log: magnitudes log-uniform over 18 decades, occasional negatives
    return lambda: rng.choice([1, 1, 1, -1]) * 10.0 ** rng.uniform(-6, 12)


def exact_weights(ws):
    """are all partial sums of these weights exact in binary64?  They are when every weight is an integer multiple
    k * u of one power of two u with |k| < 2**48 (ints below 2**48, dyadics with denominators up to 16 below 2**44,
    and also uniformly TINY weights k * 2**-60)"""
    ws = [fr(w) for w in ws]
    den = max([w.denominator for w in ws] + [1])
    return den & (den - 1) == 0 and all(abs(w) * den < 2 ** 48 for w in ws)


def exact_kind(kind, ops):
    """are all partial sums exact in binary64?  Judged on the weights the graph finally holds (last write per pair)"""
    if kind in ('float', 'mixed') or kind in RANGE_KINDS:
        return exact_weights(last_write(ops).values())
    return True


def gen_planted(rng, n, shape, wkind, draw=None):
    """edge list (i, j, w) on nodes 0..n-1 containing a planted perfect matching"""
    draw = draw or weight_sampler(rng, wkind)
    perm = list(range(n)); rng.shuffle(perm)
    planted = [frozenset((perm[2 * i], perm[2 * i + 1])) for i in range(n // 2)]
    pairs = set(planted)
    allp = [frozenset(p) for p in itertools.combinations(range(n), 2)]
    if shape == 'complete':
        pairs |= set(allp)
    elif shape == 'sparse':
        dens = rng.choice([0.15, 0.3, 0.5])
        pairs |= {p for p in allp if rng.random() < dens}
    elif shape == 'path':     # planted + the edges joining consecutive planted pairs: exactly few perfect matchings
        for i in range(n // 2 - 1):
            pairs.add(frozenset((perm[2 * i + 1], perm[2 * i + 2])))
        if rng.random() < 0.5 and n > 2:
            pairs.add(frozenset((perm[n - 1], perm[0])))
    else:                     # planted + few
        for _ in range(rng.randint(0, n)):
            pairs.add(rng.choice(allp))
    out = []
    for p in sorted(pairs, key=sorted):
        a, b = sorted(p)
        out.append((a, b, draw()))
    rng.shuffle(out)
    return out


def gen_ops(rng, edges, wkind, reinsert, draw=None):
    """insertion sequence for the undirected weighted edges; with re-insertions the LAST write carries the edge's
    weight and earlier writes carry decoys chosen to change the optimum if they survived"""
    ops = []
    draw = draw or weight_sampler(rng, wkind)
    for a, b, w in edges:
        if rng.random() < 0.5:
            a, b = b, a
        r = rng.random() if reinsert else 1.0
        decoy = lambda: draw() + rng.choice([-1, 1]) * rng.choice([1, 50, 1000])  # noqa: E731
        if r < 0.12:      # reversed re-insertion with a different weight
            ops.append([(b, a, decoy()), (a, b, w)])
        elif r < 0.2:     # same orientation overwrite
            ops.append([(a, b, decoy()), (a, b, w)])
        elif r < 0.3:     # triple: a,b / b,a / a,b
            ops.append([(a, b, decoy()), (b, a, decoy()), (a, b, w)])
        else:
            ops.append([(a, b, w)])
    # interleave: keep the relative order of each edge's writes, shuffle everything else
    tags = [i for i, grp in enumerate(ops) for _ in grp]
    rng.shuffle(tags)
    nxt = [0] * len(ops)
    seq = []
    for i in tags:
        seq.append(ops[i][nxt[i]]); nxt[i] += 1
    return seq


# ------------------------------------------------------------------------------------------ real-code drivers

def real_build(ops, nodes):
    from qecsim import graphtools as gt
    g = gt.SimpleGraph()
    for a, b, w in ops:
        g.add_edge(nodes[a], nodes[b], w)
    return g


def real_items(g, nodes):
    """dict contents of the real graph in order, in wire numbering (index into `nodes`)"""
    idx = {}
    for i, x in enumerate(nodes):
        idx[x] = i
    out = []
    for k, w in g.items():
        if not (isinstance(k, tuple) and len(k) == 2 and k[0] in idx and k[1] in idx):
            return None
        out.append(((idx[k[0]], idx[k[1]]), w))
    return out


class NxCapture:
    """records what the wrapper hands to networkx's max_weight_matching, then calls the original"""

    def __init__(self):
        import networkx as nx
        self.nx = nx
        self.calls = []

    def __enter__(self):
        nx = self.nx
        self.orig = nx.algorithms.matching.max_weight_matching
        self.saved = [(nx, 'max_weight_matching', nx.max_weight_matching),
                      (nx.algorithms, 'max_weight_matching', nx.algorithms.max_weight_matching),
                      (nx.algorithms.matching, 'max_weight_matching', nx.algorithms.matching.max_weight_matching)]
        orig = self.orig

        def spy(G, maxcardinality=False, weight='weight'):
            try:
                self.calls.append(([(u, v, d) for u, v, d in G.edges(data=weight)], bool(maxcardinality), weight))
            except Exception:
                self.calls.append(None)
            return orig(G, maxcardinality=maxcardinality, weight=weight)
        for mod, name, _ in self.saved:
            setattr(mod, name, spy)
        return self

    def __exit__(self, *a):
        for mod, name, val in self.saved:
            setattr(mod, name, val)
        return False


def canon_undirected(entries):
    """[(a, b, w)] -> canonical text; later entries win on the same unordered pair (add_weighted_edges_from)"""
    d = {}
    for a, b, w in entries:
        d[(min(a, b), max(a, b))] = fr(w)
    return ';'.join('{},{},{}'.format(a, b, rat(w)) for (a, b), w in sorted(d.items())) or '_'


def post_nxin(reply):
    if reply == 'empty':
        return reply
    g, mc = reply.split(' ')
    ent = []
    for e in g.split(';'):
        a, b, w = e.split(',')
        ent.append((int(a), int(b), Fraction(w)))
    return canon_undirected(ent) + ' ' + mc


def make_post_check(tol_scale, impl=None, ctx=None):
    """model reply `pm=b w=r min=r|N`  ->  verdict line `pm=b opt=b w=r`; opt = weight equals the verified minimum
    (exactly when tol_scale is None, else within REL_TOL * tol_scale)"""
    def post(reply):
        f = dict(x.split('=') for x in reply.split(' '))
        if f['min'] == 'N':
            # the verified oracle says the graph admits NO perfect matching: outside the property's domain
            if ctx is not None:
                ctx.extra['out_of_domain_no_pm'] = ctx.extra.get('out_of_domain_no_pm', 0) + 1
            return impl if impl is not None else 'pm={} opt=0 w={} min=N'.format(f['pm'], f['w'])
        w, mn = Fraction(f['w']), Fraction(f['min'])
        ok = (w == mn) if tol_scale is None else (w - mn <= Fraction(REL_TOL) * tol_scale and
                                                  mn - w <= Fraction(REL_TOL) * tol_scale)
        if f['pm'] == '1' and ok:
            return 'pm=1 opt=1 w=' + f['w']
        return 'pm={} opt={} w={} min={}'.format(f['pm'], int(ok), f['w'], f['min'])
    return post


def check_case(ctx, kind, wire_op, items, mates, n_nodes, exact, meta):
    """queue the verified-monitor case for one real mwpm result"""
    if isinstance(mates, str):
        ctx.monitor_fail('gt.mwpm result is ' + mates, meta, key=None)
        return
    w = py_weight(items, mates)
    scale = None if exact else max([abs(fr(x)) for _, x in items] + [Fraction(0)]) * max(n_nodes, 1)
    impl = 'pm=1 opt=1 w=' + (rat(w) if w is not None else 'nonedge')
    ctx.case(wire_op + ' ' + mates_wire(mates), impl, nontrivial=(n_nodes >= 4), meta=meta,
             post=make_post_check(scale, impl, ctx))


def run_mwpm(g):
    from qecsim import graphtools as gt
    with core.TimeLimit(20):
        return gt.mwpm(g)


# ------------------------------------------------------------------------------------------ parts of the run

def part_build(ctx):
    """(a) SimpleGraph contents after arbitrary insertion sequences"""
    rng = ctx.rng
    for it in range(ctx.scale(1500, 20000)):
        n = rng.choice([1, 2, 2, 3, 3, 4, 5, 8])
        nk = rng.choice(NODE_KINDS)
        nodes = make_nodes(rng, n, nk)
        wk = rng.choice(WKINDS + RANGE_KINDS[:2])
        draw = weight_sampler(rng, wk)
        ops = []
        for _ in range(rng.choice([0, 1, 2, 3, 5, 8, 13, 30])):
            a = rng.randrange(n)
            b = a if rng.random() < 0.07 else rng.randrange(n)
            if ops and rng.random() < 0.35:   # revisit an earlier pair, often reversed
                a0, b0, _ = rng.choice(ops)
                a, b = (b0, a0) if rng.random() < 0.6 else (a0, b0)
            ops.append((a, b, draw()))
        g = real_build(ops, nodes)
        items = real_items(g, nodes)
        impl = graph_wire(items) if items is not None else 'bad-keys'
        pairs = [frozenset((a, b)) for a, b, _ in ops]
        ctx.case('c13 build ' + ops_wire(ops), impl, nontrivial=(len(set(pairs)) < len(pairs)),
                 meta={'part': 'build', 'ops': [[a, b, str(fr(w))] for a, b, w in ops], 'n': n, 'nodes': nk})
        ctx.count('build.ops', len(ops)); ctx.count('build.nodes', nk)
        # the clause itself, independent of the model: no reversed duplicates; last write wins
        lw = last_write(ops)
        if items is not None:
            seen = {}
            bad = None
            for (a, b), w in items:
                if frozenset((a, b)) in seen:
                    bad = 'pair {{{},{}}} stored twice'.format(a, b)
                seen[frozenset((a, b))] = fr(w)
            if bad is None and seen != lw:
                bad = 'stored weights differ from the last ones written'
            if bad:
                ctx.monitor_fail('SimpleGraph.add_edge: ' + bad,
                                 {'ops': [[a, b, str(fr(w))] for a, b, w in ops], 'stored': graph_wire(items)},
                                 key='SimpleGraph.add_edge')


def one_planted(ctx, n, shape, wk, nk, reinsert, tag):
    rng = ctx.rng
    draw = weight_sampler(rng, wk)
    edges = gen_planted(rng, n, shape, wk, draw)
    ops = gen_ops(rng, edges, wk, reinsert, draw)
    nodes = make_nodes(rng, n, nk)
    g = real_build(ops, nodes)
    meta = {'part': tag, 'ops': [[a, b, str(fr(w))] for a, b, w in ops], 'n': n, 'nodes': nk, 'shape': shape,
            'wkind': wk, 'ops_repr': [[a, b, repr(w)] for a, b, w in ops]}
    with NxCapture() as cap:
        try:
            mates = run_mwpm(g)
        except core.TimeLimit.Expired:
            ctx.monitor_fail('gt.mwpm did not return within 20 s', meta, key='mwpm.timeout')
            return
        except Exception as ex:
            ctx.monitor_fail('gt.mwpm raised {!r} on a graph with a perfect matching'.format(ex), meta, key=None)
            return
    ids = {x: i for i, x in enumerate(nodes)}
    cm = canon_mates(mates, ids)
    items = real_items(g, nodes)
    exact = exact_kind(wk, ops)
    if items is None:
        return  # reported by part_build's correspondence
    # the check is made against the graph the insertion sequence MEANS (model `build ops`), on the real output
    lw_items = [((min(p), max(p)), w) for p, w in last_write(ops).items()]
    check_case(ctx, tag, 'c13 checkops ' + ops_wire(ops), lw_items, cm, n, exact, meta)
    # (c) wrapper arguments
    if len(cap.calls) == 1 and cap.calls[0] is not None:
        ent, mc, wname = cap.calls[0]
        try:
            txt = canon_undirected([(ids[u], ids[v], w) for u, v, w in ent]) + ' mc=' + str(int(mc))
        except Exception:
            txt = 'bad-oracle-args'
        ctx.case('c13 nxin ' + graph_wire(items), txt, nontrivial=(n >= 4), meta=dict(meta, part='nxin'),
                 post=post_nxin)
        ctx.count('nxin', 'captured')
    else:
        ctx.count('nxin', 'not-captured:{}'.format(len(cap.calls)))
    ctx.count(tag + '.n', n); ctx.count(tag + '.shape', shape); ctx.count(tag + '.wkind', wk)
    ctx.count(tag + '.nodes', nk); ctx.count(tag + '.exact', exact)
    ctx.count(tag + '.edges', (len(items) + 4) // 5 * 5)


def part_planted(ctx):
    rng = ctx.rng
    nmax = ctx.scale(ORACLE_MAX_NODES, 16)
    # small sizes densely, the large ones a few times (the oracle enumerates (n-1)!! pairings on complete graphs)
    for it in range(ctx.scale(2500, 25000)):
        n = rng.choice([2, 2, 4, 4, 4, 6, 6, 6, 8, 8, 10])
        one_planted(ctx, n, rng.choice(['complete', 'sparse', 'few', 'path']), rng.choice(WKINDS),
                    rng.choice(NODE_KINDS), rng.random() < 0.6, 'planted')
    for it in range(ctx.scale(120, 1000)):
        n = rng.choice([12, 12, 14] + ([16] if nmax >= 16 and it % 10 == 0 else []))
        shape = rng.choice(['complete', 'sparse', 'sparse', 'few', 'path'])
        if n >= 16 and shape == 'complete':
            shape = 'sparse'
        one_planted(ctx, n, shape, rng.choice(WKINDS), rng.choice(['tuple', 'obj', 'timed', 'fset']), rng.random() < 0.6, 'planted')


def part_range(ctx):
    """graphs whose weights span a huge dynamic range (RANGE_KINDS): the monitor `weight of the returned matching =
    verified minPM` (exact for the dyadic / integer laws, within REL_TOL * n * max|w| otherwise)"""
    rng = ctx.rng
    for it in range(ctx.scale(900, 9000)):
        n = rng.choice([4, 4, 4, 6, 6, 6, 8, 8, 10])
        if it % 40 == 39:
            n = rng.choice([12, 14])
        shape = rng.choice(['complete', 'complete', 'sparse', 'few', 'path'])
        one_planted(ctx, n, shape, RANGE_KINDS[it % len(RANGE_KINDS)], rng.choice(NODE_KINDS),
                    rng.random() < 0.4, 'range')


def part_exhaustive4(ctx):
    """every graph on 4 labelled nodes whose 6 possible edges are each absent or of weight -1 / 0 / 2 (4**6 = 4096
    graphs); those admitting a perfect matching are checked"""
    from qecsim import graphtools as gt
    slots = list(itertools.combinations(range(4), 2))
    n_pm = 0
    for code in itertools.product([None, -1, 0, 2], repeat=6):
        present = [(a, b, w) for (a, b), w in zip(slots, code) if w is not None]
        has_pm = any(all(frozenset(p) in {frozenset((a, b)) for a, b, _ in present} for p in pm)
                     for pm in (((0, 1), (2, 3)), ((0, 2), (1, 3)), ((0, 3), (1, 2))))
        if not has_pm or {x for a, b, _ in present for x in (a, b)} != {0, 1, 2, 3}:
            continue
        n_pm += 1
        g = gt.SimpleGraph()
        for a, b, w in present:
            g.add_edge(a, b, w)
        mates = run_mwpm(g)
        items = list(g.items())
        check_case(ctx, 'exh4', 'c13 check ' + graph_wire(items), items, canon_mates(mates, {i: i for i in range(4)}),
                   4, True, {'part': 'decoder', 'decoder': 'exhaustive-4-node', 'graph': graph_wire(items), 'n': 4})
    ctx.extra['exhaustive4_graphs'] = n_pm


def part_empty(ctx):
    """empty graph => empty matching (value observed; whether networkx is consulted is not part of the property)"""
    from qecsim import graphtools as gt
    for g in (gt.SimpleGraph(), {}):
        for fn in (gt.mwpm, gt.mwpm_networkx):
            try:
                r = fn(g)
                impl = 'empty' if isinstance(r, (set, frozenset)) and len(r) == 0 else 'nonempty:' + repr(r)[:60]
            except Exception as ex:
                impl = 'raised:' + type(ex).__name__
            ctx.case('c13 nxin _', impl, nontrivial=False, meta={'part': 'empty'})
            if impl != 'empty':
                ctx.monitor_fail('empty graph does not yield the empty matching: ' + impl, {'graph': '{}'},
                                 key='mwpm.empty')


def part_decoders(ctx):
    """(d) graphs the real decoders hand to gt.mwpm"""
    import numpy as np
    from qecsim import graphtools as gt
    from qecsim import paulitools as pt
    from qecsim.models.generic import BiasedDepolarizingErrorModel, DepolarizingErrorModel
    from qecsim.models.planar import PlanarCode, PlanarMWPMDecoder, PlanarCMWPMDecoder
    from qecsim.models.toric import ToricCode, ToricMWPMDecoder
    from qecsim.models.rotatedplanar import RotatedPlanarCode, RotatedPlanarSMWPMDecoder
    from qecsim.models.rotatedtoric import RotatedToricCode, RotatedToricSMWPMDecoder
    rng = ctx.rng
    captured = []
    orig = gt.mwpm

    def spy(graph):
        snap = list(graph.items())
        mates = orig(graph)
        captured.append((snap, mates))
        return mates

    configs = [
        ('PlanarMWPM', lambda: PlanarCode(rng.randint(2, 5), rng.randint(2, 5)), lambda: PlanarMWPMDecoder(), {}),
        ('PlanarCMWPM', lambda: PlanarCode(rng.randint(2, 4), rng.randint(2, 4)),
         lambda: PlanarCMWPMDecoder(factor=rng.choice([3, 2.5, 0]), max_iterations=rng.choice([1, 2, 4]),
                                    box_shape=rng.choice('trfl'), distance_algorithm=rng.choice([1, 2, 4])), {}),
        ('ToricMWPM', lambda: ToricCode(rng.randint(2, 5), rng.randint(2, 5)), lambda: ToricMWPMDecoder(), {}),
        ('RotatedPlanarSMWPM', lambda: RotatedPlanarCode(rng.choice([3, 5]), rng.choice([3, 5])),
         lambda: RotatedPlanarSMWPMDecoder(),
         lambda: {'error_model': rng.choice([BiasedDepolarizingErrorModel(rng.choice([1, 3, 10, 100])),
                                             DepolarizingErrorModel()]),
                  'error_probability': rng.choice([0.05, 0.1, 0.2])}),
        ('RotatedToricSMWPM', lambda: RotatedToricCode(rng.choice([2, 4]), rng.choice([2, 4])),
         lambda: RotatedToricSMWPMDecoder(),
         lambda: {'error_model': rng.choice([BiasedDepolarizingErrorModel(rng.choice([1, 3, 10, 100])),
                                             DepolarizingErrorModel()]),
                  'error_probability': rng.choice([0.05, 0.1, 0.2])}),
    ]
    gt.mwpm = spy
    try:
        for it in range(ctx.scale(600, 5000)):
            name, mk_code, mk_dec, kw = configs[it % len(configs)]
            code, dec = mk_code(), mk_dec()
            n = code.n_k_d[0]
            k = rng.choice([1, 1, 2, 2, 3, 4])
            err = np.zeros(2 * n, dtype=int)
            for q in rng.sample(range(n), min(k, n)):
                p = rng.choice('XYZ')
                if p in 'XY':
                    err[q] = 1
                if p in 'ZY':
                    err[n + q] = 1
            syn = pt.bsp(err, code.stabilizers.T)
            before = len(captured)
            try:
                with core.TimeLimit(30):
                    dec.decode(code, syn, **(kw() if callable(kw) else kw))
            except core.TimeLimit.Expired:
                ctx.count('decoder.outcome', name + ':timeout')
            except Exception as ex:   # decoder failures are not C13's subject
                ctx.count('decoder.outcome', name + ':' + type(ex).__name__)
            for snap, mates in captured[before:]:
                handle_captured(ctx, name, snap, mates)
            del captured[before:]
    finally:
        gt.mwpm = orig


def handle_captured(ctx, name, snap, mates):
    graph = dict(snap)
    if len(graph) != len(snap):
        return
    items, ids = number_graph(graph)
    n = len(ids)
    cm = canon_mates(mates, ids)
    exact = all(fr(w).denominator <= 16 and abs(w) < 2 ** 44 for _, w in items)
    meta = {'part': 'decoder', 'decoder': name, 'graph': graph_wire(items), 'n': n,
            'node_types': sorted({type(x).__name__ for x in ids})}
    ctx.count('decoder.graph', name); ctx.count('decoder.n', n); ctx.count('decoder.exact', exact)
    if n == 0:
        if not (isinstance(mates, (set, frozenset)) and not mates):
            ctx.monitor_fail('empty decoder graph does not yield the empty matching', meta, key='mwpm.empty')
        return
    if n <= ORACLE_MAX_NODES:
        check_case(ctx, 'decoder', 'c13 check ' + graph_wire(items), items, cm, n, exact, meta)
    elif n <= DP_MAX_NODES:
        wd = {}
        for (a, b), w in items:
            wd[frozenset((a, b))] = fr(w)
        bad = py_property(n, wd, cm, all_int=all(type(w) is int for _, w in items))
        ctx.extra['dp_checked'] = ctx.extra.get('dp_checked', 0) + 1
        if bad:
            ctx.monitor_fail('decoder graph ({}): {}'.format(name, bad), dict(meta, mates=mates_wire(cm)
                             if not isinstance(cm, str) else cm), key=None)
    else:
        ctx.count('decoder.skipped', 'n>{}'.format(DP_MAX_NODES))


def part_w2i(ctx):
    """(e) blossom5.weight_to_int_fn: branch logic and rounding; infty() (C library) is patched to a constant and the
    two float operations are recomputed here and passed to the model as exact rationals"""
    from qecsim.graphtools import blossom5
    rng = ctx.rng
    saved = blossom5.infty
    try:
        for it in range(ctx.scale(300, 3000)):
            inf = rng.choice([2 ** 31 - 1, 10 ** 9, 1000, 2 ** 62, 97])
            blossom5.infty = lambda inf=inf: inf
            kind = rng.choice(['ints', 'ints', 'floats', 'zeros', 'mixed', 'bigints', 'halves'])
            m = rng.randint(1, 6)
            if kind == 'ints':
                ws = [rng.randint(-50, 50) for _ in range(m)]
            elif kind == 'floats':
                ws = [rng.choice([rng.random() * 5, -rng.random(), 0.0, 2.5]) for _ in range(m)]
            elif kind == 'zeros':
                ws = [rng.choice([0, 0.0]) for _ in range(m)]
            elif kind == 'bigints':
                ws = [rng.randint(-inf, inf) for _ in range(m)]
            elif kind == 'halves':
                ws = [rng.randint(-9, 9) / 2 for _ in range(m)] + [float(inf) / 10]
            else:
                ws = [rng.choice([rng.randint(-5, 5), rng.random()]) for _ in range(m)]
            try:
                fn = blossom5.weight_to_int_fn(list(ws))
            except Exception as ex:
                ctx.count('w2i', 'raised:' + type(ex).__name__)
                continue
            wt = rng.choice(ws)
            nz = [abs(w) for w in ws if w != 0]
            prod = Fraction(0)
            if nz:
                scaling = inf / 10 / max(nz)
                prod = fr(wt * scaling)
            allint = all(isinstance(w, int) for w in ws)
            try:
                val = fn(wt)
            except Exception as ex:
                ctx.count('w2i', 'fn-raised:' + type(ex).__name__)
                continue
            if not nz:
                k = 'zero'
            elif val is wt and not (max(nz) >= inf / 10 or not allint):
                k = 'ident'
            else:
                k = 'scaled'
            if k == 'ident' and not isinstance(wt, int):
                continue
            impl = '{} {}'.format(k, int(val)) if isinstance(val, int) else '{} non-int:{!r}'.format(k, val)
            ctx.case('c13 w2i {} {} {} {} {}'.format(rat(inf), int(allint), ';'.join(rat(fr(w)) for w in ws),
                                                      rat(fr(wt)), rat(prod)), impl, nontrivial=bool(nz),
                     meta={'part': 'w2i', 'weights': [repr(w) for w in ws], 'infty': inf, 'wt': repr(wt)})
            ctx.count('w2i', k)
    finally:
        blossom5.infty = saved


# ------------------------------------------------------------------------------------------ call histories
# The property is quantified over graphs: gt.mwpm(G) must be a minimum-weight perfect matching of G whatever was matched
# before in the same process and whatever the caller did with the sets returned earlier (they are the caller's).  A
# history is a sequence of calls on ONE set of node objects; consecutive graphs are equal except for what a
# fingerprint / memo / shared buffer would confuse: weights that differ but collide under Python's hash, insertion
# order, orientation, number type, the same graph object updated in place, empty graphs in between.  After every call
# the returned set is updated in place by the caller.  Every answer is judged by the verified monitors (checkops:
# isPerfectMatching + weight = minPM) and, for a sample, compared with the answer of a process that never matched
# anything before.

HASH_M = 2 ** 61 - 1     # sys.hash_info.modulus of 64-bit CPython (asserted in part_history)

# pairs (u, v), u != v in value, hash(u) == hash(v): a graph with weights from {u, v} and the graph with u <-> v swapped
# on every edge have equal fingerprints hash(frozenset(items)) but different optima
COLLIDING_PAIRS = [
    (-1, -2), (-1, -2), (-1, -2), (-2.0, -1), (-1.0, -2.0), (-1, -1 - HASH_M),
    (0, HASH_M), (HASH_M, 2 * HASH_M), (0, -HASH_M), (-HASH_M, HASH_M), (0, 3 * HASH_M),
    (1, 1 + HASH_M), (1, 2 ** 61), (True, 2 ** 61), (3, 3 + HASH_M), (-5, -5 - HASH_M), (7, 7 + 4 * HASH_M),
    (10 ** 20, 10 ** 20 + HASH_M), (10 ** 20, 10 ** 20 - 3 * HASH_M), (2 ** 64 + 11, 2 ** 64 + 11 + 2 * HASH_M),
    (0.5, 2.0 ** 60), (1.5, 1.5 * 2.0 ** 61), (0.25, 0.25 * 2.0 ** 61), (-0.75, -0.75 * 2.0 ** 61),
    (2.0, 2.0 ** 62), (2, 2.0 ** 62), (1.0, 2 ** 61),
]
# integer weights that differ in value (and hash) but are equal after conversion to binary64 / after rounding: what a
# fingerprint built from float(w) or a rounded weight would confuse; all-int graphs are judged exactly
NEAR_PAIRS = [(2 ** 53, 2 ** 53 + 1), (10 ** 20, 10 ** 20 + 1), (-(2 ** 60), -(2 ** 60) - 1), (2 ** 64, 2 ** 64 - 1)]
# values that are EQUAL (the graphs are the same graph) but of different number types
EQUAL_TYPES = [(0, 0.0, False, -0.0), (1, 1.0, True), (2, 2.0), (-1, -1.0), (2 ** 53, 2.0 ** 53), (-64, -64.0)]


def hash_partner(rng, w):
    """a weight of different VALUE with the same Python hash (None when none is known)"""
    if isinstance(w, (bool, int)):
        w = int(w)
        if w == -1 and rng.random() < 0.5:
            return -2
        if w == -2 and rng.random() < 0.5:
            return -1
        k = rng.choice([1, 1, 2, 5]) * HASH_M          # |w| + k(2^61-1) with the sign of w has the hash of w
        if w == 0:
            return rng.choice([1, -1]) * k
        if abs(w) > k and rng.random() < 0.5:
            return w - k if w > 0 else w + k
        return w + k if w > 0 else w - k
    if isinstance(w, float) and w != 0.0 and abs(w) < 1e200:
        if w == -1.0:
            return -2.0
        if w == -2.0:
            return -1.0
        return w * 2.0 ** 61 if abs(w) < 2.0 ** 70 else w / 2.0 ** 61
    if isinstance(w, float) and w == 0.0:
        return rng.choice([HASH_M, -HASH_M, 2 * HASH_M])
    return None


def parse_w(s):
    import re
    if s in ('True', 'False'):
        return s == 'True'
    return int(s) if re.fullmatch(r'-?\d+', s) else float(s)


def all_int(ops):
    return all(isinstance(w, (bool, int)) for _, _, w in ops)


def hist_exact(ops):
    return all_int(ops) or exact_weights(last_write(ops).values())


def graph_fn(name):
    from qecsim import graphtools as gt
    return getattr(gt, name)


def build_step(step, nodes, prev_g):
    """the graph object a step hands to the real code"""
    from qecsim import graphtools as gt
    ops = [(a, b, parse_w(w)) for a, b, w in step['ops_repr']]
    if step.get('reuse') and prev_g is not None:
        g = prev_g
        via = step.get('via') or 'add_edge'
        for a, b, w in ops[len(ops) - step['reuse']:]:
            # SimpleGraph IS a dict: besides add_edge a caller may re-weight an existing edge by item assignment, or
            # delete it and assign the pair again (possibly named the other way round) - the same graph either way
            old = (nodes[a], nodes[b]) if (nodes[a], nodes[b]) in g else (nodes[b], nodes[a]) if (nodes[b], nodes[a]) in g else None
            if via == 'setitem' and old is not None:
                g[old] = w
            elif via == 'delset' and old is not None:
                del g[old]
                g[(nodes[a], nodes[b])] = w
            else:
                g.add_edge(nodes[a], nodes[b], w)
        return g, ops
    if step['kind'] == 'dict':
        return {(nodes[a], nodes[b]): w for a, b, w in ops}, ops
    g = gt.SimpleGraph()
    for a, b, w in ops:
        g.add_edge(nodes[a], nodes[b], w)
    return g, ops


def apply_after(step, r, nodes, earlier):
    """the caller's in-place use of the set it was given"""
    act = step.get('after') or ['none']
    if not isinstance(r, set):
        return
    if act[0] == 'add':
        r.add((nodes[act[1]], nodes[act[2]]))
    elif act[0] == 'clear':
        r.clear()
    elif act[0] == 'union':
        for e in earlier:
            r |= e
    elif act[0] == 'discard' and r:
        r.pop()


def py_judge(ops, n, cm):
    """the property on one answer, Python side (independent DP oracle): None or a description"""
    if not ops:
        if isinstance(cm, str):
            return 'result is ' + cm
        return None if cm == [] else 'the empty graph does not yield the empty matching: {} pair(s) returned'.format(len(cm))
    return py_property(n, last_write(ops), cm, all_int=all(type(w) is int for _, _, w in ops))


def eval_history(steps, node_kind, n):
    """re-run a recorded history on the real code and evaluate the property at every call: (description, step index,
    returned) of the first failing call, or None"""
    import random
    nodes = make_nodes(random.Random(0), n, node_kind)
    ids = {x: i for i, x in enumerate(nodes)}
    prev_g, earlier = None, []
    for k, step in enumerate(steps):
        g, ops = build_step(step, nodes, prev_g)
        try:
            with core.TimeLimit(20):
                r = graph_fn(step['fn'])(g)
        except core.TimeLimit.Expired:
            return 'did not return within 20 s', k, 'timeout'
        except Exception as ex:
            return 'raised {!r}'.format(ex), k, 'exception'
        cm = canon_mates(r, ids)
        bad = py_judge(ops, n, cm)
        if bad:
            return bad, k, cm if isinstance(cm, str) else mates_wire(cm)
        apply_after(step, r, nodes, earlier)
        if isinstance(r, set):
            earlier.append(r)
        if ops and step['kind'] == 'simple':
            prev_g = g
    return None


def single_call(step, node_kind, n):
    """ONE call of the real code on the graph of `step`: (failure description or None, exact weight or None)"""
    import random
    nodes = make_nodes(random.Random(0), n, node_kind)
    g, ops = build_step(dict(step, reuse=0), nodes, None)
    cm = canon_mates(graph_fn(step['fn'])(g), {x: i for i, x in enumerate(nodes)})
    bad = py_judge(ops, n, cm)
    if bad or isinstance(cm, str):
        return bad or cm, None
    return None, py_weight([((min(p), max(p)), w) for p, w in last_write(ops).items()], cm)


def found_history(steps, node_kind, n, r):
    return {'what': 'call #{} ({}) of this history of matching calls in one process: {}'.format(
                r[1] + 1, steps[r[1]]['fn'], r[0]),
            'history': steps[:r[1] + 1], 'nodes': node_kind, 'n': n, 'returned': r[2],
            'recipe': 'one process; nodes = make_nodes(Random(0), n, kind); per step: build the graph from ops_repr (a '
                      'new SimpleGraph / dict, or further add_edge calls on the previous object when reuse > 0), call '
                      'gt.<fn>(graph), then apply `after` to the returned set in place'}


FRESH_CODE = r'''
import json, os, sys
from fractions import Fraction
sys.path.insert(0, sys.argv[1])
from qv.props import c13
from qecsim import graphtools as gt   # imported, never called in this process: every answer comes from a forked child
jobs = json.load(sys.stdin)
out = []
for job in jobs:
    rd, wr = os.pipe()
    pid = os.fork()
    if pid == 0:
        os.close(rd)
        try:
            bad, w = c13.single_call(job['step'], job['nodes'], job['n'])
            res = {'bad': bad, 'w': str(w) if w is not None else None}
        except BaseException as ex:
            res = {'error': repr(ex)[:200]}
        os.write(wr, json.dumps(res).encode())
        os._exit(0)
    os.close(wr)
    buf = b''
    while True:
        chunk = os.read(rd, 65536)
        if not chunk:
            break
        buf += chunk
    os.close(rd)
    os.waitpid(pid, 0)
    try:
        out.append(json.loads(buf.decode()))
    except Exception:
        out.append({'error': 'no-reply'})
print(json.dumps(out))
'''


def fresh_answers(jobs):
    """weights of gt.<fn>(graph) computed as the FIRST matching call of a process (one forked child per graph)"""
    import os
    import subprocess
    import sys
    harness = os.path.abspath(os.path.join(os.path.dirname(__file__), '..', '..'))
    p = subprocess.run([sys.executable, '-c', FRESH_CODE, harness], input=json.dumps(jobs), text=True,
                       stdout=subprocess.PIPE, stderr=subprocess.PIPE, timeout=900)
    try:
        return json.loads(p.stdout.strip().splitlines()[-1])
    except Exception:
        raise core.Infra('fresh-process helper failed: ' + p.stderr[-400:])


def gen_history(rng, n):
    """one history: list of steps (JSON-able); every non-empty graph has the same planted edge set"""
    kind = rng.choice(['collide-all', 'collide-all', 'collide-all', 'collide-one', 'collide-one', 'equal', 'reuse', 'reuse',
                       'one-weight', 'generic'])
    shape = rng.choice(['complete', 'complete', 'sparse', 'few', 'path'])
    steps = []

    def step(ops, fn=None, kind_='simple', reuse=0, allow_dict=True, via='add_edge'):
        fn = fn or rng.choice(['mwpm', 'mwpm', 'mwpm', 'mwpm_networkx'])
        pairs = [frozenset((a, b)) for a, b, _ in ops]
        if kind_ == 'simple' and len(set(pairs)) == len(pairs) and rng.random() < 0.2 and not reuse and allow_dict:
            kind_ = 'dict'
        act = rng.choice([['none'], ['add', rng.randrange(n), rng.randrange(n)], ['add', 0, 0], ['clear'], ['union'],
                          ['discard'], ['union']])
        steps.append({'fn': fn, 'kind': kind_, 'ops_repr': [[a, b, repr(w)] for a, b, w in ops], 'reuse': reuse,
                      'after': act, 'via': via})

    def empty():
        steps.append({'fn': rng.choice(['mwpm', 'mwpm', 'mwpm_networkx', 'mwpm_blossom5']),
                      'kind': rng.choice(['simple', 'dict']), 'ops_repr': [], 'reuse': 0,
                      'after': rng.choice([['none'], ['add', rng.randrange(n), rng.randrange(n)], ['union'], ['union'],
                                           ['clear']])})

    def maybe_empty(p=0.35):
        while rng.random() < p:
            empty()

    def reorder(ops):
        """same graph: other insertion order, other orientations"""
        ops = [(b, a, w) if rng.random() < 0.5 else (a, b, w) for a, b, w in ops]
        rng.shuffle(ops)
        return ops

    maybe_empty()
    if kind == 'collide-all':
        u, v = rng.choice(COLLIDING_PAIRS + NEAR_PAIRS)
        others = rng.choice([[], [], [-1.5, 7], [rng.randint(-3, 9)], [0.5 * rng.randint(-6, 12)]])
        p_other = 0.3 if others else 0.0
        edges = gen_planted(rng, n, shape, 'int', lambda: rng.choice(others) if rng.random() < p_other else
                            rng.choice([u, v]))
        swap = lambda w: (v if (w == u and type(w) is type(u)) else u if (w == v and type(w) is type(v)) else w)  # noqa: E731
        g1 = list(edges)
        g2 = [(a, b, swap(w)) for a, b, w in edges]
        seq = rng.choice([[g1, g2], [g1, g2, g1], [g2, g1], [g1, g1, g2, g2], [g1, g2, g2, g1]])
        for gi, g in enumerate(seq):
            step(g if rng.random() < 0.6 else reorder(g), fn='mwpm' if gi < 2 else None)
            maybe_empty(0.2)
    elif kind == 'collide-one':
        wk = rng.choice(['negative', 'smallint', 'int', 'dyadic', 'tied', 'zero', 'bigint'])
        edges = gen_planted(rng, n, shape, wk)
        cur = list(edges)
        step(cur, fn='mwpm')
        for _ in range(rng.randint(1, 4)):
            i = rng.randrange(len(cur))
            a, b, w = cur[i]
            p = hash_partner(rng, w)
            if p is None:
                continue
            cur = list(cur); cur[i] = (a, b, p)
            maybe_empty(0.2)
            step(cur if rng.random() < 0.6 else reorder(cur), fn='mwpm')
    elif kind == 'equal':
        wk = rng.choice(['smallint', 'tied', 'zero', 'negative', 'dyadic'])
        edges = gen_planted(rng, n, shape, wk)
        step(edges)
        for _ in range(rng.randint(1, 3)):
            maybe_empty(0.2)
            g = reorder(edges) if rng.random() < 0.7 else list(edges)
            if rng.random() < 0.6:      # equal values, other number types
                def retype(w):
                    for fam in EQUAL_TYPES:
                        if any(w == x and type(w) is type(x) for x in fam):
                            return rng.choice(fam)
                    return float(w) if isinstance(w, int) and abs(w) < 2 ** 53 and rng.random() < 0.5 else w
                g = [(a, b, retype(w)) for a, b, w in g]
            step(g)
    elif kind == 'reuse':
        wk = rng.choice(WKINDS)
        draw = weight_sampler(rng, wk)
        edges = gen_planted(rng, n, shape, wk, draw)
        cur = list(edges)
        step(cur, fn='mwpm', allow_dict=False)
        for _ in range(rng.randint(1, 4)):
            a, b, w = rng.choice(edges)
            if rng.random() < 0.5:
                a, b = b, a
            neww = rng.choice([w + rng.choice([-1000, 1000, -1, 1]), draw(), hash_partner(rng, w) or 0])
            cur = cur + [(a, b, neww)]
            # the SAME graph object, one more add_edge - or the same re-weighting through the dict interface
            step(cur, reuse=1, via=rng.choice(['add_edge', 'add_edge', 'setitem', 'delset']))
            maybe_empty(0.15)
    elif kind == 'one-weight':
        wk = rng.choice(WKINDS)
        draw = weight_sampler(rng, wk)
        edges = gen_planted(rng, n, shape, wk, draw)
        cur = list(edges)
        step(cur)
        for _ in range(rng.randint(1, 4)):
            i = rng.randrange(len(cur)); a, b, w = cur[i]
            cur = list(cur); cur[i] = (a, b, w + rng.choice([-1000, 1000, -1, 1, 0.5]))
            maybe_empty(0.2)
            step(cur if rng.random() < 0.6 else reorder(cur))
    else:
        for _ in range(rng.randint(2, 5)):
            wk = rng.choice(WKINDS)
            step(gen_planted(rng, n, rng.choice(['complete', 'sparse', 'few']), wk))
            maybe_empty(0.4)
    maybe_empty(0.5)
    return kind, steps


def part_history(ctx):
    import sys
    from qecsim import graphtools as gt
    rng = ctx.rng
    if sys.hash_info.modulus != HASH_M:
        ctx.count('history.skipped', 'hash modulus {}'.format(sys.hash_info.modulus))
    for u, v in COLLIDING_PAIRS:
        if not (hash(u) == hash(v) and u != v):
            ctx.count('history.noncolliding_pair', repr((u, v)))
    all_results = []          # every set ever returned stays referenced: object identities are never recycled
    fresh_jobs = []
    n_fresh = ctx.scale(250, 2500)
    stop = False
    for it in range(ctx.scale(320, 3200)):
        if stop:
            break
        n = rng.choice([4, 4, 4, 6, 6, 8])
        nk = rng.choice(['tuple', 'tuple', 'int', 'obj', 'mixed', 'timed', 'fset', 'str'])
        hkind, steps = gen_history(rng, n)
        nodes = make_nodes(rng, n, nk)
        ids = {x: i for i, x in enumerate(nodes)}
        ctx.count('history.kind', hkind); ctx.count('history.calls', len(steps)); ctx.count('history.nodes', nk)
        prev_g, earlier = None, []       # earlier: [set, snapshot]
        for k, st in enumerate(steps):
            g, ops = build_step(st, nodes, prev_g)
            before = list(g.items())
            meta = {'part': 'history', 'steps': steps, 'upto': k, 'nodes': nk, 'n': n, 'history_kind': hkind}
            try:
                with core.TimeLimit(20):
                    r = graph_fn(st['fn'])(g)
            except core.TimeLimit.Expired:
                ctx.monitor_fail('gt.{} did not return within 20 s at call #{} of a history'.format(st['fn'], k + 1),
                                 found_history(steps, nk, n, ('timeout', k, 'timeout')), key='mwpm.timeout')
                break
            except Exception as ex:
                ctx.monitor_fail('gt.{} raised {!r} at call #{} of a history (the graph has a perfect matching)'.format(
                    st['fn'], ex, k + 1), found_history(steps, nk, n, (repr(ex), k, 'exception')), key=None)
                break
            ctx.count('history.fn', st['fn']); ctx.count('history.after', (st.get('after') or ['none'])[0])
            if list(g.items()) != before:
                ctx.monitor_fail('gt.{} modified the graph it was given'.format(st['fn']),
                                 found_history(steps, nk, n, ('graph argument modified', k, '')), key=None)
                stop = True
                break
            cm = canon_mates(r, ids)
            # -- verdict of the verified monitors on this answer
            if not ops:
                impl = 'empty' if isinstance(r, (set, frozenset)) and len(r) == 0 else 'nonempty:' + repr(cm)[:60]
                ctx.case('c13 nxin _', impl, nontrivial=False, meta=meta)
            else:
                lw_items = [((min(p), max(p)), w) for p, w in last_write(ops).items()]
                check_case(ctx, 'history', 'c13 checkops ' + ops_wire(ops), lw_items, cm, n, hist_exact(ops), meta)
            # -- freshness: the caller owns what it gets
            for j, (old, snap) in enumerate(earlier):
                if old != snap:
                    ctx.monitor_fail('a matching returned earlier in the history changed during a later gt.{} call'.format(
                        st['fn']), found_history(steps, nk, n, ('result of call #{} changed'.format(j + 1), k, '')))
                    stop = True
                    break
            if stop:
                break
            if isinstance(r, set) and any(r is old for old in all_results):
                # the very set object handed out before (which its owner may have updated since): show what that means
                # for the property — the caller of the earlier call adds a pair, the same graph is matched again
                bad = py_judge(ops, n, cm)
                demo = list(steps[:k + 1])
                if not bad:
                    demo[k] = dict(st, after=['add', 0, 0])
                    demo.append(dict(st, reuse=0, after=['none']))
                    rr = eval_history(demo[k:], nk, n)     # continue on the current process state
                    bad = rr and 'after the caller added a pair to the set returned by the previous call: ' + rr[0]
                ctx.monitor_fail('gt.{} handed out the very set object it had returned before; {}'.format(
                    st['fn'], bad or 'no wrong answer could be derived'),
                    {'history': demo, 'nodes': nk, 'n': n, 'call': k + 1}, key=None if bad else 'mwpm.result-aliased')
                stop = True
                break
            if nk in ('tuple', 'int') and len(fresh_jobs) < n_fresh and rng.random() < 0.5 and ops and \
                    not isinstance(cm, str):
                lw_items = [((min(p), max(p)), w) for p, w in last_write(ops).items()]
                w = py_weight(lw_items, cm)
                fresh_jobs.append(({'step': dict(st, reuse=0, after=['none']), 'nodes': nk, 'n': n},
                                   w, hist_exact(ops), meta, max([abs(fr(x)) for _, _, x in ops] + [Fraction(0)]) * n))
            apply_after(st, r, nodes, [e[0] for e in earlier])
            if isinstance(r, set):
                earlier.append([r, set(r)])
                all_results.append(r)
            if ops and st['kind'] == 'simple':
                prev_g = g
    # -- the same graphs matched by a process that never matched anything before
    if fresh_jobs:
        answers = fresh_answers([j[0] for j in fresh_jobs])
        for (job, w, exact, meta, scale), ans in zip(fresh_jobs, answers):
            ctx.evaluations += 1
            if ans.get('error') or ans.get('bad') or ans.get('w') is None or w is None:
                ctx.count('history.fresh', 'undecided' if ans.get('error') else 'fresh-bad-or-nonedge')
                continue      # the fresh answer itself is wrong / unusable: the direct monitors report that
            fw = Fraction(ans['w'])
            ok = (fw == w) if exact else abs(fw - w) <= Fraction(REL_TOL) * scale
            ctx.count('history.fresh', 'agree' if ok else 'differ')
            if not ok:
                hist = found_history(meta['steps'], meta['nodes'], meta['n'],
                                     ('returns a matching of weight {} where the same call as the first matching call '
                                      'of a fresh process returns weight {}'.format(w, fw), meta['upto'], ''))
                ctx.monitor_fail(hist.pop('what'), hist, key=None)
                break


# ------------------------------------------------------------------------------------------ entry points

def run(ctx):
    from qecsim.graphtools import blossom5
    ctx.assumptions = [
        'networkx max_weight_matching (Edmonds blossom algorithm, outside /repo) is NOT modelled or proved: its output '
        'is tested against the proved oracle minPM on every generated / captured graph',
        'Blossom V C library (libpypm.so) is absent in this sandbox: blossom5.available() = {} in the harness process, '
        'where only the networkx backend of gt.mwpm runs. The Blossom path of qecsim (gt.mwpm dispatch, gt.mwpm_blossom5, '
        'weight_to_int_fn scaling, blossom5.mwpm / mwpm_ids: node <-> id mapping, ctypes arrays, mates set) is executed in '
        'child processes against a STAND-IN libpypm.so compiled on every run from harness/qv/c13_pypm_standin.c (same C '
        'interface; exact bitmask-DP minimum-weight perfect matching on the ints it receives, 64-bit sums, <= 20 nodes; '
        'infty() = 2**30 and, in a second build, 1000) and loaded through the documented $QECSIM_CFG/clib/libpypm.so. The '
        'stand-in REPLACES Blossom V, which remains outside /repo and unverified: nothing is claimed about Blossom V\'s own '
        'optimality, its int overflow behaviour or its real infty() value; the stand-in itself is trusted only as far as '
        'its answers are re-checked (every answer is judged by the verified Lean oracle / the Python DP)'.format(
            blossom5.available()),
        'the wrapper model of Model/Blossom5.lean (mwpmIds <-> blossom5.mwpm_ids, mwpmObjs <-> blossom5.mwpm, mwpmBlossom5 '
        '<-> gt.mwpm_blossom5, Matching.mwpm <-> the dispatch of gt.mwpm), on which Props/C14/Blossom.lean rests, is tied to '
        'the real wrapper by comparison on every stand-in call (driver ops c13 b5ids / b5objs / b5gt / b5mwpm): its two '
        'parameters are instantiated with what was observed — `nodes` with the list(set(...)) listing rebuilt in the child '
        'from the very edge list handed to blossom5.mwpm (same objects, same insertion sequence, same process), `clib` with '
        'a table look-up of the mates array the stand-in C code dumped — and the id edge arrays / n_nodes at the C boundary '
        '(as dumped by the C code), the assert outcome, the id pairs and the node pairs must be equal. Outside the tie: '
        'ctypes itself (a c_int slot keeps the low 32 bits of a Python int: applied by the harness to the model\'s '
        'weights before comparing with the C-side weights), negative ids / a C answer of -1 (no perfect matching; the model '
        'has natural-number ids, such calls are counted and skipped), and Blossom V\'s own contract (Blossom5.ClibContract)',
        'Blossom path, float or large-int weights: the docstring of weight_to_int_fn promises scaling by s = infty/10/max|w| '
        'and rounding to integers, so optimality on the ORIGINAL weights is claimed only up to (n/2)(1+1e-6)/s; exact when '
        'the documented rule is the identity (all Python ints, max|w| < infty/10) or all weights are zero',
        'weights are compared as exact rationals Fraction(w); when binary64 sums of the weights are not exact the '
        'weight of the real matching may exceed the exact minimum by at most {} * n * max|w|'.format(REL_TOL),
        'node objects are numbered by the harness in insertion order; hashing/equality of tuples and identity-hashed '
        'objects is CPython\'s',
        'weight_to_int_fn: blossom5.infty() patched to a constant; float quotient/product recomputed by the harness',
    ]
    n0 = ctx.evaluations
    part_empty(ctx)
    part_build(ctx)
    n1 = ctx.evaluations
    part_range(ctx)
    part_planted(ctx)
    n2 = ctx.evaluations
    part_decoders(ctx)
    part_exhaustive4(ctx)
    part_history(ctx)
    n3 = ctx.evaluations
    part_w2i(ctx)
    n4 = ctx.evaluations
    from qv import c13_standin
    st = c13_standin.part_standin(ctx)
    if blossom5.available() is not False:
        ctx.count('standin.state', 'harness process sees a library: available() = {}'.format(blossom5.available()))
    ctx.explored = {
        'networkx_edmonds_vs_verified_oracle': {
            'evaluations': (n2 - n1) + (n3 - n2),
            'rule': 'real gt.mwpm output checked by the Lean driver: isPerfectMatching on the real pairs and exact '
                    'weight = minPM (proved optimum); generated graphs with a planted perfect matching '
                    '(2..{} nodes) and graphs captured from the five MWPM decoders (<= {} nodes). Edmonds\' algorithm '
                    'itself is not modelled: optimality is TESTED against the proved oracle, not proved'.format(
                        ctx.scale(ORACLE_MAX_NODES, 16), ORACLE_MAX_NODES),
            'exhaustive': False},
        'all_4_node_graphs_weights_-1_0_2': {
            'evaluations': ctx.extra.get('exhaustive4_graphs', 0),
            'rule': 'every graph on 4 labelled nodes, each of the 6 edges absent or of weight -1/0/2, that admits a '
                    'perfect matching: real gt.mwpm output against the verified checker and oracle',
            'exhaustive': True},
        'decoder_graphs_15_to_20_nodes_python_dp': {
            'evaluations': ctx.extra.get('dp_checked', 0),
            'rule': 'independent (unverified) Python bitmask DP as oracle for captured decoder graphs too large for '
                    'the verified oracle', 'exhaustive': False},
        'blossom_backend_wrapper_on_standin_library': {
            'evaluations': st['evaluations'],
            'rule': ('NOT RUN: no C compiler, the Blossom path is not exercised' if not st['built'] else
                     'real gt.mwpm (dispatch to Blossom), gt.mwpm_blossom5, blossom5.mwpm, blossom5.mwpm_ids in child '
                     'processes on the stand-in libpypm.so (infty 2**30 and 1000): SimpleGraph / dict / edge-list input, '
                     '7 node kinds, small ints, floats, tiny floats, bools, zeros, negatives, all-int graphs mixing tiny '
                     'weights with weights >= infty/10 (multiples of 2**32, C-int limits, the threshold itself), '
                     'parallel edges, empty inputs, call histories (hash-colliding weights, reused graph objects, caller '
                     'mutations), graphs built by the five MWPM decoders; every answer judged by the Python DP (<= 16 '
                     'nodes) and by the Lean driver (<= 14 nodes): perfect matching of minimum ORIGINAL weight within '
                     'the documented rounding allowance, of minimum INTEGER weight as handed to the C library (exact), '
                     'and the handed integer weights = model weight_to_int (w2i); every call that reaches the wrapper is also '
                     'replayed on the wrapper model Model/Blossom5.lean (observed node listing, recorded mates array as '
                     'clib table): C-boundary arrays, n_nodes, assert outcome, id pairs, node pairs, empty shortcut and '
                     'dispatch equal ({} such comparisons in this run). Blossom V itself is replaced, not '
                     'verified'.format(sum(v for k, v in ctx.hist.get('standin.tie', {}).items()
                                           if not str(k).startswith('skipped')))),
            'exhaustive': False},
        'weight_to_int_fn_float_ops': {
            'evaluations': n4 - n3,
            'rule': 'branch + rounding modelled; float quotient and product supplied by the harness',
            'exhaustive': False},
    }
    return ctx.finish(RULE, search=search, explanation=(
        'proved: add_edge invariant, checker spec, minPM optimality, negation/max-cardinality reduction; explored: '
        'networkx\'s blossom algorithm against the proved oracle (see coverage.explored)'))


def eval_property_on_ops(ops, node_kind='obj'):
    """the property itself on the real code for an insertion sequence: returns a description of the failure or None"""
    import random
    n = max([max(a, b) for a, b, _ in ops] + [-1]) + 1
    nodes = make_nodes(random.Random(0), n, node_kind)
    g = real_build(ops, nodes)
    lw = last_write(ops)
    used = sorted({x for p in lw for x in p})
    if len(used) != n or n > DP_MAX_NODES:
        return None, None
    best = py_min_pm(n, lambda i, j: lw.get(frozenset((i, j))) if i != j else None)
    if best is None:
        return None, None   # no perfect matching: outside the property's domain
    try:
        mates = run_mwpm(g)
    except core.TimeLimit.Expired:
        return 'gt.mwpm did not return within 20 s', 'timeout'
    except Exception as ex:
        return 'gt.mwpm raised {!r}'.format(ex), 'exception'
    cm = canon_mates(mates, {x: i for i, x in enumerate(nodes)})
    return py_property(n, lw, cm, all_int=all(type(w) is int for _, _, w in ops)), cm


def parse_ops(meta):
    return [(int(a), int(b), Fraction(w)) for a, b, w in meta['ops']]


def typed_ops(d):
    """the insertion sequence of a recorded input with the Python number types the real code saw (int vs float matters
    to backends that prepare integer and non-integer weights differently): from 'ops_repr' when recorded"""
    import re
    if d.get('ops_repr'):
        return [(int(a), int(b), int(w) if re.fullmatch(r'-?\d+', w) else float(w)) for a, b, w in d['ops_repr']]
    return float_ops([(int(a), int(b), Fraction(w)) for a, b, w in d['ops']])


def float_ops(ops):
    """weights back as the Python numbers the real code would see (ints stay ints, others floats)"""
    return [(a, b, int(w) if w.denominator == 1 else float(w)) for a, b, w in ops]


def found_ops(v, r, node_kind='obj'):
    return {'what': 'gt.mwpm on the graph built by this insertion sequence (node objects: make_nodes(Random(0), n, {!r})): '
                    .format(node_kind) + r[0],
            'nodes': node_kind,
            'ops': [[a, b, str(Fraction(w))] for a, b, w in v],
            'ops_repr': [[a, b, repr(w)] for a, b, w in v],
            'returned': r[1] if isinstance(r[1], str) else mates_wire(r[1]),
            'recipe': 'g = gt.SimpleGraph(); g.add_edge(n[a], n[b], w) for each op in order; gt.mwpm(g)'}


_STD = {}


def search_std():
    """a fixed family of small graphs (4..8 nodes, every weight law incl. the huge-dynamic-range ones) on which the
    property is evaluated when the recorded input and its near variants do not fail; evaluated once per run"""
    if 'r' not in _STD:
        import random
        rng = random.Random(20240613)
        _STD['r'] = None
        for it in range(600):
            wk = (RANGE_KINDS + WKINDS)[it % (len(RANGE_KINDS) + len(WKINDS))]
            n = rng.choice([4, 4, 6, 8])
            draw = weight_sampler(rng, wk)
            edges = gen_planted(rng, n, rng.choice(['complete', 'complete', 'sparse', 'few']), wk, draw)
            ops = [(a, b, w) for a, b, w in edges]
            nk = NODE_KINDS[it % len(NODE_KINDS)]
            r = eval_property_on_ops(ops, nk)
            if r and r[0]:
                _STD['r'] = found_ops(ops, r, nk)
                break
    return _STD['r']


def search(m):
    meta = m.get('meta') or {}
    part = meta.get('part')
    if part in ('planted', 'range', 'nxin', 'build') and 'ops' in meta:
        ops = typed_ops(meta)
        variants = [ops]
        # near variants: re-write every pair stored in both orientations (or at all) with a weight that moves the optimum
        pairs = []
        for a, b, _ in ops:
            if (a, b) not in pairs:
                pairs.append((a, b))
        for a, b in pairs[:12]:
            for w in (-1000, 1000):
                variants.append(ops + [(a, b, w)])
                variants.append(ops + [(b, a, 1), (a, b, w)])
        # dynamic-range variants: one pair re-written with a penalty of 1e10 / 1.5e12 (float or int), all other weights
        # as recorded (a break in the weight preparation shows when the recorded weights are tiny next to it)
        for a, b in pairs[:12]:
            for w in (1e10, 1.5e12, 10 ** 12, -1e10):
                variants.append(ops + [(a, b, w)])
        if part == 'build':
            # complete the touched nodes to a graph with a perfect matching so that the property applies
            n = max([max(a, b) for a, b, _ in ops] + [0]) + 1
            n += n % 2
            filler = [(i, j, 10) for i, j in itertools.combinations(range(n), 2)]
            variants = [filler + v for v in variants] + [filler + v + [(a, b, w)] for v in variants[:1]
                                                         for a, b in pairs[:12] for w in (-1000, 1000)]
        nk = meta.get('nodes', 'obj')
        for v in variants:
            for kind in ([nk] if nk == 'obj' else [nk, 'obj']):
                r = eval_property_on_ops(v, kind)
                if r and r[0]:
                    return found_ops(v, r, kind)
        return search_std()
    if part == 'decoder':
        f = dict(x.split('=') for x in m['model'].split(' ') if '=' in x)
        if f.get('pm') == '0' or f.get('opt') == '0':
            return {'what': 'gt.mwpm on a graph built by {}: result {} (verified checker: pm={}, weight {}, '
                            'minimum {})'.format(meta.get('decoder'), m['op'].split(' ')[-1], f.get('pm'), f.get('w'),
                                                 f.get('min')),
                    'graph': meta.get('graph'), 'returned': m['op'].split(' ')[-1]}
    if part == 'history':
        r = eval_history(meta['steps'][:meta['upto'] + 1], meta['nodes'], meta['n'])
        if r:
            return found_history(meta['steps'], meta['nodes'], meta['n'], r)
        return None
    if part == 'empty':
        return {'what': 'empty graph: gt.mwpm result is ' + m['impl'], 'graph': '{}'}
    if part == 'standin':
        from qv import c13_standin
        return c13_standin.search(m)
    if part == 'w2i':
        return search_w2i(meta)
    return None


def search_w2i(meta):
    """a weight_to_int_fn break (part e, infty patched): the property itself is evaluated on the Blossom path with the
    stand-in library, on graphs that carry the recorded weights (cycled over a complete graph) and near variants"""
    from qv import c13_standin
    try:
        ws = [parse_w(w) for w in meta.get('weights') or []]
    except ValueError:
        return None
    if not ws:
        return None
    out = None
    for inf in c13_standin.INFTYS:
        inputs = []
        for n in (4, 6):
            pairs = list(itertools.combinations(range(n), 2))
            for shift in (0, 1, 2):
                ops = [[a, b, repr(ws[(i + shift) % len(ws)])] for i, (a, b) in enumerate(pairs)]
                for fn in ('mwpm_blossom5', 'mwpm'):
                    inputs.append({'standin': inf, 'fn': fn, 'kind': 'simple', 'ops_repr': ops, 'nodes': 'tuple',
                                   'node_seed': 0, 'n': n})
        inputs += [v for i in inputs[:6] for v in c13_standin.amplify(i)]
        out = c13_standin.eval_inputs(inf, inputs, std=400)
        if out:
            break
    return out


def replay(ctx, path):
    body = json.load(open(path)); bad = 0
    for v in body.get('violations', []):
        ce = v.get('counterexample') or {}
        inp = ce.get('input') if 'input' in ce else ce
        if isinstance(inp, dict) and 'standin' in inp:
            from qv import c13_standin
            bad += c13_standin.replay_input(inp)
        elif isinstance(inp, dict) and inp.get('history'):
            r = eval_history(inp['history'], inp.get('nodes', 'tuple'), int(inp.get('n', 4)))
            print('replay history ->', r)
            bad += bool(r)
        elif isinstance(inp, dict) and inp.get('ops'):
            ops = typed_ops(inp)
            r = eval_property_on_ops(ops, inp.get('nodes', 'obj'))
            print('replay ops ->', r)
            if r and r[0]:
                bad += 1
            else:   # SimpleGraph clause
                g = real_build(ops, list(range(max([max(a, b) for a, b, _ in ops] + [0]) + 1)))
                stored = {}
                dup = False
                for (a, b), w in g.items():
                    dup |= frozenset((a, b)) in stored
                    stored[frozenset((a, b))] = Fraction(w)
                if dup or stored != last_write(ops):
                    print('replay: SimpleGraph contents violate the add_edge clause'); bad += 1
        elif isinstance(inp, dict) and inp.get('graph') == '{}':
            from qecsim import graphtools as gt
            r = gt.mwpm(gt.SimpleGraph())
            if not (isinstance(r, (set, frozenset)) and not r):
                bad += 1
        elif isinstance(inp, dict) and inp.get('graph'):
            from qecsim import graphtools as gt
            g = gt.SimpleGraph()
            wd = {}
            for e in inp['graph'].split(';'):
                a, b, w = e.split(',')
                w = Fraction(w)
                g[(int(a), int(b))] = int(w) if w.denominator == 1 else float(w)
                wd[frozenset((int(a), int(b)))] = w
            n = max(max(p) for p in wd) + 1
            cm = canon_mates(run_mwpm(g), {i: i for i in range(n)})
            r = py_property(n, wd, cm, all_int=all(w.denominator == 1 for w in wd.values()))
            print('replay graph ->', r)
            bad += bool(r)
        mm = v.get('first_mismatch')
        if mm and not ce:
            r = search(mm); print('replay', mm['op'][:120], '->', r); bad += bool(r)
    return 1 if bad else 0   # core.do_replay prints the VIOLATION line
