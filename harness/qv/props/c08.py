"""C08 — the advertised distance d in n_k_d is the code's true minimum distance.

What is a THEOREM (Props/C08.lean, about the Lean models / about arbitrary matrices):
  * the spec `IsDistance`, the CSS split (`css_split`), soundness + completeness of the executable searches
    (`search_sound`, `search_any_sound`, `no_light_logical_of_search`), certificate soundness against the TRUE
    notion "not a product of stabilizers" (`cert_not_in_span`), the closed-form weights of every supplied logical
    for all sizes of all five families (`logical_weights_*`), `distance_attained_*` (from C07's commutation facts,
    taken as hypotheses), `distance_basic` and the kernel-evaluated small sizes (`distance_small_bounded`).
What is EXPLORED (this module), with the Lean-verified search as oracle plus an independent numpy search:
  * the lower bound "no non-trivial logical lighter than d" for every code size whose search space fits the
    budget (exhaustive per size: recorded in coverage.explored), on the REAL matrices `code.stabilizers`,
    `code.logicals`. The all-sizes lower bound is now a THEOREM for the planar, toric, rotated-planar and rotated-toric
    families and for the colour 6.6.6 family (`distance_lower_*`, `*_isDistance` in Props/C08.lean, Props/C08/Color666.lean).
Tie between model and code: (1) the `d` of `n_k_d` equals the model's `nkd` d for every size up to the bound
(rectangles, 2xN strips, all parities); (2) the verified search runs on the real matrices: it must find nothing of
weight < d, must confirm by certificate that the code's own lightest logical has weight exactly d, and (small sizes)
must compute distance exactly d.  The logical rows handed to the search are `code.logicals` PLUS a basis of
N(S)/span(S) computed from the stabilizers alone (each row checked by Lean to commute with S), so that an operator
that is non-trivial in the property's own sense cannot hide behind wrong or missing supplied logicals.
Interpreter mode is an input too (qv/optmode.py): every family / size up to the bound is also constructed in a child
`python -O` (thorough: and `-OO`) bound to the same repo; n_k_d and the matrices must equal the in-process ones, and (b),
(c) plus the independent exact distance are evaluated on the -O matrices of the small sizes."""
import json
import math
import time

from qv import c08_hist
from qv import c08_search as cs
from qv import optmode
from qv.core import bits, mat

LEVEL = 'proof'

RULE = ('per code size: (a) n_k_d.d == model d for all sizes up to the bound (all rectangles, strips, parities); '
        '(b) Lean-verified CSS-split (five-qubit: all-Pauli) exhaustive search on the real stabilizers/logicals '
        '(+ stabilizer-derived basis of N(S)/S) finds no operator of weight < d; (c) the lightest supplied logical '
        'passes the Lean certificate with weight exactly d; (d) small sizes: verified least logical weight == d; '
        '(e) independent numpy search (true notion: in N(S) and not in span S) on the same and larger sizes; '
        '(f) the same codes constructed under `python -O` (child interpreter): n_k_d / matrices identical to normal mode, '
        '(b),(c) and the exact distance on the -O matrices of the small sizes; '
        '(g) code OBJECTS under argument types and histories (qv/c08_hist.py): sizes given as numpy int8/uint8/int16/uint16 '
        'at the overflow thresholds of each type (typed / plain object first, caches shared or cleared), the caller '
        'editing in place arrays returned by paulitools / Pauli views / generate before and after the first use of a '
        'code, user subclasses (trivial, XZ-swapped, stabilizer-multiplied, punctured variant) of the same size before '
        'and after the genuine code: afterwards the distance facts are re-evaluated on a new object, each history in its '
        'own forked process. '
        'non-trivial = every case that involves the real matrices (b-d); (a) counts as trivial')

FAMS = ('planar', 'toric', 'rotatedplanar', 'rotatedtoric', 'color666', 'five', 'steane')


def make_code(fam, args):
    if fam == 'planar':
        from qecsim.models.planar import PlanarCode
        return PlanarCode(*args)
    if fam == 'toric':
        from qecsim.models.toric import ToricCode
        return ToricCode(*args)
    if fam == 'rotatedplanar':
        from qecsim.models.rotatedplanar import RotatedPlanarCode
        return RotatedPlanarCode(*args)
    if fam == 'rotatedtoric':
        from qecsim.models.rotatedtoric import RotatedToricCode
        return RotatedToricCode(*args)
    if fam == 'color666':
        from qecsim.models.color import Color666Code
        return Color666Code(*args)
    if fam == 'five':
        from qecsim.models.basic import FiveQubitCode
        return FiveQubitCode()
    if fam == 'steane':
        from qecsim.models.basic import SteaneCode
        return SteaneCode()
    raise ValueError(fam)


def all_sizes(tier):
    q = tier == 'quick'
    b = 9 if q else 14
    out = []
    for fam in ('planar', 'toric'):
        out += [(fam, (r, c)) for r in range(2, b + 1) for c in range(2, b + 1)]
    out += [('rotatedplanar', (r, c)) for r in range(3, b + 2) for c in range(3, b + 2)]
    bt = 12 if q else 20
    out += [('rotatedtoric', (r, c)) for r in range(2, bt + 1, 2) for c in range(2, bt + 1, 2)]
    out += [('color666', (s,)) for s in range(3, (15 if q else 25) + 1, 2)]
    out += [('five', ()), ('steane', ())]
    return out


def tag(fam, args):
    return fam + ' ' + 'x'.join(str(a) for a in args) if args else fam


def matrices(code):
    import numpy as np
    S = [[int(x) for x in r] for r in np.atleast_2d(code.stabilizers)]
    L = [[int(x) for x in r] for r in np.atleast_2d(code.logicals)]
    return S, L


def independent_distance(fam, args, upto, budget):
    """true distance of the REAL code by the independent search, using the stabilizers only:
    returns (w, operator bits) with w <= upto, (None, None) if no non-trivial logical of weight <= upto exists,
    or raises MemoryError when the space exceeds the budget"""
    code = make_code(fam, args)
    n = int(code.n_k_d[0])
    S, _ = matrices(code)
    Si = [cs.to_int(r) for r in S]
    css = fam != 'five'
    if cs.count_ops(n, upto + 1, css) > budget:
        raise MemoryError('budget')
    Lq = cs.normaliser_quotient(Si, n, css=css)
    for w in range(1, upto + 2):
        e, _ = (cs.py_search_css if css else cs.py_search_any)(Si, Lq, n, w)
        if e is not None:
            assert cs.is_nontrivial_logical(Si, e, n) and cs.wt(e, n) == w - 1
            return w - 1, bits(cs.from_int(e, 2 * n))
    return None, None


def counterexample_for(fam, args, budget=3 * 10 ** 7):
    """evaluate the PROPERTY on the real code: d reported vs the true minimum weight. dict or None"""
    code = make_code(fam, args)
    n, k, d = (int(x) if x is not None else None for x in code.n_k_d)
    if d is None:
        return None
    try:
        w, e = independent_distance(fam, args, d, budget)
    except MemoryError:
        return None
    if w is not None and w == d:
        return None
    return {'code': tag(fam, args), 'family': fam, 'args': list(args), 'n_k_d': [n, k, d],
            'true_min_weight': w if w is not None else '> {}'.format(d),
            'operator': e,
            'what': ('operator of weight {} < d = {} commutes with all stabilizers and is not a product of '
                     'stabilizers'.format(w, d)) if w is not None else
                    'no operator of weight <= d = {} is a non-trivial logical (exhaustive): d is not attained'.format(d)}


def run(ctx):
    import numpy as np
    quick = ctx.quick()
    lean_cap = 1.5 * 10 ** 6 if quick else 3.5 * 10 ** 7      # operators per code, verified search
    lean_total = 8 * 10 ** 6 if quick else 1.7 * 10 ** 8
    dist_cap = 3 * 10 ** 5 if quick else 5 * 10 ** 6            # 2*C(n,d) for the exact-distance op
    py_cap = 4 * 10 ** 8 if quick else 2 * 10 ** 9            # independent search per code
    py_total = 2.5 * 10 ** 9 if quick else 1.2 * 10 ** 10
    sizes = all_sizes(ctx.tier)
    explored = {'lean_search': {}, 'py_search': {}}
    # (a) formula tie
    cand = []
    for fam, args in sizes:
        code = make_code(fam, args)
        n, k, d = code.n_k_d
        ctx.case('c08 d {} {}'.format(fam, ' '.join(str(a) for a in args)).strip(), str(d), nontrivial=False,
                 meta={'fam': fam, 'args': list(args), 'kind': 'formula'})
        ctx.count('formula_family', fam)
        css = fam != 'five'
        cand.append((cs.count_ops(int(n), int(d), css), fam, args))
    # squares / near-squares (and colour, basic codes) first: they carry the largest d per qubit; then by size
    def prio(t):
        a = t[2]
        return 0 if len(a) < 2 or abs(a[0] - a[1]) <= 1 else 1
    cand.sort(key=lambda t: (prio(t), t[0], t[1], t[2]))
    # (b)-(e) on the real matrices
    spent_lean = spent_py = 0
    n_lean = n_py = 0
    for cnt, fam, args in cand:
        do_lean = cnt <= lean_cap and spent_lean + cnt <= lean_total
        do_py = cnt <= py_cap and spent_py + cnt <= py_total
        if not (do_lean or do_py):
            continue
        code = make_code(fam, args)
        n, k, d = (int(x) for x in code.n_k_d)
        S, L = matrices(code)
        css = fam != 'five'
        Si = [cs.to_int(r) for r in S]
        Li = [cs.to_int(r) for r in L]
        t = tag(fam, args)
        meta = {'fam': fam, 'args': list(args), 'tag': t}
        # stabilizer-derived logical basis (independent of code.logicals)
        Lq = cs.normaliser_quotient(Si, n, css=css)
        Lall = L + [cs.from_int(v, 2 * n) for v in Lq if v not in Li]
        sS, sL, sLall = mat(S), mat(L), mat(Lall)
        # lightest supplied logical
        wts = [cs.wt(v, n) for v in Li]
        lightest = L[wts.index(min(wts))]
        if min(wts) < d:
            ctx.monitor_fail('a supplied logical operator is lighter than the advertised d',
                             {'code': t, 'family': fam, 'args': list(args), 'n_k_d': [n, k, d],
                              'operator': bits(lightest), 'true_min_weight': min(wts)}, key='C08:supplied-lighter:' + fam)
        if do_lean:
            spent_lean += cnt
            n_lean += 1
            if css:
                ctx.case('c08 css {} {} {}'.format(n, sS, sLall), '1', meta=dict(meta, kind='css'))
            ctx.case('c08 innorm {} {}'.format(sS, sLall), '1', meta=dict(meta, kind='innorm'))
            op = 'search' if css else 'searchany'
            ctx.case('c08 {} {} {} {} {}'.format(op, n, sS, sLall, d), 'none', meta=dict(meta, kind='search'))
            # the lightest supplied logical is a non-trivial logical (Lean certificate) of the weight Python computed;
            # the basic codes supply heavier-than-d logicals (XXXXX, XXXXXXX): attainment then rests on (d)/(e)
            ctx.case('c08 cert {} {} {}'.format(sS, sL, bits(lightest)), '1 {}'.format(max(min(wts), d)),
                     meta=dict(meta, kind='cert'))
            exact = 2 * math.comb(n, d) * (1 if css else 3 ** d) <= dist_cap
            if exact:
                ctx.case('c08 {} {} {} {} {}'.format('dist' if css else 'distany', n, sS, sL, d), str(d),
                         meta=dict(meta, kind='dist'))
            explored['lean_search'][t] = {'operators': cnt, 'd': d, 'exhaustive': True, 'exact_distance': bool(exact)}
            ctx.count('lean_search_family', fam)
            ctx.count('lean_search_d', d)
        if do_py:
            t0 = time.time()
            try:
                e, ev = (cs.py_search_css if css else cs.py_search_any)(Si, Lq, n, d)
            except MemoryError:
                continue
            spent_py += cnt
            n_py += 1
            explored['py_search'][t] = {'operators': ev, 'd': d, 'exhaustive': True, 's': round(time.time() - t0, 2)}
            ctx.count('py_search_family', fam)
            if e is not None:
                ebits = bits(cs.from_int(e, 2 * n))
                # certificate checked by the Lean driver, and the true notion by GF(2) rank
                cert = ctx.driver.ask(['c08 cert {} {} {}'.format(sS, sLall, ebits)])[0]
                if cs.is_nontrivial_logical(Si, e, n):
                    ctx.monitor_fail('operator lighter than d commutes with all stabilizers and is not a product of '
                                     'stabilizers',
                                     {'code': t, 'family': fam, 'args': list(args), 'n_k_d': [n, k, d],
                                      'operator': ebits, 'true_min_weight': cs.wt(e, n), 'lean_cert': cert},
                                     key='C08:light-logical:' + fam)
            if not any(cs.is_nontrivial_logical(Si, v, n) for v in Li if cs.wt(v, n) == d):
                # d must be attained; the supplied logicals are the natural witnesses
                ce = counterexample_for(fam, args, budget=py_cap)
                if ce:
                    ctx.monitor_fail(ce['what'], ce, key='C08:not-attained:' + fam)
    ctx.extra['codes_formula'] = len(sizes)
    ctx.extra['codes_lean_search'] = n_lean
    ctx.extra['codes_py_search'] = n_py
    optmode.probe(ctx, 'C08')  # (f): fills ctx.explored['optimised_mode']
    c08_hist.probe(ctx)        # (g): argument types at overflow sizes, caller mutations, user subclasses
    ctx.explored.update({
        'lower_bound_lean_search': {
            'evaluations': int(spent_lean), 'exhaustive': True, 'codes': explored['lean_search'],
            'rule': 'operators of weight < d enumerated by the verified search (X-only + Z-only subsets; five-qubit: '
                    'all Paulis) on the real matrices; exhaustive per listed code size'},
        'lower_bound_independent_search': {
            'evaluations': int(spent_py), 'exhaustive': True, 'codes': explored['py_search'],
            'rule': 'numpy level-by-level search, logicals = basis of N(S)/span S computed from the stabilizers only'},
    })
    ctx.assumptions = ['for CSS codes the minimum is attained on an X-only or Z-only operator: theorem css_split '
                       '(hypothesis isCSS checked by the driver on the real matrices)',
                       'sizes beyond the search budget: only the formula tie and the all-sizes theorems '
                       '(weights, attainment; lower bound for all five families) apply',
                       'normaliser completeness (anticommutes with some logical <=> not in span S) is a theorem for every '
                       'ValidCode (Lemmas/Normaliser.lean); the harness additionally derives the logical basis from the '
                       'stabilizers so that wrong supplied logicals cannot hide a light operator']
    return ctx.finish(RULE, search=search,
                      explanation='IsDistance with d = n_k_d[2] is a theorem for all sizes of all five lattice families and for '
                                  'the basic codes; the Lean-verified search on the real matrices ties the model to the code')


def search(m):
    meta = m.get('meta') or {}
    fam, args = meta.get('fam'), tuple(meta.get('args') or ())
    if fam is None:
        return None
    if meta.get('optmode'):
        return optmode.counterexample('C08', meta)
    kind = meta.get('kind')
    if kind in ('css', 'innorm'):
        return None
    ce = counterexample_for(fam, args, budget=2 * 10 ** 9 if kind == 'formula' else 10 ** 8)
    if ce:
        return ce
    if kind == 'formula':
        # the formula changed but this size still has the right d: look at the other sizes of the family
        for f2, a2 in all_sizes('quick'):
            if f2 == fam and a2 != args:
                try:
                    c = make_code(f2, a2)
                except Exception:
                    continue
                if cs.count_ops(int(c.n_k_d[0]), int(c.n_k_d[2]) + 1) <= 2 * 10 ** 6:
                    ce = counterexample_for(f2, a2, budget=2 * 10 ** 6)
                    if ce:
                        return ce
    return None


def replay(ctx, path):
    body = json.load(open(path))
    rc = 0
    for v in body.get('violations', []):
        ce = v.get('counterexample') or {}
        ce = ce.get('input', ce)
        fam, args = ce.get('family'), tuple(ce.get('args') or ())
        if fam is None:
            continue
        if ce.get('optmode'):
            rc = 1 if optmode.recheck('C08', ce) else rc
            continue
        if ce.get('history_kind'):
            rc = 1 if c08_hist.recheck(ce) else rc
            continue
        code = make_code(fam, args)
        n, k, d = (int(x) for x in code.n_k_d)
        S, _ = matrices(code)
        Si = [cs.to_int(r) for r in S]
        e = ce.get('operator')
        if e:
            ei = cs.to_int([int(c) for c in e])
            if len(e) == 2 * n and cs.wt(ei, n) < d and cs.is_nontrivial_logical(Si, ei, n):
                print('operator {} of weight {} < d = {} is a non-trivial logical of {}'.format(e, cs.wt(ei, n), d,
                                                                                               tag(fam, args)))
                rc = 1
                continue
        now = counterexample_for(fam, args)
        if now:
            print(json.dumps(now))
            rc = 1
    return rc   # core.do_replay prints the VIOLATION line
