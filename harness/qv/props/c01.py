"""C01 — a run's verdict is exactly what the generated error and decoding imply
   (qecsim.app.run_once / run_once_ftp against Model/RunOnce.lean)"""
import json
import math
from fractions import Fraction

import numpy as np

from qv import gens
from qv.core import bits, mat, ilist, rat

RULE = ('scripted error model + scripted rng + recording decoder drive the real run_once/run_once_ftp; codes = '
        'library codes, random valid codes and arbitrary matrices; T in 1..6; q in {0,0.3,1,None}; all 16 override '
        'subsets of DecodeResult plus bare/None answers, valid and code-space-leaving recoveries, random '
        'logical_commutations/custom vectors; compared exactly: decoder arguments (syndrome, error, step measurement '
        'errors, rng.choice calls) and the returned dict, every field rendered shape-tolerantly (None / non-vector / '
        'non-int / missing key are outcomes, not harness errors) with key-set and evaluated-lc shape flags; recovered '
        'state in / outside the code space x (success, lc) unspecified counted; plus the argument validators over a '
        'value grid. '
        'non-trivial = some step error or flip is non-zero')


def make_env():
    from qecsim.model import ErrorModel, Decoder, DecoderFTP

    class ScriptEM(ErrorModel):
        def __init__(self, errors):
            self.errors = [np.array(e, dtype=int) for e in errors]; self.i = 0; self.calls = []

        def generate(self, code, probability, rng=None):
            e = self.errors[self.i]; self.i += 1; self.calls.append(probability); return e

        @property
        def label(self):
            return 'script'

    class ScriptRng:
        def __init__(self, flips):
            self.flips = [np.array(f, dtype=int) for f in flips]; self.i = 0; self.calls = []

        def choice(self, a, size=None, p=None, **kw):
            self.calls.append((tuple(a), size, tuple(p)))
            f = self.flips[self.i]; self.i += 1; return f

        def __getattr__(self, name):  # anything else the code asks of the rng is recorded as foreign use
            raise AttributeError('unexpected rng use: ' + name)

    class RecDecoder(Decoder, DecoderFTP):
        def __init__(self, answer):
            self.answer = answer; self.seen = []

        def decode(self, code, syndrome, **kw):
            self.seen.append(('ideal', None, syndrome, kw)); return self.answer

        def decode_ftp(self, code, time_steps, syndrome, **kw):
            self.seen.append(('ftp', time_steps, syndrome, kw)); return self.answer

        @property
        def label(self):
            return 'rec'
    return ScriptEM, ScriptRng, RecDecoder


def answer_wire(kind, su, lc, rec, cv):
    if kind == 'none':
        return 'none'
    if kind == 'bare':
        return 'bare:' + bits(rec)
    f = lambda v: 'N' if v is None else ilist(v)  # noqa: E731
    return 'res:{}:{}:{}:{}'.format('N' if su is None else int(su), f(lc), 'N' if rec is None else bits(rec), f(cv))


def run(ctx):
    from qecsim import app
    from qecsim.error import QecsimError
    from qecsim.model import DecodeResult
    from qecsim.models.basic import FiveQubitCode, SteaneCode
    from qecsim.models.planar import PlanarCode
    from qecsim.models.rotatedtoric import RotatedToricCode
    ScriptEM, ScriptRng, RecDecoder = make_env()
    rng = ctx.rng
    lib = [FiveQubitCode(), SteaneCode(), PlanarCode(2, 2), PlanarCode(2, 3), RotatedToricCode(2, 2)]

    def pick_code():
        r = rng.random()
        if r < 0.3:
            c = rng.choice(lib); return c, 'lib'
        if r < 0.7:
            k = rng.choice([1, 2]); n = rng.randint(k + 1, 6)
            S, Lx, Lz = gens.random_valid_code(rng, n, k)
            return gens.MatCode(S, Lx, Lz), 'valid'
        n = rng.randint(1, 4); k = rng.randint(1, 2)
        return gens.MatCode([gens.rand_bits(rng, 2 * n) for _ in range(rng.randint(1, 4))],
                            [gens.rand_bits(rng, 2 * n) for _ in range(k)],
                            [gens.rand_bits(rng, 2 * n) for _ in range(k)]), 'arbitrary'

    for it in range(ctx.scale(3000, 60000)):
        code, ckind = pick_code()
        S = code.stabilizers; L = code.logicals
        n = S.shape[1] // 2; m = S.shape[0]
        mode = rng.choice(['ideal', 'ftp', 'ftp'])
        T = 1 if mode == 'ideal' else rng.choice([1, 1, 2, 3, 4, 5, 6])
        dens = rng.choice([0.0, 0.1, 0.3, 0.5])
        es = [gens.rand_bits(rng, 2 * n, dens) for _ in range(T)]
        q = None
        if mode == 'ftp':
            q = rng.choice([0, 0.0, 0.3, 1, 1.0, None])
        p = rng.choice([0.0, 0.1, 0.5, 1.0, 0, 1])
        qeff = 0.0 if mode == 'ideal' else ((0.0 if T == 1 else p) if q is None else q)
        ms = [gens.rand_bits(rng, m, rng.choice([0.0, 0.2, 0.5, 1.0])) for _ in range(T)]
        # decoder answer
        total = np.bitwise_xor.reduce(np.array(es, dtype=int))
        akind = rng.choice(['bare', 'bare', 'res', 'res', 'res', 'none'])
        su = lc = rec = cv = None
        if akind in ('bare', 'res'):
            # recovery: exact (success), a valid but logically wrong one, or arbitrary (may leave the code space)
            r = rng.random()
            if r < 0.35:
                rec = total.copy()
            elif r < 0.6:
                rec = total ^ np.array(rng.choice(L.tolist()), dtype=int)
            elif r < 0.75 and m:
                rec = total ^ np.array(rng.choice(S.tolist()), dtype=int)
            else:
                rec = np.array(gens.rand_bits(rng, 2 * n), dtype=int)
        if akind == 'res':
            if rng.random() < 0.5: su = rng.choice([True, False])
            if rng.random() < 0.5: lc = np.array([rng.randint(-2, 3) for _ in range(rng.randint(0, 3))])
            if rng.random() < 0.3: rec = None
            if rng.random() < 0.5: cv = np.array([rng.randint(-5, 9) for _ in range(rng.randint(0, 3))])
            if su is None and rec is None:
                su = rng.choice([True, False])
            answer = DecodeResult(success=su, logical_commutations=lc, recovery=rec, custom_values=cv)
        elif akind == 'bare':
            answer = rec
        else:
            answer = None
        em, srng, dec = ScriptEM(es), ScriptRng(ms), RecDecoder(answer)
        try:
            if mode == 'ideal':
                out = app.run_once(code, em, dec, p, srng)
            else:
                out = app.run_once_ftp(code, T, em, dec, p, q, srng)
            err = None
        except QecsimError:
            out = None; err = 'QecsimError'
        except Exception as ex:
            out = None; err = type(ex).__name__
        flags = []
        if len(dec.seen) != 1:
            impl = 'decoder-calls={}'.format(len(dec.seen))
        else:
            dmode, dT, syn, kw = dec.seen[0]
            syn2 = np.atleast_2d(syn)
            if (mode == 'ideal') != (np.ndim(syn) == 1):
                flags.append('BADNDIM')
            if mode == 'ftp' and dT != T:
                flags.append('BADT')
            if not np.array_equal(kw.get('error'), total):
                flags.append('BADCTXERROR')
            if len(kw.get('step_errors', [])) != T or any(
                    not np.array_equal(a, b) for a, b in zip(kw.get('step_errors', []), es)):
                flags.append('BADSTEPERRORS')
            if kw.get('error_probability') != p or kw.get('error_model') is not em:
                flags.append('BADCTX')
            mq = kw.get('measurement_error_probability')
            if mq != qeff:
                flags.append('BADQ:{}'.format(mq))
            for (a, size, pp) in srng.calls:
                if a != (0, 1) or pp != (1 - qeff, qeff) or size != (m,):
                    flags.append('BADCHOICE')
            if any(c != p for c in em.calls) or len(em.calls) != T:
                flags.append('BADGENERATE')
            if out is not None:
                # the returned dict is rendered field by field; a field of an unexpected shape (None where a vector is
                # due, a non-bool verdict, a scalar, ...) is rendered as such instead of breaking the comparison
                o = '{}:{}:{}:{}'.format(
                    _fint(_get(out, 'error_weight')),
                    int(_get(out, 'success')) if isinstance(_get(out, 'success'), bool) else 'notbool',
                    _fvec(_get(out, 'logical_commutations')), _fvec(_get(out, 'custom_values')))
                if not isinstance(out, dict) or set(out) != {'error_weight', 'success', 'logical_commutations',
                                                             'custom_values'}:
                    flags.append('BADKEYS')
                # pass-through must be identity, not a copy with other content
                if akind == 'res':
                    if lc is not None and _get(out, 'logical_commutations') is not lc: flags.append('LCNOTPASSED')
                    if _get(out, 'custom_values') is not cv: flags.append('CVNOTPASSED')
                # values evaluated by the run (not supplied) have the documented shape: one entry per logical
                if akind in ('bare', 'res') and rec is not None and lc is None:
                    v = _get(out, 'logical_commutations')
                    if not isinstance(v, np.ndarray) or v.shape != (len(L),):
                        flags.append('BADLCSHAPE')
            else:
                o = err
            impl = 'syn={} err={} meas={} calls={} out={}'.format(
                _safe(mat, syn2), _safe(bits, kw.get('error', [])), _safe(mat, kw.get('step_measurement_errors', [])),
                len(srng.calls), o)
        if flags:
            impl += ' ' + ','.join(flags)
        line = 'c01 run {} {} {} {} {} {} {}'.format(
            n, mat(S), mat(L), mat(es), mat(ms), int(bool(qeff)), answer_wire(akind, su, lc, rec, cv))
        nt = bool(np.any(es)) or (bool(qeff) and bool(np.any(ms)))
        ctx.case(line, impl, nontrivial=nt,
                 meta={'mode': mode, 'T': T, 'p': p, 'q': q, 'akind': akind})
        ctx.count('mode', mode); ctx.count('T', T); ctx.count('q', q); ctx.count('answer', akind)
        ctx.count('code', ckind)
        if akind == 'res':
            ctx.count('override', '{}{}{}{}'.format(*(int(x is not None) for x in (su, lc, rec, cv))))
        # direct monitor: the verdict recomputed from first principles (independent of the Lean model)
        if out is not None and akind in ('bare', 'res') and rec is not None:
            recovered = rec ^ total
            cs = not np.any(_bsp(recovered, S)); lcs = _bsp(recovered, L)
            exp_s = (cs and not np.any(lcs)) if su is None else su
            exp_lc = lcs if lc is None else lc
            got_lc = _get(out, 'logical_commutations')
            if _get(out, 'success') is not bool(exp_s) or _fvec(got_lc) != _fvec(exp_lc):
                ctx.monitor_fail('verdict differs from what error and recovery imply',
                                 {'line': line, 'impl': impl, 'expected_success': bool(exp_s),
                                  'expected_lc': [int(x) for x in exp_lc]})
            ctx.count('recovered', 'in-code-space' if cs else 'outside-code-space')
            if not cs:
                ctx.count('outside-code-space unspecified', '{}{}'.format(int(su is None), int(lc is None)))
    # ---- validators: rejected before anything is simulated
    code = FiveQubitCode()
    grid_p = [-1, -0.1, -1e-300, 0, 0.0, 0.25, 1, 1.0, 1.0000001, 2, float('inf'), float('nan')]
    grid_q = [None] + grid_p
    grid_T = [-3, -1, 0, 1, 2, 3]
    for T in grid_T:
        for p in grid_p:
            for q in (grid_q if not ctx.quick() or rng.random() < 0.5 else [None, 0.0, 1.5]):
                for fn in ('once', 'run'):
                    em, srng, dec = ScriptEM([np.zeros(10, dtype=int)] * 8), ScriptRng([np.zeros(4, dtype=int)] * 8), \
                        RecDecoder(np.zeros(10, dtype=int))
                    try:
                        if fn == 'once':
                            app.run_once_ftp(code, T, em, dec, p, q, srng)
                        else:
                            app.run_ftp(code, T, em, dec, p, q, max_runs=1)
                        mq = dec.seen[0][3]['measurement_error_probability']
                        impl = 'ok q=' + rat(Fraction(mq))
                    except ValueError as ex:
                        msg = str(ex)
                        impl = 'ValueError:' + ('timesteps' if 'Time steps' in msg else
                                                'q' if 'Measurement' in msg else 'p' if 'Error probability' in msg
                                                else '?')
                        if em.calls or dec.seen or srng.calls:
                            impl += ' SIMULATED-BEFORE-REJECTING'
                    except Exception as ex:
                        impl = type(ex).__name__
                    bad = [v for v in (p, q) if v is not None and (math.isnan(v) or math.isinf(v))]
                    if bad:
                        # NaN / inf are not rationals: checked directly against the property
                        if not impl.startswith('ValueError'):
                            ctx.monitor_fail('non-finite probability accepted', {'T': T, 'p': p, 'q': q, 'fn': fn,
                                                                                   'impl': impl})
                        ctx.evaluations += 1
                        continue
                    ctx.case('c01 v{} {} {} {}'.format(fn, T, rat(Fraction(p)), 'N' if q is None else rat(Fraction(q))),
                             impl, nontrivial=True, meta={'fn': fn})
    for p in grid_p:
        em, srng, dec = ScriptEM([np.zeros(10, dtype=int)] * 2), ScriptRng([]), RecDecoder(np.zeros(10, dtype=int))
        try:
            app.run_once(code, em, dec, p, srng)
            impl = 'ok q=' + rat(Fraction(dec.seen[0][3]['measurement_error_probability']))
        except ValueError:
            impl = 'ValueError:p' + (' SIMULATED-BEFORE-REJECTING' if em.calls or dec.seen else '')
        if isinstance(p, float) and (math.isnan(p) or math.isinf(p)):
            if not impl.startswith('ValueError'):
                ctx.monitor_fail('non-finite probability accepted', {'p': p, 'impl': impl})
            continue
        ctx.case('c01 videal {}'.format(rat(Fraction(p))), impl)
    return ctx.finish(RULE, search=search)


def _safe(f, v):
    """wire form of a value handed to the decoder; a value of an unexpected shape is described, not raised on"""
    try:
        return f(v)
    except Exception:
        return 'unrenderable<{}>'.format(type(v).__name__)


def _get(out, key):
    try:
        return out[key]
    except Exception:
        return '<missing>'


def _fint(v):
    """an integer field, or a description of what is there instead"""
    if isinstance(v, (int, np.integer)) and not isinstance(v, bool):
        return str(int(v))
    return 'notint<{}>'.format(type(v).__name__)


def _fvec(v):
    """a vector field in wire form; None -> N; anything that is not a flat sequence of integers is described"""
    if v is None:
        return 'N'
    try:
        a = np.asarray(v)
        if a.ndim != 1 or (a.size and a.dtype.kind not in 'iub'):
            return 'notvec<{}{}>'.format(a.dtype.kind, list(a.shape))
        return ilist([int(x) for x in a])
    except Exception:
        return 'notvec<{}>'.format(type(v).__name__)


def _bsp(v, M):
    n = len(v) // 2
    v2 = np.concatenate((v[n:], v[:n]))
    return M.dot(v2) % 2


def search(m):
    """is the *property* false on the real code for this case?  Re-run the case and evaluate the verdict and the
    syndrome hand-off from first principles."""
    toks = m['op'].split()
    if toks[1] != 'run':
        if 'SIMULATED' in m['impl'] or m['impl'].startswith('ok') != m['model'].startswith('ok'):
            return {'what': 'argument validation differs from the documented domain / order', 'op': m['op'],
                    'impl': m['impl'], 'documented': m['model']}
        return None
    P = lambda s: np.array([[int(c) for c in r] for r in s.split('/')] if s != '.' else [], dtype=int)  # noqa: E731
    S, L, es, ms = P(toks[3]), P(toks[4]), P(toks[5]), P(toks[6])
    qt = toks[7] == '1'
    T = len(es)
    impl = dict(kv.split('=', 1) for kv in m['impl'].split() if '=' in kv)
    if 'syn' not in impl:
        return {'what': 'decoder not called exactly once', 'impl': m['impl']}
    used = ms if qt else np.zeros_like(ms)
    rows = [(used[t - 1] ^ _bsp(es[t], S) ^ used[t]) for t in range(T)]
    if mat(rows) != impl['syn']:
        return {'what': 'syndrome handed to the decoder is not m[t-1]^synd(e[t])^m[t]', 'op': m['op'],
                'decoder_got': impl['syn'], 'expected': mat(rows)}
    total = np.bitwise_xor.reduce(es)
    if bits(total) != impl['err']:
        return {'what': 'total error is not the XOR of the step errors', 'op': m['op']}
    ans = toks[8].split(':')
    out = impl.get('out', '')
    if ans[0] in ('bare', 'res') and ':' in out:
        rec = ans[1] if ans[0] == 'bare' else ans[3]
        ew, su, lc, cv = out.split(':')
        n = S.shape[1] // 2
        exp_ew = int(sum(((e[:n] | e[n:]) > 0).sum() for e in es))
        if int(ew) != exp_ew:
            return {'what': 'error_weight is not the summed weight of the step errors', 'op': m['op'], 'got': ew,
                    'expected': exp_ew}
        if rec != 'N':
            r = np.array([int(c) for c in rec], dtype=int) if rec != '_' else np.array([], dtype=int)
            recovered = r ^ total
            cs = not np.any(_bsp(recovered, S)); lcs = _bsp(recovered, L)
            e_su = int(cs and not np.any(lcs)); e_lc = ilist(lcs)
            if ans[0] == 'res':
                if ans[1] != 'N': e_su = int(ans[1])
                if ans[2] != 'N': e_lc = ans[2]
                e_cv = ans[4]
            else:
                e_cv = 'N'
            if (su, lc, cv) != (str(e_su), e_lc, e_cv):
                return {'what': 'verdict differs from what error and decoding imply', 'op': m['op'],
                        'got': out, 'expected': '{}:{}:{}:{}'.format(exp_ew, e_su, e_lc, e_cv)}
        else:
            if (su, lc, cv) != (ans[1] if ans[1] != 'N' else '0', ans[2], ans[4]):
                return {'what': 'supplied values not passed through unchanged', 'op': m['op'], 'got': out}
    flags = [f for f in m['impl'].split() if f.isupper() or f.startswith('BAD')]
    if flags:
        return {'what': 'context/arguments handed over are wrong: ' + ','.join(flags), 'op': m['op']}
    return None


def replay(ctx, path):
    body = json.load(open(path)); bad = 0
    for v in body.get('violations', []):
        mm = v.get('first_mismatch')
        if mm:
            r = search(mm); print('replay', mm['op'][:160], '->', r); bad += bool(r)
    return 1 if bad else 0
