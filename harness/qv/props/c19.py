"""C19 — the CLI computes what the API computes and never drops results
   (qecsim.cli / qecsim.app against Model/Cli.lean).

What is PROVED (Props/C19.lean, about the model of the CLI's DECISION LOGIC, for all inputs)
  * splitSpec_spec / splitSpec_bare / splitSpec_sound / splitSpec_none_iff : the scanner that mirrors the regex of
    `_ConstructorParamType.convert` returns exactly (name, args) for `name(<ws>args[,]<ws>)`, and rejects exactly the
    strings that have no such decomposition;
  * convert_nonliteral / convert_evalCalled / convert_ctorCalled / nonliteral_rejected : argument text that
    `ast.literal_eval` refuses (not a literal / syntax error) is a usage
    error and the registered constructor is never invoked, nothing is simulated;
  * validators_spec : a command is accepted iff every parameter is in its documented range (probabilities in [0,1],
    TIME_STEPS/-r/-f >= 1, -s >= 0, >= 1 probability, three well-formed specs); a rejection precedes every simulation
    (empty call log, exit status 2);
  * delegation_spec : when accepted, exactly one app.run / app.run_ftp call per probability, in order, with exactly
    the options given (seed, max-runs, max-failures, time steps, measurement probability), and the payload handed to
    the output protocol is the list of their results;
  * write_protocol / write_existing_untouched / results_never_dropped / merge_protocol (and the honest negative
    write_unserialisable_loses: an aggregate json refuses IS lost - hence the serialisability check below) : a serialisable payload is never lost - it is in
    exactly one of stdout / the new file / the error log; existing or uncreatable target => no file effect, payload on
    the log, exit status != 0; creatable => file = payload, exit 0.
What is EXPLORED, not proved (ctx.explored)
  * CLI == API is a CODE-VS-CODE DIFFERENTIAL: `qecsim run/run-ftp/merge` (in-process click CliRunner and a handful of
    real subprocesses) against app.run/run_ftp/merge with the same models, options and seed: JSON equal field for
    field (wall_time aside), every aggregate serialisable, CLI output -> merge round trip.
  * click (option parsing, IntRange, FLOAT, Path), Python's float()/int()/ast.literal_eval/re, the OS and the file
    system are OUTSIDE the model: they appear as tokens computed by the harness with the same stdlib functions.
  * incompatible model combinations (exceptions inside the simulation) are outside the property and not generated.
  * "CLI outputs merge back losslessly" is NOT covered by CLI == API (cli.merge delegates to app.merge, the two agree
    on anything): part (f) merges files written by real `qecsim run` / `run-ftp` invocations (several model
    combinations x several probabilities, repeated / non-adjacent groups, closure) and judges the output against the
    per-group sums computed by the harness from the input records (qv.props.c05.judge) and against Model/Merge.lean
    (the `c05 merge` driver op; Props/C05.lean holds the theorems about that model).
  * the model's `log=1` is "an ERROR record is handed to the qecsim.cli logger"; whether that record REACHES the user is
    decided by Python's logging state, which the documented `logging_qecsim.ini` feature and the call history
    (loggers created at import, init_logging run at every CLI entry, a host's own logging set-up) change: part (e)
    runs failing writes in real processes over those configurations / histories and looks for the record (JSON equal
    to the API result) in the sink the configuration designates (stdout / stderr / a log file).
The tie model <-> code: (a) the real `convert` callback called directly over all registered names x argument
spellings, observed with recording wrappers around re.fullmatch, ast.literal_eval and the registered constructors;
(b) the real click commands invoked in-process with app.run/app.run_ftp replaced by a recording sentinel (it records
the call and then raises ValueError exactly where app.py does: probability / measurement probability outside [0, 1] or
NaN, time steps < 1); every float / int value text of FLOAT_SPELLINGS / INT_SPELLINGS goes through the real click
parameter (conversion + validator callback) alone and inside whole command lines: events
(literal_eval / constructor calls), the list of simulation calls with their arguments, stdout, output file, error log
and exit status compared with the model's reply, in all output-path situations.
LEVEL = 'proof' refers to the decision-logic theorems only.
"""
import ast
import builtins
import contextlib
import json
import logging
import math
import os
import re
import shutil
import subprocess
import sys
import tempfile
from fractions import Fraction

from qv import core
from qv.core import rat

LEVEL = 'proof'

RULE = ('(a) every name registered in the installed entry points (run: codes, error models, decoders; run-ftp: the '
        'same three groups) x argument spellings (none, (), positional, whitespace / trailing comma variants, nested '
        'tuples, strings holding commas and parentheses, keyword-looking text, non-literals such as '
        "__import__('os').system('x'), comment tricks, unbalanced parentheses, newlines, unknown names, random ASCII "
        'soup) through the real convert callback: regex split, accept/reject, error class, literal_eval and constructor '
        'invocations compared with the model; (b) random run / run-ftp command lines (option order and spelling, '
        'valid and out-of-range / nan / non-numeric probabilities, -r/-f/-s/-m/TIME_STEPS in and out of range, good and '
        'malformed specs, serialisable and unserialisable payload) x output situations (stdout, new file, existing '
        'file with content / empty / read-only, existing directory (empty / not), symlink to a file / an empty file / a '
        'directory / nowhere, missing directory, parent is a file, over-long name; the target\'s FULL state - existence, '
        'type, inode, size, mode, mtime, content, what a symlink resolves to, the listing around it - is snapshotted '
        'from the file system before and after: an existing target must be unchanged in every respect) with app.run / app.run_ftp '
        'replaced by a recording sentinel (which refuses what app.run / app.run_ftp refuse, so that results dropped by '
        'an exception inside the API are observable): events, simulation-call list, stdout / file / log / exit compared '
        'with the model; a deterministic sweep of every float spelling click FLOAT accepts or refuses (nan / inf in every '
        'case and sign, overflow, underflow, underscores, whitespace, signed zeros, boundary neighbours, non-ASCII '
        'digits, hex / fraction / suffix forms) in every probability-like position (alone, after / before / between '
        'valid probabilities, run and run-ftp, -m in every option style) and of every int spelling for -r / -f / -s / '
        'TIME_STEPS, through the real click commands AND through the real click parameter alone against the model '
        'validators (c19 prob / c19 int), with the monitor exit 2 / no traceback / no simulation call / earlier results '
        'not lost; merge with missing / directory / bad-JSON / good inputs; (c) CLI vs API differential on real runs for '
        'every compatible registered (code, error model, decoder) combination, fixed seed, plus real subprocesses; '
        '(e) failing writes in real processes under every class of user logging configuration (logging_qecsim.ini: '
        'location x content x failing target x command) and call history (CLI entered once / twice in one interpreter, '
        'after API use, inside a host with its own logging): the recovered-data record must reach the configured sink; '
        '(f) `qecsim merge` (in-process / real process, stdout / -o, a file through /dev/stdin) of files written by real '
        '`qecsim run` / `run-ftp` invocations: 1-4 registered model combinations x 1-3 probabilities (in several '
        'spellings) per session, different seeds and run counts, so that one merge sees several distinct groups whose '
        'n_logical_commutations / custom_totals differ in value, length and presence, groups repeated non-adjacently '
        'across files, the same file twice, earlier merge outputs fed back; the merged output is judged against an '
        'oracle independent of app.merge: per-group sums of every scalar and array field computed by the harness from '
        'the input records (qv.props.c05.judge) and the Lean merge model (`c05 merge` op), and every CLI-vs-app.merge '
        'round trip of (c) / (d) goes through the same judge. '
        'non-trivial = a spec with an argument list or a malformed spec; a command line with an invalid parameter, '
        'a non-stdout target or more than one probability')

ROLE_OF = {'code': 'code', 'error_model': 'em', 'decoder': 'dec'}
GROUPS = {('run', 'code'): 'qecsim.cli.run.codes', ('run', 'em'): 'qecsim.cli.run.error_models',
          ('run', 'dec'): 'qecsim.cli.run.decoders', ('run-ftp', 'code'): 'qecsim.cli.run_ftp.codes',
          ('run-ftp', 'em'): 'qecsim.cli.run_ftp.error_models', ('run-ftp', 'dec'): 'qecsim.cli.run_ftp.decoders'}
PWN = 'qv_c19_pwned'
PWN_EXPR = "__import__('builtins').__dict__.__setitem__('{}', 1)".format(PWN)

# valid constructor arguments (source text) per registered name; unknown (newly registered) names get () only
VALID_ARGS = {
    'color666': ['3', '5'], 'five_qubit': [''], 'steane': [''], 'planar': ['3,3', '2,3', '4,2'],
    'rotated_planar': ['3,3', '3,5'], 'rotated_toric': ['2,2', '4,2'], 'toric': ['3,3', '2,4'],
    'generic.biased_depolarizing': ['10', "10,'Z'", "0.5, 'X'", '100.0'], 'generic.biased_y_x': ['10', '3.5'],
    'generic.bit_flip': [''], 'generic.bit_phase_flip': [''], 'generic.depolarizing': [''], 'generic.phase_flip': [''],
    'generic.center_slice': ['(0.2,0.8,0),0.5', '(1, 0, 0), -1.0', '(0,0.5,0.5),0'],
    'color666.mps': ['', '8', 'None', '8,'], 'generic.naive': ['', '10'], 'planar.cmwpm': ['', '1,2', '8, 4, 0.25'],
    'planar.mps': ['', '6', "6, 'c'", "None, 'r', 1e-8"], 'planar.mwpm': [''], 'planar.rmps': ['', '6', "4, 'a'"],
    'planar.y': [''], 'rotated_planar.mps': ['', '6', "6, 'c'"], 'rotated_planar.rmps': ['', '6'],
    'rotated_planar.smwpm': ['', '10', 'None'], 'rotated_toric.smwpm': ['', '10'], 'toric.mwpm': [''],
}


def hexs(s):
    return s.encode('latin-1').hex() or '-'


def argtok(text):
    """what ast.literal_eval(text + ',') does — the token the model consumes (stdlib, outside the model)"""
    try:
        v = ast.literal_eval(text + ',')
    except SyntaxError:
        return 'syntax'
    except ValueError:
        return 'notliteral'
    except Exception:
        return 'syntax'
    if isinstance(v, tuple):
        return 'tuple'
    try:
        iter(v)
        return 'iter'
    except TypeError:
        return 'scalar'


def floattok(text):
    try:
        v = float(text)
    except ValueError:
        return 'bad'
    if v != v:
        return 'nan'
    if v in (float('inf'), float('-inf')):
        return 'inf' if v > 0 else '-inf'
    return rat(Fraction(v))


def ftok(v):
    """canonical token of a float the REAL code handed to the simulation; never raises (a NaN or an infinity that got
    through the validators must show up as a disagreement, not crash the harness)"""
    try:
        v = float(v)
    except (TypeError, ValueError):
        return 'bad'
    if v != v:
        return 'nan'
    if v in (float('inf'), float('-inf')):
        return 'inf' if v > 0 else '-inf'
    return rat(Fraction(v))


def spec_prob(text):
    """the documented range of a probability parameter, stated independently of cli.py: text that click's FLOAT
    (= Python float()) parses to a finite number in [0.0, 1.0]; returns that number or None"""
    try:
        v = float(text)
    except ValueError:
        return None
    if math.isnan(v) or math.isinf(v):
        return None
    return v if 0.0 <= v <= 1.0 else None


def spec_int(text, lo):
    """documented range of an INT parameter (-r/-f/TIME_STEPS: >= 1, -s: >= 0): text that int() parses to >= lo"""
    try:
        v = int(text)
    except ValueError:
        return None
    return v if v >= lo else None


def inttok(text):
    try:
        return str(int(text))
    except ValueError:
        return 'bad'


# ------------------------------------------------------------------------------------------ instrumentation

class Rec:
    def __init__(self):
        self.role = 'code'
        self.events = []      # 'eval:<role>' / 'ctor:<role>'
        self.evals = []       # texts handed to literal_eval
        self.splits = []      # groupdicts (or None) of the constructor regex
        self.ctors = []       # (role, name, raised)
        self.sims = []        # dicts
        self.logs = []        # ERROR records of qecsim.cli
        self.other_exc = None


class _ListHandler(logging.Handler):
    def __init__(self, rec):
        super().__init__(level=logging.ERROR)
        self.rec = rec

    def emit(self, record):
        try:
            self.rec.logs.append(record.getMessage())
        except Exception as ex:  # formatting failure: keep it visible
            self.rec.logs.append('LOG-FORMAT-ERROR ' + repr(ex))


def _wrap_ctor(rec, role, name, fn):
    def ctor(*a, **k):
        rec.events.append('ctor:' + role)
        try:
            r = fn(*a, **k)
        except Exception:
            rec.ctors.append((role, name, True))
            raise
        rec.ctors.append((role, name, False))
        return r
    return ctor


@contextlib.contextmanager
def instrument(rec, fake=None):
    """recording proxies around the CLI's collaborators (all from outside /repo; restored afterwards)"""
    from qecsim import cli, app, util
    saved_regs = []
    for cmd in cli.cli.commands.values():
        for p in cmd.params:
            if isinstance(p.type, cli._ConstructorParamType):
                role = ROLE_OF.get(p.name, p.name)
                saved_regs.append((p.type, p.type._constructors))
                p.type._constructors = {k: _wrap_ctor(rec, role, k, v) for k, v in p.type._constructors.items()}
    orig_convert = cli._ConstructorParamType.convert
    orig_eval, orig_fullmatch = ast.literal_eval, re.fullmatch
    orig_run, orig_ftp, orig_init = app.run, app.run_ftp, util.init_logging

    def convert(self, value, param, ctx):
        if param is not None:
            rec.role = ROLE_OF.get(param.name, param.name)
        return orig_convert(self, value, param, ctx)

    def literal_eval(x):
        rec.events.append('eval:' + rec.role)
        rec.evals.append(x)
        return orig_eval(x)

    def fullmatch(pattern, string, flags=0):
        m = orig_fullmatch(pattern, string, flags)
        if isinstance(pattern, str) and 'constructor_name' in pattern:
            rec.splits.append(None if m is None else m.groupdict())
        return m

    lg = logging.getLogger('qecsim.cli')
    handler = _ListHandler(rec)
    old_prop, old_level = lg.propagate, lg.level
    try:
        cli._ConstructorParamType.convert = convert
        ast.literal_eval = literal_eval
        re.fullmatch = fullmatch
        util.init_logging = lambda: None
        if fake is not None:
            app.run = fake['run']
            app.run_ftp = fake['run_ftp']
        lg.addHandler(handler)
        lg.propagate = False
        lg.setLevel(logging.ERROR)      # run.py silences the qecsim loggers; the error log is an observable here
        yield
    finally:
        lg.removeHandler(handler)
        lg.propagate, lg.level = old_prop, old_level
        cli._ConstructorParamType.convert = orig_convert
        ast.literal_eval, re.fullmatch = orig_eval, orig_fullmatch
        app.run, app.run_ftp, util.init_logging = orig_run, orig_ftp, orig_init
        for t, reg in saved_regs:
            t._constructors = reg


def make_fake(rec, unser):
    import numpy as np

    def result(n, p):
        return {'sentinel': n, 'error_probability': p, 'n_run': np.int64(3) if unser else 3, 'tup': (1, 2)}

    def refuse(p, m, ts):
        # what app.run / app.run_ftp do first with arguments outside their documented domain (app.py)
        if ts is not None and not ts >= 1:
            raise ValueError('Time steps must be integer >= 1.')
        if not (0 <= p <= 1):
            raise ValueError('Error probability must be in [0, 1].')
        if not (m is None or (0 <= m <= 1)):
            raise ValueError('Measurement error probability must be None or in [0, 1].')

    def guarded(p, m, ts):
        try:
            refuse(p, m, ts)
        except ValueError:
            rec.sims[-1]['refused'] = True     # the simulation was CALLED with an argument the API itself refuses
            raise

    def run(code, error_model, decoder, error_probability, max_runs=None, max_failures=None, random_seed=None):
        rec.sims.append({'p': error_probability, 'ts': None, 'm': None, 'r': max_runs, 'f': max_failures,
                         's': random_seed, 'models': [repr(code), repr(error_model), repr(decoder)]})
        guarded(error_probability, None, None)
        return result(len(rec.sims), error_probability)

    def run_ftp(code, time_steps, error_model, decoder, error_probability, measurement_error_probability=None,
                max_runs=None, max_failures=None, random_seed=None):
        rec.sims.append({'p': error_probability, 'ts': time_steps, 'm': measurement_error_probability,
                         'r': max_runs, 'f': max_failures, 's': random_seed,
                         'models': [repr(code), repr(error_model), repr(decoder)]})
        guarded(error_probability, measurement_error_probability, time_steps)
        return result(len(rec.sims), error_probability)

    return {'run': run, 'run_ftp': run_ftp}


def runner():
    from click.testing import CliRunner
    try:
        return CliRunner(mix_stderr=False)
    except TypeError:       # click >= 8.2: stderr is always captured separately
        return CliRunner()


def invoke(argv):
    from qecsim import cli
    res = runner().invoke(cli.cli, argv)
    tb = res.exception is not None and not isinstance(res.exception, SystemExit)
    try:
        err = res.stderr
    except ValueError:
        err = ''
    return res, tb, err


def registries():
    """{(cmd, role): (names from the installed metadata, names offered by the CLI, classes)}"""
    from importlib import metadata
    from qecsim import cli
    out = {}
    for (cmd, role), group in GROUPS.items():
        eps = metadata.entry_points(group=group)
        meta = {ep.name: ep for ep in eps}
        offered = None
        for p in cli.cli.commands[cmd].params:
            if ROLE_OF.get(p.name) == role:
                offered = p.type
        out[(cmd, role)] = (meta, offered)
    return out


# ------------------------------------------------------------------------------------------ (a) spec strings

def spellings(rng, name, arglist, scale):
    """(spec text, kind, expected args source or None) — expected = the args of the API call a reader would write"""
    out = [(name, 'bare', ''), (name + '()', 'empty', ''), (name + '( )', 'empty', ''), (name + '(,)', 'empty', ''),
           (name + '(\t , \x0c)', 'empty', '')]
    for a in arglist:
        if a == '':
            continue
        spaced = a.replace(',', ' , ')
        out += [('{}({})'.format(name, a), 'positional', a), ('{}( {} )'.format(name, spaced), 'ws', a),
                ('{}({},)'.format(name, a), 'trailing-comma', a), ('{}(\t{} , \x1f)'.format(name, a), 'ws', a),
                ('{}(({}))'.format(name, a) if ',' not in a else '{}(({}),)'.format(name, a), 'nested',
                 a if ',' not in a else '(' + a + ')'),
                ('{}([{}]#)'.format(name, a), 'comment-iter', a),
                ('{}({}#)'.format(name, a.split(',')[0]), 'comment-scalar', None),
                ('{}({}))'.format(name, a), 'unbalanced', None), ('{}(({})'.format(name, a), 'unbalanced', None),
                ('{}({}'.format(name, a), 'unbalanced', None), ('{} ({})'.format(name, a), 'format', None),
                (' {}({})'.format(name, a), 'format', None), ('{}({}) '.format(name, a), 'format', None),
                ('{}({},\n)'.format(name, a), 'newline-ws', a), ('{}({}\n,{})'.format(name, a, a), 'newline', None),
                ('{}({})({})'.format(name, a, a), 'unbalanced', None),
                ('{}(x={})'.format(name, a.split(',')[0]), 'keyword', None),
                ('{}({} if 1 else 0)'.format(name, a.split(',')[0]), 'nonliteral', None),
                ('{}({}+1)'.format(name, a.split(',')[0]), 'nonliteral', None),
                ('{}(*[{}])'.format(name, a), 'nonliteral', None)]
    out += [('{}({})'.format(name, PWN_EXPR), 'nonliteral', None),
            ("{}(__import__('os').system('x'))".format(name), 'nonliteral', None),
            ('{}(open)'.format(name), 'nonliteral', None), ('{}(a.b)'.format(name), 'nonliteral', None),
            ("{}('a,b)')".format(name), 'string', None), ('{}("(", ")")'.format(name), 'string', None),
            ("{}(')', \"x,y\",)".format(name), 'string', None), ('{}(\'\')'.format(name), 'string', None),
            ('{}(1e400)'.format(name), 'literal', None), ('{}(-3,3)'.format(name), 'literal', None),
            ('{}(None)'.format(name), 'literal', None), ('{}(True,False)'.format(name), 'literal', None),
            ('{}(0,0)'.format(name), 'literal', None), ('{}(((((3)))),3)'.format(name), 'nested', None),
            ("{}({{'a': 1}}#)".format(name), 'comment-iter', None), ('{}(3,,)'.format(name), 'syntax', None),
            ('{}(#)'.format(name), 'syntax', None), ('{}(")'.format(name), 'syntax', None),
            (name.upper() + '(3)', 'unknown', None), (name + '.x', 'unknown', None), (name + 'x(3,3)', 'unknown', None),
            ('.' + name, 'unknown', None), (name[:-1], 'unknown', None), (name + '[3]', 'format', None),
            (name + ')', 'format', None), (name + '(', 'format', None), (name + '-1', 'format', None),
            ('({})'.format(name), 'format', None), ('', 'format', None), ('(', 'format', None), ('()', 'format', None)]
    # ASCII soup around the name
    alphabet = ['(', ')', ',', ' ', '\t', '\n', '#', "'", '"', '3', 'a', '.', '_', '\x0b', '\x1c', '[', ']', '=', '-']
    for _ in range(scale):
        k = rng.randint(0, 8)
        soup = ''.join(rng.choice(alphabet) for _ in range(k))
        out.append((rng.choice([name, name, name[:3], '']) + rng.choice(['(', '', '(', ' (']) + soup +
                    rng.choice([')', ')', '', ',)', ' )']), 'soup', None))
    return out


def direct_convert(ptype, role, text):
    """the real callback on one spec string; returns (impl dict, Rec)"""
    import click
    rec = Rec()
    rec.role = role
    out = {'accepted': False, 'err': None, 'repr': None, 'exc': None}
    with instrument(rec):
        try:
            obj = ptype.convert(text, None, None)
            out['accepted'] = True
            out['repr'] = repr(obj)
            out['err'] = 'ok'
        except click.BadParameter as ex:
            msg = ex.message
            for tag, pat in (('format', '(format as name(<args>))'), ('unknown', '(choose from '),
                             ('parse', '(failed to parse arguments "'), ('construct', '(failed to construct "')):
                if pat in msg:
                    out['err'] = tag
                    break
            else:
                out['err'] = 'badparameter-other'
        except Exception as ex:
            out['err'] = 'TRACEBACK'
            out['exc'] = repr(ex)[:200]
    return out, rec


def pwned():
    if hasattr(builtins, PWN):
        delattr(builtins, PWN)
        return True
    return False


def check_spec(ctx, cmd, role, ptype, classes, text, kind, expected, split_of):
    """one spec string: correspondence cases + direct property monitors. Returns nothing."""
    reg = ','.join(sorted(ptype._constructors)) or '_'
    impl, rec = direct_convert(ptype, role, text)
    hit = pwned()
    msplit = split_of[text]                     # model's split: 'nomatch' | '<hexname> N' | '<hexname> <hexargs>'
    margs = None
    if msplit != 'nomatch':
        h = msplit.split()[1]
        margs = None if h == 'N' else ('' if h == '-' else bytes.fromhex(h).decode('latin-1'))
    tok = argtok(margs) if margs else 'tuple'
    ctor_raised = any(r for _, _, r in rec.ctors)
    meta = {'kind': 'conv', 'cmd': cmd, 'role': role, 'text': text, 'spelling': kind, 'expected_args': expected}
    # split correspondence (observable when the code still matches through re.fullmatch)
    if rec.splits:
        g = rec.splits[0]
        if g is None:
            isplit = 'nomatch'
        else:
            a = g.get('constructor_args')
            isplit = '{} {}'.format(hexs(g.get('constructor_name') or ''), 'N' if a is None else hexs(a))
        ctx.case('c19 split ' + hexs(text), isplit, nontrivial=('(' in text), meta=meta)
    else:
        ctx.count('split-observable', 'no')
    ctx.case('c19 conv {} {} {} {}'.format(reg, hexs(text), tok, 'raises' if ctor_raised else 'ok'),
             '{} e{} c{}'.format(impl['err'], int(bool(rec.evals)), int(bool(rec.ctors))),
             nontrivial=('(' in text or impl['err'] != 'ok'), meta=meta)
    ctx.count('spelling', kind)
    ctx.count('conv', impl['err'])
    ctx.count('argtok', tok if margs else 'no-args')
    # --- the property itself, independent of the model
    inp = {'kind': 'conv', 'cmd': cmd, 'role': role, 'text': text}
    if impl['err'] == 'TRACEBACK':
        ctx.monitor_fail('spec string ends in an exception other than a usage error: ' + str(impl['exc']), inp,
                         key='convert-traceback')
    if hit:
        ctx.monitor_fail('argument text was EVALUATED as code (side effect observed)', inp, key='code-evaluated')
    if rec.evals and margs and rec.evals[0] != margs + ',':
        pass  # reported through the split correspondence
    if kind in ('nonliteral', 'keyword') and (impl['accepted'] or rec.ctors):
        ctx.monitor_fail('non-literal argument text accepted or constructor invoked', inp, key='nonliteral-accepted')
    if expected is not None and kind != 'comment-scalar':
        name = text.strip().split('(')[0]
        cls = classes.get(name)
        if cls is not None:
            try:
                want = repr(cls(*ast.literal_eval(expected + ','))) if expected else repr(cls())
            except Exception:
                want = None
            if want is not None and impl['repr'] != want:
                ctx.monitor_fail('CLI builds {} where the API constructor builds {}'.format(impl['repr'], want), inp,
                                 key='spec-model-differs')


def opens_descriptor(text):
    """harness self-protection: generic.file(<int>, …) makes Python open an inherited file descriptor"""
    m = re.search(r'\((.*)\)', text, re.S)
    if not m:
        return False
    try:
        v = ast.literal_eval(m.group(1).strip() + ',')
    except Exception:
        try:
            v = ast.literal_eval(m.group(1).strip().rstrip(',') + ',')
        except Exception:
            return bool(re.search(r'\(\W*\d', text))
    while isinstance(v, (tuple, list)) and len(v) >= 1 and not isinstance(v[0], (str, bytes)):
        v = v[0]
        if isinstance(v, (int, float)) and not isinstance(v, complex):
            return True
    return isinstance(v, (int, float))


def part_a(ctx):
    rng = ctx.rng
    regs = registries()
    specs = []
    for (cmd, role), (meta, ptype) in sorted(regs.items()):
        if ptype is None:
            ctx.monitor_fail('command {} has no {} argument'.format(cmd, role), {'kind': 'registry', 'cmd': cmd})
            continue
        offered = sorted(ptype._constructors)
        if offered != sorted(meta):
            ctx.monitor_fail('CLI offers {} but the installed entry points register {}'.format(offered, sorted(meta)),
                             {'kind': 'registry', 'cmd': cmd, 'role': role}, key='registry-differs')
        classes = {}
        for n, ep in meta.items():
            try:
                classes[n] = ep.load()
            except Exception:
                pass
        ctx.count('registry', '{}:{}={}'.format(cmd, role, len(offered)))
        for name in offered:
            args = VALID_ARGS.get(name, [''])
            if name == 'generic.file':
                args = ['"{}"'.format(ctx.extra['_file_em']), "'{}', 1".format(ctx.extra['_file_em'])]
            if not ctx.quick() or cmd == 'run' or role == 'code':
                sp = spellings(rng, name, args, ctx.scale(6, 60))
            else:       # run-ftp error models / decoders are the same classes: lighter sweep in the quick tier
                sp = spellings(rng, name, args[:1], 2)[::3]
            for text, kind, expected in sp:
                if name == 'generic.file' and opens_descriptor(text):
                    continue    # FileErrorModel(3) would open (and on collection close) one of OUR file descriptors
                specs.append((cmd, role, ptype, classes, text, kind, expected))
    texts = sorted(set(s[4] for s in specs))
    outs = ctx.driver.ask(['c19 split ' + hexs(t) for t in texts])
    split_of = dict(zip(texts, outs))
    for cmd, role, ptype, classes, text, kind, expected in specs:
        check_spec(ctx, cmd, role, ptype, classes, text, kind, expected, split_of)
    return len(specs)


# ------------------------------------------------------------------------------------------ (b) command lines

GOOD = {'run': [('five_qubit', 'generic.depolarizing', 'generic.naive'),
                ('steane', 'generic.bit_flip', 'generic.naive(10)'),
                ('planar(3,3)', "generic.biased_depolarizing(10,'Z')", 'planar.mwpm'),
                ('toric( 3 , 3 )', 'generic.phase_flip', 'toric.mwpm()'),
                ('rotated_planar(3,3,)', 'generic.center_slice((0.2,0.8,0),0.5)', 'rotated_planar.mps(6)'),
                ('color666(3)', 'generic.bit_phase_flip', 'color666.mps(8)')],
        'run-ftp': [('rotated_planar(3,3)', 'generic.depolarizing', 'rotated_planar.smwpm'),
                    ('rotated_toric(2,2)', 'generic.bit_phase_flip', 'rotated_toric.smwpm(10)'),
                    ('rotated_toric( 4,2 )', 'generic.biased_depolarizing(10)', 'rotated_toric.smwpm()')]}
BAD_SPECS = ['{n}(' + PWN_EXPR + ')', "{n}(__import__('os').system('x'))", '{n}(3,3))', '{n}((3,3)', '{n} (3,3)',
             'nope', '{n}(1+1)', '{n}(x=3)', '{n}(3#)', '{n}(-1,-1)', '{n}("a","b","c","d","e","f")', '', '{n}(3,\n3)',
             '{N}', '{n}(0,0,0,0,0,0,0)']
GOOD_P = ['0.1', '0', '1', '0.0', '1.0', '1e-3', '0.25', ' 0.5 ', '5e-1', '.5', '1_0e-2', '0.999999']
BAD_P = ['1.1', '-0.1', 'nan', 'inf', '-inf', 'abc', '', '1,0', '2', '1.0000001', '-1e-9', '0x1', 'None', '1e400',
         '-nan', '0.1f']
GOOD_INT1 = ['1', '2', '3', '10', ' 4 ', '1_0', '+5']
BAD_INT1 = ['0', '-1', 'x', '1.5', '', '1e3', '-0', 'None', '0x10']
GOOD_SEED = ['0', '1', '13', '4294967296', '340282366920938463463374607431768211456', '+7']
BAD_SEED = ['-1', 'x', '1.5', '', '-5']


# every kind of text click's FLOAT (= float()) accepts or refuses: not-a-number and infinity spellings in every case /
# sign, overflow and underflow to inf / 0.0, digit-group underscores, surrounding whitespace, signed zeros, the
# boundary neighbours of 0 and 1, non-ASCII decimal digits, hex / C99 / fraction / suffix forms, empty text
FLOAT_SPELLINGS = [
    'nan', 'NaN', 'NAN', 'nAn', '-nan', '+nan', '-NaN', ' nan', 'nan ', '\tnan\n', 'nan(0)', 'nanq', 'n_an', 'snan',
    'inf', '-inf', '+inf', 'Inf', 'INF', 'iNf', 'Infinity', '-Infinity', '+Infinity', 'infinity', ' inf ', 'infinit',
    '1e400', '-1e400', '1e309', '1.8e308', '-1.8e308', '1e-400', '-1e-400', '4.9e-324', '-4.9e-324', '1e-323',
    '1_0', '1_0e-2', '0.1_5', '0_1', '1__0', '_1', '1_', '0._5',
    ' 0.5', '0.5 ', ' 0.5 ', '\t.5\n', '\x0b1\x0c', '0. 5', '0 .5',
    '0', '-0', '+0', '0.0', '-0.0', '+0.0', '00.5', '+.5', '.5', '5e-1', '5E-1', '0.5e0', '50e-2', '1', '1.', '1.0',
    '1e0', '10e-1', '+1', '01', '1.0000000000000002', '0.9999999999999999', '1.00000000000000001', '1.1', '2', '-0.1',
    '-1e-320', '-1', '1e1', '100',
    '\u0661', '\u0660.\u0665', '\uff11', '\uff10.\uff15', '\u0967', '\u00b2', '\u00bd', '\u2460',
    '0x1p-1', '0x1', '0x0', '0x.8', '0b1', '0o1', '1/2', '0,5', '0.5f', '0.5d', '1e', 'e1', '.', '', ' ', '-', '+',
    '--1', '0.5.1', '1 000', 'abc', 'None', 'True', 'False', '1j', '(0.5)', '0.5,', "'0.5'", '1e+0', '1e-0',
]
# every kind of text click's IntRange (= int()) accepts or refuses
INT_SPELLINGS = [
    '1', '2', '10', '01', '001', '+5', '+1', '1_0', '1_000', '1__0', '_1', '1_', ' 4 ', ' 1', '1 ', '\n3', '\t2\t',
    '0', '-0', '+0', '00', '-1', '-5', '-01', '\u0661\u0662', '\uff11\uff12', '\u0967', '\u00b2', '\u2460',
    '0x10', '0b11', '0o7', '1e3', '1E0', '1.0', '1.', '1.5', '.5', '10**2', '1+1', '3L', '3l', '1,0', '1 0', '', ' ',
    '-', '+', 'x', 'None', 'True', 'nan', 'inf', '99999999999999999999999999999999', '-99999999999999999999999999999999',
    '4294967296', '18446744073709551616', '340282366920938463463374607431768211456',
]
# the random command-line generator draws from the same universes
GOOD_P += [t for t in FLOAT_SPELLINGS if spec_prob(t) is not None and t not in GOOD_P]
BAD_P += [t for t in FLOAT_SPELLINGS if spec_prob(t) is None and t not in BAD_P]
GOOD_INT1 += [t for t in INT_SPELLINGS if spec_int(t, 1) is not None and t not in GOOD_INT1]
BAD_INT1 += [t for t in INT_SPELLINGS if spec_int(t, 1) is None and t not in BAD_INT1]
GOOD_SEED += [t for t in INT_SPELLINGS if spec_int(t, 0) is not None and t not in GOOD_SEED]
BAD_SEED += [t for t in INT_SPELLINGS if spec_int(t, 0) is None and t not in BAD_SEED]
PROB_PARAMS = {'probs': ('error_probabilities', None), 'm': ('measurement_error_probability', None)}
INT_PARAMS = {'r': ('max_runs', 1), 'f': ('max_failures', 1), 's': ('random_seed', 0), 'ts': ('time_steps', 1)}
OPT_NAMES = {'r': ('-r', '--max-runs'), 'f': ('-f', '--max-failures'), 's': ('-s', '--random-seed'),
             'm': ('-m', '--measurement-error-probability')}


def styles_for(v):
    """option spellings that can carry the value text `v` (a leading '-' or an empty text needs an attached form)"""
    if v == '':
        return ['long-eq']
    if v.startswith('-'):
        return ['long-eq', 'short-attached']
    return ['short-attached', 'short-sep', 'long-eq', 'long-sep']


def param_eval(cmd, role, text):
    """ONE parameter value through the REAL click parameter (type conversion + range check / callback of cli.py)
    -> (impl string, accepted True / False / None = exception, value)"""
    import click
    from qecsim import cli
    cmdobj = cli.cli.commands[cmd]
    pname, lo = PROB_PARAMS[role] if role in PROB_PARAMS else INT_PARAMS[role]
    param = next(p for p in cmdobj.params if p.name == pname)
    isprob = role in PROB_PARAMS
    v = None
    try:
        v = param.process_value(click.Context(cmdobj), (text,) if role == 'probs' else text)
        if role == 'probs':
            v = v[0]
        impl = 'ok ' + (ftok(v) if isprob else str(int(v)))
        accepted = True
    except click.UsageError:
        impl, accepted = 'rej', False
    except Exception as ex:
        impl, accepted = 'TRACEBACK ' + type(ex).__name__, None
    return impl, accepted, v


def param_case(ctx, cmd, role, text):
    """the real parameter against the model's validator (`c19 prob` / `c19 int`), plus the property monitor"""
    impl, accepted, v = param_eval(cmd, role, text)
    isprob = role in PROB_PARAMS
    lo = None if isprob else INT_PARAMS[role][1]
    meta = {'kind': 'param', 'cmd': cmd, 'role': role, 'text': text}
    line = 'c19 prob ' + floattok(text) if isprob else 'c19 int {} {}'.format(lo, inttok(text))
    ctx.case(line, impl, nontrivial=True, meta=meta)
    ctx.count('param-' + role, impl.split()[0])
    what = param_verdict(cmd, role, text, accepted, v if accepted else None, impl)
    if what:
        ctx.monitor_fail(what, meta, key='validator-' + ('accepts-invalid' if accepted else 'refuses-valid'
                                                          if accepted is False else 'traceback'))


def param_verdict(cmd, role, text, accepted, value, impl):
    isprob = role in PROB_PARAMS
    lo = None if isprob else INT_PARAMS[role][1]
    spec = spec_prob(text) if isprob else spec_int(text, lo)
    pname = (PROB_PARAMS[role] if isprob else INT_PARAMS[role])[0]
    doc = 'a FLOAT in [0.0, 1.0]' if isprob else 'an INT >= {}'.format(lo)
    if accepted is None:
        return '{} {}: the value text {!r} ends in an exception other than a usage error ({})'.format(
            cmd, pname, text, impl)
    if accepted and spec is None:
        return ('{} {}: the value text {!r} is not {} but passes the real click conversion + validator of cli.py '
                '(value handed on: {!r}); the run that follows is a simulation with an invalid parameter or an '
                'exception inside the API'.format(cmd, pname, text, doc, value))
    if not accepted and spec is not None:
        return '{} {}: the value text {!r} is {} ({!r}) but is refused'.format(cmd, pname, text, doc, spec)
    if accepted and value != spec:
        return '{} {}: the value text {!r} is handed on as {!r}, not {!r}'.format(cmd, pname, text, value, spec)
    return None


def spelling_recipes(n0):
    """deterministic sweep: every float spelling in every probability-like position (alone, after / before / between
    valid probabilities, run and run-ftp, -m in every option style), every int spelling for -r / -f / -s (every option
    style) and TIME_STEPS, over output situations (so that 'earlier results not lost' is observable)"""
    out = []
    sits = ['stdout-default', 'new', 'exists', 'missing-dir', 'stdout-dash', 'exists-empty']

    def add(cmd, probs, opts, ts, bad):
        code, em, dec = GOOD[cmd][len(out) % len(GOOD[cmd])]
        n = n0 + len(out)
        out.append({'kind': 'cmd', 'cmd': cmd, 'code': code, 'em': em, 'dec': dec,
                    'ts': ts if cmd == 'run-ftp' else None, 'probs': probs, 'opts': opts,
                    'situation': sits[len(out) % len(sits)], 'o_style': ['-o', '--output', '-o='][len(out) % 3],
                    'o_pos': (len(out) % 5) / 5.0, 'intersperse': False, 'unser': False, 'bad': bad, 'n': n,
                    'sweep': True})

    base_opts = [['r', 'short-attached', '-r', '--max-runs', '2'], ['s', 'short-sep', '-s', '--random-seed', '7']]
    for t in FLOAT_SPELLINGS:
        bad = [] if spec_prob(t) is not None else ['p']
        for probs in ([t], ['0.25', t], [t, '0.25'], ['0.1', t, '0.2']):
            add('run', probs, [list(o) for o in base_opts], None, bad)
        for probs in ([t], ['0.125', '0.25', t]):
            add('run-ftp', probs, [list(o) for o in base_opts[:1]], '2', bad)
        badm = [] if spec_prob(t) is not None else ['m']
        for st in styles_for(t):
            add('run-ftp', ['0.1', '0.2'], [['m', st, OPT_NAMES['m'][0], OPT_NAMES['m'][1], t]], '3', badm)
    k = 0
    for t in INT_SPELLINGS:
        for role in ('r', 'f', 's'):
            bad = [] if spec_int(t, INT_PARAMS[role][1]) is not None else [role]
            for st in styles_for(t):
                k += 1
                add('run' if k % 3 else 'run-ftp', ['0.1', '0.3'],
                    [[role, st, OPT_NAMES[role][0], OPT_NAMES[role][1], t]], '1', bad)
        add('run-ftp', ['0.1'], [list(base_opts[0])], t, [] if spec_int(t, 1) is not None else ['ts'])
    return out


def _node(path, follow):
    """state of one file-system node: type, inode, size, mode, mtime, link text / directory listing / content"""
    import stat as _stat
    try:
        st = os.stat(path) if follow else os.lstat(path)
    except OSError:
        return {'exists': False}
    d = {'exists': True, 'type': {_stat.S_IFREG: 'file', _stat.S_IFDIR: 'dir', _stat.S_IFLNK: 'symlink'}.get(
        _stat.S_IFMT(st.st_mode), 'other'), 'inode': st.st_ino, 'size': st.st_size,
        'mode': oct(_stat.S_IMODE(st.st_mode)), 'mtime_ns': st.st_mtime_ns}
    if d['type'] == 'symlink':
        d['link'] = os.readlink(path)
    elif d['type'] == 'dir':
        d['listing'] = sorted(os.listdir(path))
    elif d['type'] == 'file':
        try:
            with open(path, 'rb') as f:
                d['content'] = f.read().decode('latin-1')
        except OSError as ex:
            d['content'] = 'unreadable: ' + type(ex).__name__
    return d


def snapshot(path):
    """FULL state of an output target, taken from the file system (not through an open handle): the node itself
    (existence, type, inode, size, mode, mtime, content / listing / link text), what a symlink resolves to, and the
    listing of the nearest existing ancestor directory (so that stray files / directories next to the target show)"""
    if path is None:
        return None
    snap = {'node': _node(path, follow=False)}
    if snap['node'].get('type') == 'symlink':
        snap['resolved'] = _node(path, follow=True)
    anc = os.path.dirname(os.path.abspath(path))
    while anc and not os.path.isdir(anc) and os.path.dirname(anc) != anc:
        anc = os.path.dirname(anc)
    snap['ancestor'] = {'dir': anc, 'node': {k: v for k, v in _node(anc, follow=False).items() if k != 'mtime_ns'}}
    return snap


def snapshot_diff(before, after):
    """the respects in which the target's state changed: list of 'where.field: before -> after'"""
    out = []
    for part in ('node', 'resolved'):
        a, b = (before or {}).get(part) or {}, (after or {}).get(part) or {}
        if a.get('exists') and b and not b.get('exists'):
            out.append('{} DELETED (was a {} of size {}, inode {}, mode {})'.format(
                'the existing target was' if part == 'node' else 'what the symlink resolved to was', a.get('type'),
                a.get('size'), a.get('inode'), a.get('mode')))
            continue
        for k in sorted(set(a) | set(b)):
            if a.get(k) != b.get(k):
                out.append('{}.{}: {!r} -> {!r}'.format(part, k, a.get(k), b.get(k)))
    a, b = (before or {}).get('ancestor') or {}, (after or {}).get('ancestor') or {}
    if a != b:
        out.append('ancestor directory {}: listing / state {!r} -> {!r}'.format(
            a.get('dir'), (a.get('node') or {}).get('listing'), (b.get('node') or {}).get('listing')))
    return out


LAST_STATE = {}     # before / after snapshots and their differences of the most recent file_state() call (for the reports)


def fs_setup(tmp, situation, n):
    """returns (output argument or None, fs token, path to inspect or None, full snapshot of the target before or None).
    Pre-existing target STATES are a class: empty file, file with content, read-only file (with content / empty),
    directory (empty / non-empty), symlink to a file / to an empty file / to a directory / to nowhere, and paths that
    cannot be created (missing directory, parent is a file, over-long name)."""
    d = os.path.join(tmp, 'o{}'.format(n))
    os.makedirs(d)

    def ret(arg, tok, path):
        return arg, tok, path, snapshot(path)

    def mkfile(name, content, mode=None):
        q = os.path.join(d, name)
        with open(q, 'w') as f:
            f.write(content)
        if mode is not None:
            os.chmod(q, mode)
        return q
    if situation == 'stdout-default':
        return None, 'creatable', None, None
    if situation == 'stdout-dash':
        return '-', 'creatable', None, None
    if situation == 'new':
        return ret(os.path.join(d, 'out.json'), 'creatable', os.path.join(d, 'out.json'))
    if situation == 'new-relative':
        return ret(os.path.join(os.path.relpath(d, os.getcwd()), 'out file.json'), 'creatable',
                   os.path.join(d, 'out file.json'))
    if situation == 'exists':
        p = mkfile('out.json', 'OLD CONTENT {}\n'.format(n))
        return ret(p, 'exists', p)
    if situation == 'exists-empty':
        p = mkfile('empty.json', '')
        return ret(p, 'exists', p)
    if situation == 'exists-readonly':
        p = mkfile('ro.json', 'READ ONLY {}\n'.format(n), 0o444)
        return ret(p, 'exists', p)
    if situation == 'exists-empty-readonly':
        p = mkfile('ro-empty.json', '', 0o400)
        return ret(p, 'exists', p)
    if situation == 'exists-dir':
        return ret(d, 'exists', d)
    if situation == 'exists-dir-nonempty':
        q = os.path.join(d, 'results')
        os.makedirs(q)
        with open(os.path.join(q, 'kept.json'), 'w') as f:
            f.write('[]')
        return ret(q, 'exists', q)
    if situation in ('exists-symlink-file', 'exists-symlink-empty', 'exists-symlink-dir', 'exists-symlink-dangling'):
        p = os.path.join(d, 'link.json')
        if situation == 'exists-symlink-file':
            os.symlink(mkfile('target.json', 'LINKED CONTENT {}\n'.format(n)), p)
        elif situation == 'exists-symlink-empty':
            mkfile('target-empty.json', '')
            os.symlink('target-empty.json', p)          # relative link text
        elif situation == 'exists-symlink-dir':
            os.makedirs(os.path.join(d, 'tdir'))
            os.symlink(os.path.join(d, 'tdir'), p)
        else:
            os.symlink(os.path.join(d, 'nowhere.json'), p)
        return ret(p, 'exists', p)
    if situation == 'missing-dir':
        p = os.path.join(d, 'nodir', 'out.json')
        return ret(p, 'notcreatable', p)
    if situation == 'parent-is-file':
        q = os.path.join(d, 'afile')
        with open(q, 'w') as f:
            f.write('x')
        p = os.path.join(q, 'out.json')
        return ret(p, 'notcreatable', p)
    if situation == 'name-too-long':
        p = os.path.join(d, 'n' * 300 + '.json')
        return ret(p, 'notcreatable', p)
    raise ValueError(situation)


SITUATIONS = ['stdout-default', 'stdout-dash', 'new', 'new-relative', 'exists', 'exists-empty', 'exists-dir',
              'missing-dir', 'parent-is-file', 'name-too-long', 'exists-readonly', 'exists-empty-readonly',
              'exists-dir-nonempty', 'exists-symlink-file', 'exists-symlink-empty', 'exists-symlink-dir',
              'exists-symlink-dangling']


def file_state(path, before):
    """'u' the target is untouched IN EVERY RESPECT (existence, type, inode, size, mode, mtime, content, what a symlink
    resolves to, no stray entries next to it) / 'c' a new regular file was created where nothing was (its content is
    returned) / 'p' anything else.  Compares full snapshots taken from the file system before and after the command."""
    LAST_STATE.clear()
    if path is None:
        return 'u', None
    after = snapshot(path)
    diff = snapshot_diff(before, after)
    LAST_STATE.update(before=before, after=after, diff=diff)
    if not diff:
        return 'u', None
    content = after['node'].get('content') if after['node'].get('type') == 'file' else None
    if not before['node']['exists'] and after['node'].get('type') == 'file' and 'resolved' not in after and \
            before['ancestor']['dir'] == after['ancestor']['dir'] == os.path.dirname(os.path.abspath(path)) and \
            after['ancestor']['node'].get('listing') == sorted(before['ancestor']['node'].get('listing', []) +
                                                               [os.path.basename(path)]) and \
            {k: v for k, v in after['ancestor']['node'].items() if k not in ('listing', 'size')} == \
            {k: v for k, v in before['ancestor']['node'].items() if k not in ('listing', 'size')}:
        return 'c', content
    return 'p', content


def state_report():
    """what file_state() saw last, for monitor reports"""
    def brief(sn):
        if not sn:
            return None
        out = {k: v for k, v in sn['node'].items()}
        if 'resolved' in sn:
            out['resolves_to'] = sn['resolved']
        return out
    return {'target_before': brief(LAST_STATE.get('before')), 'target_after': brief(LAST_STATE.get('after')),
            'target_changes': LAST_STATE.get('diff')}


def gen_cmdline(rng, tmp, n):
    """a structured random command line; returns the recipe dict (JSON-able, replayable)"""
    cmd = rng.choice(['run', 'run', 'run-ftp'])
    code, em, dec = rng.choice(GOOD[cmd])
    bad = []
    r = rng.random()
    if r < 0.22:
        which = rng.choice(['code', 'em', 'dec'])
        base = {'code': code, 'em': em, 'dec': dec}[which].split('(')[0]
        s = rng.choice(BAD_SPECS).replace('{n}', base).replace('{N}', base.upper())
        if which == 'code':
            code = s
        elif which == 'em':
            em = s
        else:
            dec = s
        bad.append('spec:' + which)
    k = rng.choice([1, 1, 1, 2, 3, 5])
    probs = [rng.choice(GOOD_P) for _ in range(k)]
    if rng.random() < 0.2:
        probs[rng.randrange(k)] = rng.choice(BAD_P)
        bad.append('p')
    if rng.random() < 0.03:
        probs = []
        bad.append('no-p')
    opts = []   # (role, flag spelling, value text)

    def opt(role, short, long, good, badl, present, pbad):
        if rng.random() < present:
            isbad = rng.random() < pbad
            v = rng.choice(badl if isbad else good)
            if isbad:
                bad.append(role)
            style = rng.choice(['short-attached', 'short-sep', 'long-eq', 'long-sep'])
            if v.startswith('-') or v == '':
                style = rng.choice(['long-eq', 'short-attached']) if v != '' else 'long-eq'
            opts.append((role, style, short, long, v))
    opt('r', '-r', '--max-runs', GOOD_INT1, BAD_INT1, 0.6, 0.15)
    opt('f', '-f', '--max-failures', GOOD_INT1, BAD_INT1, 0.4, 0.15)
    opt('s', '-s', '--random-seed', GOOD_SEED, BAD_SEED, 0.6, 0.15)
    ts = None
    if cmd == 'run-ftp':
        opt('m', '-m', '--measurement-error-probability', GOOD_P, BAD_P, 0.5, 0.2)
        ts = rng.choice(GOOD_INT1 + ['1', '2', '3'])
        if rng.random() < 0.15:
            ts = rng.choice(BAD_INT1)
            bad.append('ts')
    rng.shuffle(opts)
    situation = rng.choice(SITUATIONS)
    return {'kind': 'cmd', 'cmd': cmd, 'code': code, 'em': em, 'dec': dec, 'ts': ts, 'probs': probs,
            'opts': [list(o) for o in opts], 'situation': situation, 'o_style': rng.choice(['-o', '--output', '-o=']),
            'o_pos': rng.random(), 'intersperse': rng.random() < 0.3, 'unser': rng.random() < 0.06, 'bad': bad, 'n': n}


def build_argv(rc, outarg):
    """returns (argv, processing order of the parameters as click derives it from the command line)"""
    pos = [rc['code']] + ([rc['ts']] if rc['cmd'] == 'run-ftp' else []) + [rc['em'], rc['dec']] + list(rc['probs'])
    groups = []   # (role, tokens) in command-line order
    for role, style, short, long, v in rc['opts']:
        if style == 'short-attached':
            g = [short + v]
        elif style == 'short-sep':
            g = [short, v]
        elif style == 'long-eq':
            g = [long + '=' + v]
        else:
            g = [long, v]
        groups.append((role, g))
    if outarg is not None:
        if rc['o_style'] == '-o=' and outarg != '':
            g = ['-o' + outarg]
        else:
            g = ['-o' if rc['o_style'] == '-o=' else rc['o_style'], outarg]
        groups.insert(int(rc['o_pos'] * (len(groups) + 1)), ('o', g))
    dashy = any(p.startswith('-') for p in pos)
    argv = [rc['cmd']]
    ordered = []
    if rc['intersperse'] and not dashy and groups:
        slots = [[] for _ in range(len(pos) + 1)]
        for j, grp in enumerate(groups):
            slots[(j * 2) % (len(pos) + 1)].append(grp)
        for si in range(len(pos) + 1):
            for role, g in slots[si]:
                argv += g
                ordered.append(role)
            if si < len(pos):
                argv.append(pos[si])
    else:
        for role, g in groups:
            argv += g
            ordered.append(role)
        if dashy:
            argv.append('--')
        argv += pos
    order = []
    for r in ordered:
        if r not in order:
            order.append(r)
    # click: supplied options in command-line order, then the arguments in declaration order, then the rest
    args_order = ['code'] + (['ts'] if rc['cmd'] == 'run-ftp' else []) + ['em', 'dec', 'probs']
    decl_opts = ['f', 'r'] + (['m'] if rc['cmd'] == 'run-ftp' else []) + ['o', 's']
    return argv, order + args_order + [o for o in decl_opts if o not in order]


def run_cmd_case(rc, tmp, split_of=None, driver=None):
    """execute one recipe against the real CLI in sentinel mode; returns (model line, impl string, monitor failures)"""
    from qecsim import cli
    outarg, fstok, path, before = fs_setup(tmp, rc['situation'], rc['n'])
    argv, order = build_argv(rc, outarg)
    rec = Rec()
    fake = make_fake(rec, rc['unser'])
    with instrument(rec, fake=fake):
        res, tb, err = invoke(argv)
    hit = pwned()
    fstate, content = file_state(path, before)
    seen_state = state_report()
    # expected JSON text of what the sentinel returned
    payload = [{'sentinel': i + 1, 'error_probability': s['p'], 'n_run': 3, 'tup': [1, 2]}
               for i, s in enumerate(rec.sims) if not s.get('refused')]
    pj = json.dumps(payload, sort_keys=True)
    evs = ','.join(rec.events) or '_'
    usage = (res.exit_code == 2 and not tb and 'Usage:' in err and 'Error:' in err)
    if usage and not rec.sims and res.stdout == '':
        impl = 'usage ev=' + evs
    else:
        so = '1' if res.stdout == pj + '\n' else ('0' if res.stdout == '' else 'X')
        fl = {'u': 'u', 'p': 'p'}.get(fstate) or ('c' if content == pj else 'p')
        lg = '1' if any(pj in m for m in rec.logs) else '0'
        calls = ';'.join(':'.join([ftok(s['p']), core.opt(s['ts']),
                                   core.opt(s['m'], ftok), core.opt(s['r']), core.opt(s['f']),
                                   core.opt(s['s'])]) for s in rec.sims) or '_'
        impl = 'ran ev={} calls={} so={} file={} log={} exit={} tb={}'.format(evs, calls, so, fl, lg, res.exit_code,
                                                                              int(tb))
    # ---- model line
    line = None
    if split_of is not None:
        ptypes = {ROLE_OF[p.name]: p.type for p in cli.cli.commands[rc['cmd']].params if p.name in ROLE_OF}
        parts = []
        for role, text in (('code', rc['code']), ('em', rc['em']), ('dec', rc['dec'])):
            ms = split_of[text]
            margs = None
            if ms != 'nomatch' and ms.split()[1] not in ('N', '-'):
                margs = bytes.fromhex(ms.split()[1]).decode('latin-1')
            tok = argtok(margs) if margs else 'tuple'
            raised = any(r for ro, _, r in rec.ctors if ro == role)
            parts += [','.join(sorted(ptypes[role]._constructors)) or '_',
                      '{}:{}:{}'.format(hexs(text), tok, 'raises' if raised else 'ok')]
        ov = {r: v for r, _, _, _, v in rc['opts']}     # last occurrence wins (roles occur once)
        line = 'c19 cmd {} {} {} {} {} {} {} {} {} {} {} {}'.format(
            'run' if rc['cmd'] == 'run' else 'ftp', ','.join(order), ' '.join(parts),
            inttok(rc['ts']) if rc['ts'] is not None else 'N',
            ','.join(floattok(p) for p in rc['probs']) or '_',
            inttok(ov['f']) if 'f' in ov else 'N', inttok(ov['r']) if 'r' in ov else 'N',
            inttok(ov['s']) if 's' in ov else 'N', floattok(ov['m']) if 'm' in ov else 'N',
            'stdout' if outarg in (None, '-') else 'path', fstok, 0 if rc['unser'] else 1)
    # ---- the property itself (independent of the model)
    fails = []
    inp = dict(rc)
    inp['argv'] = argv
    if hit:
        fails.append(('argument text was EVALUATED as code (side effect observed)', 'code-evaluated'))
    if rc['bad']:
        if not usage or tb or rec.sims or res.stdout != '':
            done = [x for x in rec.sims if not x.get('refused')]
            kept = [w for w, ok in (('stdout', pj in res.stdout), ('file', content is not None and pj in content),
                                    ('log', any(pj in m for m in rec.logs))) if ok] if done else []
            lost = ('; {} simulation(s) for the earlier probabilities had completed and their results are {}'.format(
                len(done), 'only in ' + str(kept) if kept else 'LOST (not on stdout, not in the file, not on the log)')
                    if done else '')
            fails.append(('malformed / out-of-range argument {} did not end in a clean usage error: exit={} '
                          'traceback={} simulation calls={} (arguments handed to the API: {}){}'.format(
                              rc['bad'], res.exit_code, tb, len(rec.sims),
                              [{k: x[k] for k in ('p', 'm', 'ts', 'r', 'f', 's') if x[k] is not None}
                               for x in rec.sims][:4], lost),
                          'invalid-not-usage-error'))
        if fstate != 'u':
            fails.append(('usage error but the output path was touched: {}'.format('; '.join(seen_state['target_changes'])),
                          'usage-touches-file'))
    else:
        # accepted: one simulation per probability, in order, with exactly the options given
        ov = {r: v for r, _, _, _, v in rc['opts']}
        want = [{'p': float(p), 'ts': int(rc['ts']) if rc['cmd'] == 'run-ftp' else None,
                 'm': float(ov['m']) if 'm' in ov else None, 'r': int(ov['r']) if 'r' in ov else None,
                 'f': int(ov['f']) if 'f' in ov else None, 's': int(ov['s']) if 's' in ov else None}
                for p in rc['probs']]
        got = [{k: s[k] for k in ('p', 'ts', 'm', 'r', 'f', 's')} for s in rec.sims]
        if usage and not rec.sims:
            fails.append(('a command line whose parameters are all in their documented ranges is refused with a '
                          'usage error: ' + err.strip().splitlines()[-1][:200], 'valid-rejected'))
        elif got != want:
            fails.append(('CLI does not delegate to the API with the given arguments: calls {} expected {}'.format(
                got, want), 'delegation-differs'))
        if not rc['unser']:
            where = [w for w, ok in (('stdout', res.stdout == pj + '\n'), ('file', fstate == 'c' and content == pj),
                                     ('log', any(pj in m for m in rec.logs))) if ok]
            if len(where) != 1:
                fails.append(('results dropped or duplicated: payload found in {} (exit {}, file state {})'.format(
                    where, res.exit_code, fstate), 'results-dropped'))
            if outarg in (None, '-'):
                if where != ['stdout'] or res.exit_code != 0:
                    fails.append(('stdout target: payload in {} exit {}'.format(where, res.exit_code),
                                  'stdout-protocol'))
            elif fstok == 'creatable':
                if where != ['file'] or res.exit_code != 0 or res.stdout != '':
                    fails.append(('new output file: payload in {} exit {}'.format(where, res.exit_code),
                                  'newfile-protocol'))
            else:
                if fstate != 'u':
                    fails.append(('existing / uncreatable output path was modified ({}): {}'.format(
                        rc['situation'], '; '.join(seen_state['target_changes'])), 'existing-file-modified'))
                if where != ['log'] or res.exit_code == 0 or tb:
                    fails.append(('output path {}: payload in {} exit {} traceback {} (must be on the error log, '
                                  'exit != 0)'.format(rc['situation'], where, res.exit_code, tb), 'results-dropped'))
    if fails and path is not None:
        inp = dict(inp, target=path, **seen_state)
    return line, impl, [(w, k, inp) for w, k in fails]


def part_b(ctx, tmp):
    rng = ctx.rng
    recipes = [gen_cmdline(rng, tmp, n) for n in range(ctx.scale(700, 12000))]
    # a deterministic sweep: every output situation x {run, run-ftp} x serialisable / not, all parameters valid
    n = len(recipes)
    for cmd in ('run', 'run-ftp'):
        for sit in SITUATIONS:
            for unser in (False, True):
                code, em, dec = GOOD[cmd][0]
                recipes.append({'kind': 'cmd', 'cmd': cmd, 'code': code, 'em': em, 'dec': dec,
                                'ts': '2' if cmd == 'run-ftp' else None, 'probs': ['0.1', '0.2'],
                                'opts': [['r', 'short-attached', '-r', '--max-runs', '2'],
                                         ['s', 'short-sep', '-s', '--random-seed', '7']],
                                'situation': sit, 'o_style': '-o', 'o_pos': 0.0, 'intersperse': False,
                                'unser': unser, 'bad': [], 'n': n})
                n += 1
    recipes += spelling_recipes(n)
    texts = sorted(set(t for rc in recipes for t in (rc['code'], rc['em'], rc['dec'])))
    split_of = dict(zip(texts, ctx.driver.ask(['c19 split ' + hexs(t) for t in texts])))
    for rc in recipes:
        line, impl, fails = run_cmd_case(rc, tmp, split_of)
        shutil.rmtree(os.path.join(tmp, 'o{}'.format(rc['n'])), ignore_errors=True)
        ctx.case(line, impl, nontrivial=bool(rc['bad']) or not rc['situation'].startswith('stdout') or
                 len(rc['probs']) > 1, meta=rc)
        for what, key, inp in fails:
            ctx.monitor_fail(what, inp, key=key)
        ctx.count('cmd', rc['cmd'])
        ctx.count('situation', rc['situation'])
        ctx.count('invalid', '+'.join(sorted(set(rc['bad']))) or 'none')
        ctx.count('outcome', impl.split()[0] + (' ' + ' '.join(impl.split()[3:]) if impl.startswith('ran') else ''))
        ctx.count('n_probs', len(rc['probs']))
        ctx.count('generator', 'spelling-sweep' if rc.get('sweep') else 'random/protocol')
    # the same value texts through the real click parameter alone (conversion + validator), against the model validator
    for t in FLOAT_SPELLINGS:
        param_case(ctx, 'run', 'probs', t)
        param_case(ctx, 'run-ftp', 'probs', t)
        param_case(ctx, 'run-ftp', 'm', t)
    for t in INT_SPELLINGS:
        for cmd in ('run', 'run-ftp'):
            for role in ('r', 'f', 's'):
                param_case(ctx, cmd, role, t)
        param_case(ctx, 'run-ftp', 'ts', t)
    return len(recipes)


def merge_case(ctx, tmp, n, files, situation, rng):
    """files: list of 'ok' | 'missing' | 'dir' | 'badjson' tokens; real merge command, real app.merge"""
    from qecsim import app
    d = os.path.join(tmp, 'm{}'.format(n))
    os.makedirs(d)
    paths, datas = [], []
    for i, t in enumerate(files):
        p = os.path.join(d, 'in{}.json'.format(i))
        if t == 'ok':
            data = [{'code': 'c', 'n_k_d': [5, 1, 3], 'error_model': 'e', 'decoder': 'd',
                     'error_probability': rng.choice([0.1, 0.2]), 'time_steps': 1,
                     'measurement_error_probability': 0.0, 'n_run': rng.randint(1, 9), 'n_success': 1, 'n_fail': 2,
                     'error_weight_total': rng.randint(0, 20), 'wall_time': 0.5,
                     'n_logical_commutations': [1, 2], 'custom_totals': None}]
            with open(p, 'w') as f:
                json.dump(data, f)
            datas.append(data)
        elif t == 'dir':
            os.makedirs(p)
        elif t == 'badjson':
            with open(p, 'w') as f:
                f.write(rng.choice(['{"a": ', '', '[1, 2', 'nope']))
        paths.append(p)
    outarg, fstok, path, before = fs_setup(tmp, situation, 'm{}'.format(n))
    argv = ['merge'] + (['-o', outarg] if outarg is not None else []) + paths
    rec = Rec()
    with instrument(rec):
        res, tb, err = invoke(argv)
    fstate, content = file_state(path, before)
    seen_state = state_report()
    valid = files and all(t == 'ok' for t in files)
    pj = json.dumps(app.merge(*datas), sort_keys=True) if valid else None
    if res.exit_code == 2 and not tb and 'Usage:' in err:
        impl = 'usage'
    elif res.exit_code == 1 and not tb and 'failed to parse JSON data' in err and res.stdout == '' and \
            fstate == 'u' and not rec.logs:
        impl = 'badjson'
    else:
        so = '1' if pj is not None and res.stdout == pj + '\n' else ('0' if res.stdout == '' else 'X')
        fl = {'u': 'u', 'p': 'p'}.get(fstate) or ('c' if content == pj else 'p')
        lg = '1' if pj is not None and any(pj in m for m in rec.logs) else '0'
        impl = 'ran so={} file={} log={} exit={} tb={}'.format(so, fl, lg, res.exit_code, int(tb))
    line = 'c19 merge {} {} {} 1'.format(','.join(files) or '_', 'stdout' if outarg in (None, '-') else 'path', fstok)
    meta = {'kind': 'merge', 'files': files, 'situation': situation}
    ctx.case(line, impl, nontrivial=True, meta=meta)
    ctx.count('merge-outcome', impl.split()[0])
    if valid:
        where = [w for w, ok in (('stdout', res.stdout == pj + '\n'), ('file', fstate == 'c' and content == pj),
                                 ('log', any(pj in m for m in rec.logs))) if ok]
        okk = (where == ['stdout'] and res.exit_code == 0) if outarg in (None, '-') else \
            (where == ['file'] and res.exit_code == 0) if fstok == 'creatable' else \
            (where == ['log'] and res.exit_code != 0 and fstate == 'u' and not tb)
        if not okk:
            if fstok != 'creatable' and outarg not in (None, '-') and fstate != 'u':
                ctx.monitor_fail('merge: existing / uncreatable output path was modified ({}): {}'.format(
                    situation, '; '.join(seen_state['target_changes'])), dict(meta, argv=argv, target=path, **seen_state),
                    key='existing-file-modified')
            else:
                ctx.monitor_fail('merge: merged data dropped / misplaced: found in {} exit {} file state {}'.format(
                    where, res.exit_code, fstate), dict(meta, argv=argv), key='merge-results-dropped')
    elif path is not None and fstate != 'u' and fstok != 'creatable':
        # refused inputs (missing / unreadable / bad JSON): whatever happens, an existing target stays as it was
        ctx.monitor_fail('merge with unusable input files modified the existing output path ({}): {}'.format(
            situation, '; '.join(seen_state['target_changes'])), dict(meta, argv=argv, target=path, **seen_state),
            key='existing-file-modified')
    shutil.rmtree(d, ignore_errors=True)
    shutil.rmtree(os.path.join(tmp, 'om{}'.format(n)), ignore_errors=True)


# ------------------------------------------------------------------------------------------ (c) CLI == API

CODES_FOR = {'color666.mps': ['color666(3)', 'color666( 5 )'], 'generic.naive': ['five_qubit', 'steane()', 'planar(2,2)'],
             'planar.cmwpm': ['planar(3,3)'], 'planar.mps': ['planar(3,3)', 'planar(2,4,)'],
             'planar.mwpm': ['planar(3,3)', 'planar(4,3)'], 'planar.rmps': ['planar(3,3)'], 'planar.y': ['planar(3,3)'],
             'rotated_planar.mps': ['rotated_planar(3,3)'], 'rotated_planar.rmps': ['rotated_planar(3,5)'],
             'rotated_planar.smwpm': ['rotated_planar(3,3)', 'rotated_planar(5,3)'],
             'rotated_toric.smwpm': ['rotated_toric(2,2)', 'rotated_toric(4,2)'], 'toric.mwpm': ['toric(3,3)', 'toric(2,4)']}
DEC_ARGS = {'color666.mps': ['(8)', ''], 'generic.naive': ['', '(10)'], 'planar.cmwpm': ['', '(2,3)'],
            'planar.mps': ['(6)', "(None,'r')"], 'planar.mwpm': [''], 'planar.rmps': ['(6)', ''], 'planar.y': [''],
            'rotated_planar.mps': ['(6)', ''], 'rotated_planar.rmps': ['(6)'], 'rotated_planar.smwpm': ['', '(10)'],
            'rotated_toric.smwpm': ['', '(10)'], 'toric.mwpm': ['', '()']}
EM_ARGS = {'generic.biased_depolarizing': ["(10,'Z')", '(3)', "(0.5, 'X')"], 'generic.biased_y_x': ['(10)'],
           'generic.bit_flip': ['', '()'], 'generic.bit_phase_flip': [''], 'generic.depolarizing': ['', '( )'],
           'generic.phase_flip': [''], 'generic.center_slice': ['((0.2,0.8,0),0.5)', '((1,0,0),-0.5)']}
SMWPM_OK = ('generic.biased_depolarizing', 'generic.bit_phase_flip', 'generic.depolarizing', 'generic.center_slice')


def parse_spec_api(text, classes):
    """independent of cli.py: the reader's translation of `name(args)` into an API constructor call"""
    name, _, rest = text.partition('(')
    args = ()
    if rest:
        inner = rest.rstrip()[:-1].strip()
        if inner.endswith(','):
            inner = inner[:-1].rstrip()
        if inner:
            args = ast.literal_eval(inner + ',')
    return classes[name.strip()](*args)


def strip_wall(data):
    out = []
    for d in data:
        d = dict(d)
        wt = d.pop('wall_time', None)
        out.append(d)
        if not (isinstance(wt, float) and wt >= 0):
            out.append({'bad-wall_time': repr(wt)})
    return out


RUN_KEYS = {'code', 'n_k_d', 'time_steps', 'error_model', 'decoder', 'error_probability',
            'measurement_error_probability', 'n_run', 'n_success', 'n_fail', 'n_logical_commutations',
            'custom_totals', 'error_weight_total', 'error_weight_pvar', 'logical_failure_rate',
            'physical_error_rate', 'wall_time'}


def api_call(rc, classes):
    """the API result for a differential recipe (fresh model objects)"""
    from qecsim import app
    code = parse_spec_api(rc['code'], classes['code'])
    em = parse_spec_api(rc['em'], classes['em'])
    dec = parse_spec_api(rc['dec'], classes['dec'])
    out = []
    for p in rc['probs']:
        if rc['cmd'] == 'run':
            out.append(app.run(code, em, dec, float(p), max_runs=rc['r'], max_failures=rc['f'], random_seed=rc['s']))
        else:
            out.append(app.run_ftp(code, rc['ts'], em, dec, float(p), measurement_error_probability=rc['m'],
                                   max_runs=rc['r'], max_failures=rc['f'], random_seed=rc['s']))
    return out


def diff_argv(rc, outarg=None):
    argv = [rc['cmd']]
    if rc['r'] is not None:
        argv.append('-r{}'.format(rc['r']))
    if rc['f'] is not None:
        argv += ['--max-failures', str(rc['f'])]
    if rc['s'] is not None:
        argv += ['-s', str(rc['s'])]
    if rc.get('m') is not None:
        argv.append('-m{}'.format(rc['m']))
    if outarg is not None:
        argv += ['-o', outarg]
    argv.append(rc['code'])
    if rc['cmd'] == 'run-ftp':
        argv.append(str(rc['ts']))
    argv += [rc['em'], rc['dec']] + [str(p) for p in rc['probs']]
    return argv


def diff_recipes(ctx, file_em):
    rng = ctx.rng
    regs = registries()
    out = []
    run_decs = sorted(regs[('run', 'dec')][0])
    run_ems = sorted(regs[('run', 'em')][0])
    for dn in run_decs:
        for en in run_ems:
            if en == 'generic.file':
                continue
            if dn.endswith('smwpm') and en not in SMWPM_OK:
                continue
            codes = CODES_FOR.get(dn)
            if not codes:
                continue
            for code in (codes if not ctx.quick() else [rng.choice(codes)]):
                out.append({'kind': 'diff', 'cmd': 'run', 'code': code, 'em': en + rng.choice(EM_ARGS.get(en, [''])),
                            'dec': dn + rng.choice(DEC_ARGS.get(dn, [''])),
                            'probs': rng.choice([['0.1'], ['0.15', '0.05'], ['0.3', '0.0', '1e-2']]),
                            'r': rng.choice([1, 3, 5]), 'f': rng.choice([None, None, 1, 2]), 's': rng.randrange(1000),
                            'ts': None, 'm': None})
    # default max_runs (neither -r nor -f), and the file error model
    out.append({'kind': 'diff', 'cmd': 'run', 'code': 'five_qubit', 'em': 'generic.depolarizing', 'dec': 'generic.naive',
                'probs': ['0.2'], 'r': None, 'f': None, 's': 5, 'ts': None, 'm': None})
    out.append({'kind': 'diff', 'cmd': 'run', 'code': 'five_qubit', 'em': 'generic.file("{}", 2)'.format(file_em),
                'dec': 'generic.naive', 'probs': ['0.4'], 'r': 4, 'f': None, 's': 5, 'ts': None, 'm': None})
    for dn in sorted(regs[('run-ftp', 'dec')][0]):
        for en in sorted(regs[('run-ftp', 'em')][0]):
            if en not in SMWPM_OK:
                continue
            codes = CODES_FOR.get(dn)
            if not codes:
                continue
            for code in (codes if not ctx.quick() else [rng.choice(codes)]):
                out.append({'kind': 'diff', 'cmd': 'run-ftp', 'code': code,
                            'em': en + rng.choice(EM_ARGS.get(en, [''])), 'dec': dn + rng.choice(DEC_ARGS.get(dn, [''])),
                            'probs': rng.choice([['0.05'], ['0.1', '0.02']]), 'r': rng.choice([1, 2, 3]),
                            'f': rng.choice([None, 1]), 's': rng.randrange(1000), 'ts': rng.choice([1, 2, 3]),
                            'm': rng.choice([None, None, 0.0, 0.05, 0.1])})
    return out


def classes_for(cmd):
    regs = registries()
    return {role: {n: ep.load() for n, ep in regs[(cmd, role)][0].items()} for role in ('code', 'em', 'dec')}


def run_diff_case(rc, timeout=60):
    """returns (ok, what, details): CLI (in-process, real simulation) against the API for one recipe"""
    classes = classes_for(rc['cmd'])
    import random as pyrandom
    try:
        with core.TimeLimit(timeout):
            pyrandom.seed(19)      # PlanarYDecoder breaks coset ties with the GLOBAL `random`: same stream for both
            api = api_call(rc, classes)
    except core.TimeLimit.Expired:
        return None, 'timeout', None
    except Exception as ex:
        return None, 'api-raises ' + type(ex).__name__, None     # incompatible combination: outside the property
    try:
        api_json = json.loads(json.dumps(api, sort_keys=True))
    except TypeError as ex:
        return False, 'API aggregate is not JSON-serialisable: {}'.format(ex), None
    rec = Rec()
    with instrument(rec):
        with core.TimeLimit(timeout):
            pyrandom.seed(19)
            res, tb, err = invoke(diff_argv(rc))
    if res.exit_code != 0 or tb:
        return False, 'CLI exit {} (traceback={}: {!r}) where the API returns a result'.format(
            res.exit_code, tb, res.exception), None
    try:
        cli_json = json.loads(res.stdout)
    except ValueError:
        return False, 'CLI stdout is not JSON: {!r}'.format(res.stdout[:200]), None
    if not isinstance(cli_json, list) or any(set(d) != RUN_KEYS for d in cli_json):
        return False, 'CLI output records do not have the documented keys', None
    a, b = strip_wall(cli_json), strip_wall(api_json)
    if a != b:
        diffs = [(i, k, x.get(k), y.get(k)) for i, (x, y) in enumerate(zip(a, b)) for k in sorted(set(x) | set(y))
                 if x.get(k) != y.get(k)]
        return False, 'CLI JSON differs from the API result for the same seed: {}'.format(
            diffs[:4] or 'lengths {} vs {}'.format(len(a), len(b))), None
    return True, 'equal', cli_json


def run_merge_roundtrip(tmp, tag, datas):
    """CLI outputs -> files -> `qecsim merge` == app.merge of the parsed outputs (and of the API results)"""
    from qecsim import app
    d = os.path.join(tmp, 'rt{}'.format(tag))
    os.makedirs(d)
    try:
        paths = []
        for i, data in enumerate(datas):
            p = os.path.join(d, 'd{}.json'.format(i))
            with open(p, 'w') as f:
                json.dump(data, f, sort_keys=True)
            paths.append(p)
        rec = Rec()
        with instrument(rec):
            res, tb, err = invoke(['merge'] + paths)
        if res.exit_code != 0 or tb:
            return 'merge of CLI outputs fails: exit {} {!r}'.format(res.exit_code, res.exception)
        got = json.loads(res.stdout)
        want = json.loads(json.dumps(app.merge(*datas), sort_keys=True))
        if got != want:
            return 'qecsim merge differs from app.merge on CLI outputs'
        # lossless: totals conserved
        for k in ('n_run', 'n_success', 'n_fail', 'error_weight_total'):
            if sum(r[k] for r in got) != sum(r[k] for dd in datas for r in dd):
                return 'merge of CLI outputs does not conserve ' + k
        # ... group by group, arrays included, judged independently of app.merge (see part (f))
        return merge_oracle_judge(json.loads(json.dumps(datas)), got)
    finally:
        shutil.rmtree(d, ignore_errors=True)


def part_c(ctx, tmp, file_em):
    recipes = diff_recipes(ctx, file_em)
    n_ok = n_skip = 0
    outputs = []
    for i, rc in enumerate(recipes):
        ok, what, data = run_diff_case(rc)
        ctx.count('diff', '{} {}'.format(rc['cmd'], what if ok is None else ('equal' if ok else 'DIFF')))
        ctx.count('diff-decoder', rc['dec'].split('(')[0])
        ctx.count('diff-error-model', rc['em'].split('(')[0])
        if ok is None:
            n_skip += 1
            continue
        if not ok:
            ctx.monitor_fail(what, dict(rc, argv=diff_argv(rc)), key='cli-api-differ')
            continue
        n_ok += 1
        outputs.append(data)
    # round trip: pairs / triples of CLI outputs (including the same file twice) through merge
    rng = ctx.rng
    n_rt = 0
    for t in range(ctx.scale(25, 200)):
        if not outputs:
            break
        pick = [rng.choice(outputs) for _ in range(rng.choice([1, 2, 2, 3]))]
        if rng.random() < 0.3:
            pick.append(pick[0])
        bad = run_merge_roundtrip(tmp, t, pick)
        n_rt += 1
        if bad:
            ctx.monitor_fail(bad, {'kind': 'roundtrip', 'datas': pick}, key='merge-roundtrip')
    return len(recipes), n_ok, n_skip, n_rt


# ------------------------------------------------------------------------------------------ real subprocesses

def sub_env():
    env = dict(os.environ)
    env['PYTHONPATH'] = os.path.join(core.REPO, 'src') + (os.pathsep + env['PYTHONPATH'] if env.get('PYTHONPATH')
                                                          else '')
    env['PYTHONWARNINGS'] = 'ignore'
    env.pop('QECSIM_CFG', None)
    return env


def launcher(kind):
    script = os.path.join(os.path.dirname(sys.executable), 'qecsim')
    if kind == 'script' and os.path.exists(script):
        return [script]
    return [sys.executable, '-m', 'qecsim']


def part_d(ctx, tmp):
    """end-to-end through real processes: stdout / stderr / exit status / files"""
    from qecsim import app
    d = os.path.join(tmp, 'sub')
    os.makedirs(d)
    env = sub_env()
    chk = subprocess.run([sys.executable, '-c', 'import qecsim,os;print(os.path.realpath(os.path.dirname(qecsim.__file__)))'],
                         env=env, cwd=d, stdout=subprocess.PIPE, stderr=subprocess.DEVNULL, text=True, timeout=120)
    if chk.stdout.strip().splitlines()[-1:] != [os.path.realpath(os.path.join(core.REPO, 'src', 'qecsim'))]:
        raise core.Infra('subprocess qecsim resolves to {!r}'.format(chk.stdout))
    existing = os.path.join(d, 'existing.json')
    with open(existing, 'w') as f:
        f.write('PRECIOUS\n')
    empty = os.path.join(d, 'reserved-empty.json')      # e.g. a placeholder made by mktemp / touch
    open(empty, 'w').close()
    dangling = os.path.join(d, 'dangling-link.json')
    os.symlink(os.path.join(d, 'not-there.json'), dangling)
    targets_before = {'existing-file': snapshot(existing), 'existing-empty': snapshot(empty),
                      'existing-dangling-symlink': snapshot(dangling)}
    pwn_file = os.path.join(d, 'pwned')
    rc1 = {'kind': 'diff', 'cmd': 'run', 'code': 'five_qubit', 'em': 'generic.depolarizing', 'dec': 'generic.naive',
           'probs': ['0.2', '0.4'], 'r': 5, 'f': None, 's': ctx.rng.randrange(100), 'ts': None, 'm': None}
    rc2 = {'kind': 'diff', 'cmd': 'run', 'code': 'toric(3,3)', 'em': "generic.biased_depolarizing(10, 'Z')",
           'dec': 'toric.mwpm', 'probs': ['0.2'], 'r': 4, 'f': 2, 's': ctx.rng.randrange(100), 'ts': None, 'm': None}
    rc3 = {'kind': 'diff', 'cmd': 'run-ftp', 'code': 'rotated_planar(3,3)', 'em': 'generic.depolarizing',
           'dec': 'rotated_planar.smwpm', 'probs': ['0.1'], 'r': 3, 'f': None, 's': ctx.rng.randrange(100), 'ts': 2,
           'm': 0.05}
    jobs = [
        ('stdout', 'module', diff_argv(rc1), rc1, None),
        ('new-file', 'script', diff_argv(rc2, os.path.join(d, 'new.json')), rc2, os.path.join(d, 'new.json')),
        ('existing-file', 'module', diff_argv(rc1, existing), rc1, existing),
        ('existing-empty', 'module', diff_argv(rc1, empty), rc1, empty),
        ('existing-dangling-symlink', 'script', diff_argv(rc1, dangling), rc1, dangling),
        ('missing-dir', 'script', diff_argv(rc3, os.path.join(d, 'no', 'such', 'out.json')), rc3, None),
        ('ftp-stdout', 'module', diff_argv(rc3), rc3, None),
        ('nonliteral', 'module', ['run', "five_qubit(__import__('pathlib').Path({!r}).touch())".format(pwn_file),
                                  'generic.depolarizing', 'generic.naive', '0.1'], None, None),
        ('bad-p', 'script', ['run', 'five_qubit', 'generic.depolarizing', 'generic.naive', '0.1', '1.5'], None, None),
        ('bad-r', 'module', ['run', '-r0', 'five_qubit', 'generic.depolarizing', 'generic.naive', '0.1'], None, None),
        ('bad-ts', 'module', ['run-ftp', 'rotated_planar(3,3)', '0', 'generic.depolarizing', 'rotated_planar.smwpm',
                              '0.1'], None, None),
        ('bad-m', 'script', ['run-ftp', '-m', '2', 'rotated_planar(3,3)', '1', 'generic.depolarizing',
                             'rotated_planar.smwpm', '0.1'], None, None),
        ('nan', 'module', ['run', 'five_qubit', 'generic.depolarizing', 'generic.naive', 'nan'], None, None),
        ('nan-after-valid', 'module', ['run', '-r3', '-s1', 'five_qubit', 'generic.depolarizing', 'generic.naive', '0.1',
                                       'NaN'], None, None),
        ('inf-after-valid', 'script', ['run', '-r2', 'steane', 'generic.bit_flip', 'generic.naive', '0.2', 'Infinity'],
         None, None),
        ('ftp-nan', 'script', ['run-ftp', 'rotated_planar(3,3)', '2', 'generic.bit_phase_flip', 'rotated_planar.smwpm',
                               '0.05', '-nan'], None, None),
        ('ftp-m-nan', 'module', ['run-ftp', '-m', 'nan', 'rotated_planar(3,3)', '2', 'generic.bit_phase_flip',
                                 'rotated_planar.smwpm', '0.05'], None, None),
        ('ftp-m-neg-nan', 'module', ['run-ftp', '--measurement-error-probability=-nan', 'rotated_planar(3,3)', '2',
                                     'generic.bit_phase_flip', 'rotated_planar.smwpm', '0.05'], None, None),
        ('ftp-m-overflow', 'script', ['run-ftp', '-m1e400', 'rotated_planar(3,3)', '2', 'generic.bit_phase_flip',
                                      'rotated_planar.smwpm', '0.05'], None, None),
    ]
    procs = []
    for name, kind, argv, rc, path in jobs:
        procs.append((name, argv, rc, path, subprocess.Popen(launcher(kind) + argv, env=env, cwd=d,
                                                             stdout=subprocess.PIPE, stderr=subprocess.PIPE,
                                                             text=True)))
    results = {}
    for name, argv, rc, path, p in procs:
        try:
            so, se = p.communicate(timeout=300)
        except subprocess.TimeoutExpired:
            p.kill()
            raise core.Infra('subprocess timeout: ' + name)
        results[name] = (p.returncode, so, se)
        ctx.count('subprocess', '{} exit={}'.format(name, p.returncode))
    classes = {c: classes_for(c) for c in ('run', 'run-ftp')}

    def api_json(rc):
        return strip_wall(json.loads(json.dumps(api_call(rc, classes[rc['cmd']]), sort_keys=True)))

    def fail(what, name, key):
        rcode, so, se = results[name]
        argv = next(j[2] for j in jobs if j[0] == name)
        ctx.monitor_fail(what, {'kind': 'subprocess', 'name': name, 'argv': argv, 'exit': rcode,
                                'stdout': so[-400:], 'stderr': se[-600:]}, key=key)
    n = 0
    # stdout runs
    for name, rc in (('stdout', rc1), ('ftp-stdout', rc3)):
        rcode, so, se = results[name]
        n += 1
        try:
            ok = rcode == 0 and strip_wall(json.loads(so)) == api_json(rc)
        except ValueError:
            ok = False
        if not ok:
            fail('subprocess CLI output differs from the API result for the same seed', name, 'cli-api-differ')
    # new file
    rcode, so, se = results['new-file']
    n += 1
    newp = os.path.join(d, 'new.json')
    try:
        ok = rcode == 0 and so == '' and strip_wall(json.load(open(newp))) == api_json(rc2)
    except (ValueError, OSError):
        ok = False
    if not ok:
        fail('subprocess -o new file: file content differs from the API result / non-zero exit', 'new-file',
             'newfile-protocol')
    # existing file and missing directory: untouched, data on stderr log, exit != 0, no traceback
    for name, rc in (('existing-file', rc1), ('existing-empty', rc1), ('existing-dangling-symlink', rc1),
                     ('missing-dir', rc3)):
        rcode, so, se = results[name]
        n += 1
        logged = None
        for l in se.splitlines():
            if l.startswith('[{'):
                try:
                    logged = strip_wall(json.loads(l))
                except ValueError:
                    pass
        untouched = open(existing).read() == 'PRECIOUS\n' and not os.path.exists(os.path.join(d, 'no'))
        if name in targets_before:      # the target's full state (existence, inode, size, mode, mtime, content, link)
            path = next(j[4] for j in jobs if j[0] == name)
            changes = [c for c in snapshot_diff(targets_before[name], snapshot(path)) if not c.startswith('ancestor')]
            if changes:
                rcode_, so_, se_ = results[name]
                ctx.monitor_fail('subprocess -o {}: the existing output path was modified: {}'.format(
                    name, '; '.join(changes)), {'kind': 'subprocess', 'name': name,
                                                'argv': next(j[2] for j in jobs if j[0] == name), 'exit': rcode_,
                                                'target': path, 'target_changes': changes, 'stderr': se_[-400:]},
                    key='existing-file-modified')
                untouched = True    # reported above with the concrete change; the remaining clauses are still checked
        if not (rcode != 0 and 'Traceback' not in se and untouched and logged == api_json(rc) and so == ''
                and 'recovered data' in se):
            fail('subprocess -o {}: results not preserved on the error log / file modified / zero exit'.format(name),
                 name, 'results-dropped')
    # malformed
    for name in ('nonliteral', 'bad-p', 'bad-r', 'bad-ts', 'bad-m', 'nan', 'nan-after-valid', 'inf-after-valid',
                 'ftp-nan', 'ftp-m-nan', 'ftp-m-neg-nan', 'ftp-m-overflow'):
        rcode, so, se = results[name]
        n += 1
        if not (rcode == 2 and 'Traceback' not in se and 'Usage:' in se and so == ''):
            fail('malformed argument does not end in a usage error (exit 2, no traceback, no output)', name,
                 'invalid-not-usage-error')
    if os.path.exists(pwn_file):
        fail('argument text was EVALUATED as code (file touched by the argument expression)', 'nonliteral',
             'code-evaluated')
    # merge round trip through a real process
    if os.path.exists(newp) and results['stdout'][0] == 0:
        with open(os.path.join(d, 'first.json'), 'w') as f:
            f.write(results['stdout'][1])
        p = subprocess.run(launcher('module') + ['merge', 'first.json', newp, 'first.json'], env=env, cwd=d,
                           stdout=subprocess.PIPE, stderr=subprocess.PIPE, text=True, timeout=300)
        n += 1
        results['merge'] = (p.returncode, p.stdout, p.stderr)
        jobs.append(('merge', 'module', ['merge', 'first.json', newp, 'first.json'], None, None))
        try:
            a = json.loads(results['stdout'][1])
            b = json.load(open(newp))
            want = json.loads(json.dumps(app.merge(a, b, a), sort_keys=True))
            ok = p.returncode == 0 and json.loads(p.stdout) == want
        except ValueError:
            ok = False
        if not ok:
            fail('subprocess merge of CLI outputs differs from app.merge', 'merge', 'merge-roundtrip')
        else:
            bad = merge_oracle_judge([a, b, a], json.loads(p.stdout))
            if bad:
                fail('subprocess ' + bad, 'merge', 'merge-not-lossless')
    return n


# ------------------------------------------ (f) `qecsim merge` of real CLI outputs against an INDEPENDENT oracle

# "CLI outputs merge back losslessly" is not a CLI-vs-API statement (cli.merge delegates to app.merge: the two agree on
# whatever app.merge answers); it is judged here against (1) the property evaluated directly on the loaded input records
# (qv.props.c05.judge: one output group per distinct seven-field key, every summed scalar AND array field of a group
# equal to the sum over exactly that group's input records, rates recomputed from the sums) and (2) the Lean model of
# merge (Model/Merge.lean through the `c05 merge` driver op, incl. output order).  The inputs are files written by real
# `qecsim run` / `qecsim run-ftp` invocations (-o FILE, or stdout saved verbatim) of several registered model
# combinations with several probabilities each, so that one merge sees several distinct groups whose
# n_logical_commutations / custom_totals differ in value, in length (2 / 4 logical operators) and in presence
# (custom_totals: None / a list), repeated groups that are not adjacent in the argument order, the same file twice,
# the same probability in different spellings, and outputs of earlier merges fed back (closure).

# decoders whose runs are cheap enough for tens of runs per file
MERGE_FAST = ('generic.naive', 'planar.mwpm', 'planar.y', 'toric.mwpm', 'rotated_toric.smwpm', 'rotated_planar.smwpm')
P_SPELL = {'0.05': ['0.05', '5e-2', '.05', '0.050'], '0.1': ['0.1', '1e-1', '.1', '0.10'], '0.3': ['0.3', '3e-1', '0.30'],
           '0.0': ['0.0', '0', '0e0'], '0.01': ['0.01', '1e-2'], '0.25': ['0.25', '.25', '25e-2'], '0.5': ['0.5', '.5']}


def merge_models(rng, k, regs):
    """k distinct registered (command, code, error model, decoder) combinations (the tables of part (c))"""
    out = []
    for _ in range(50):
        if len(out) >= k:
            break
        cmd = rng.choice(['run', 'run', 'run-ftp'])
        dn = rng.choice(sorted(n for n in regs[(cmd, 'dec')][0] if CODES_FOR.get(n)))
        ems = [e for e in sorted(regs[(cmd, 'em')][0]) if e != 'generic.file' and
               (e in SMWPM_OK or not (dn.endswith('smwpm') or cmd == 'run-ftp'))]
        en = rng.choice(ems)
        m = {'cmd': cmd, 'code': CODES_FOR[dn][0], 'em': en + rng.choice(EM_ARGS.get(en, [''])),
             'dec': dn + rng.choice(DEC_ARGS.get(dn, [''])),
             'fast': dn in MERGE_FAST and (cmd, dn) != ('run-ftp', 'rotated_planar.smwpm'),
             'ts': rng.choice([1, 2, 3]) if cmd == 'run-ftp' else None,
             'm': rng.choice([None, 0.0, 0.05]) if cmd == 'run-ftp' else None}
        if not any((m['cmd'], m['code'], m['em'], m['dec'], m['ts'], m['m']) ==
                   (x['cmd'], x['code'], x['em'], x['dec'], x['ts'], x['m']) for x in out):
            out.append(m)
    return out


def _zero_wall(lists):
    return [[dict(r, wall_time=0.0) for r in l] for l in lists]


def merge_oracle_wire(loaded, res):
    """(protocol line for the Lean merge model, wire form of the CLI answer): wall_time is zeroed on both sides (real
    wall times are not dyadic: their float sum is not the rational sum; they are checked with a tolerance instead)"""
    from qv.props import c05
    line = 'c05 merge ' + ' '.join('|'.join(c05.rec_wire(x) for x in l) if l else '.' for l in _zero_wall(loaded))
    if res is None:
        return line, None
    z = [dict(g, wall_time=0.0) for g in res]
    return line, 'ok ' + ('|'.join(c05.group_wire(g) for g in z) if z else '.')


def merge_oracle_judge(loaded, res, impl='cli-failed'):
    """the property on one merge answer, independent of app.merge; returns a description or None"""
    from qv.props import c05
    if res is not None and not (isinstance(res, list) and all(
            isinstance(g, dict) and set(g) >= RUN_KEYS - {'error_weight_pvar'} for g in res)):
        return 'merged output records do not have the documented keys'
    bad = c05.judge(_zero_wall(loaded), impl, None if res is None else [dict(g, wall_time=0.0) for g in res])
    if bad:
        extra = ''
        if 'got' in bad or 'expected' in bad:
            extra = ' (merged output has {!r}, the sum over the group\'s input records is {!r})'.format(
                bad.get('got'), bad.get('expected'))
        return 'merge of CLI outputs is not lossless: ' + bad['what'] + extra
    if res is not None:
        flat = [r for l in loaded for r in l]
        for g in res:
            k = c05.norm_key(g)
            want = math.fsum(r['wall_time'] for r in flat if c05.norm_key(r) == k)
            if not (isinstance(g['wall_time'], float) and math.isclose(g['wall_time'], want, rel_tol=1e-9, abs_tol=1e-12)):
                return 'merge of CLI outputs is not lossless: wall_time {!r} is not the sum {!r} over the group'.format(
                    g['wall_time'], want)
    return None


def merge_oracle_eval(spec, tmp):
    """run `qecsim merge` as described by spec (files / args / out / proc / stdin); -> (problem, loaded lists, groups)"""
    d = tempfile.mkdtemp(prefix='mo_', dir=tmp)
    cwd = os.getcwd()
    try:
        for name, data in spec['files'].items():
            with open(os.path.join(d, name), 'w') as f:
                f.write(data if isinstance(data, str) else json.dumps(data, sort_keys=True))
        loaded = []
        for n in spec['args']:
            data = spec['files'][n]
            loaded.append(json.loads(data) if isinstance(data, str) else json.loads(json.dumps(data)))
        args = ['/dev/stdin' if i == spec.get('stdin') else n for i, n in enumerate(spec['args'])]
        argv = ['merge'] + (['-o', spec['out']] if spec.get('out') else []) + args
        if spec.get('proc'):
            piped = spec.get('stdin') is not None       # `qecsim merge a.json /dev/stdin < b.json`
            stdin = open(os.path.join(d, spec['args'][spec['stdin']])) if piped else subprocess.DEVNULL
            try:
                p = subprocess.run(launcher('module') + argv, env=sub_env(), cwd=d, stdin=stdin, stdout=subprocess.PIPE,
                                   stderr=subprocess.PIPE, text=True, timeout=300)
            finally:
                if piped:
                    stdin.close()
            code, so, tb = p.returncode, p.stdout, 'Traceback' in p.stderr
            detail = p.stderr[-300:]
        else:
            os.chdir(d)
            rec = Rec()
            with instrument(rec):
                res, tb, err = invoke(argv)
            code, so, detail = res.exit_code, res.stdout, repr(res.exception)
        if code != 0 or tb:
            return 'merge of CLI outputs fails: exit {} {}'.format(code, detail), loaded, None
        try:
            if spec.get('out'):
                if so != '':
                    return 'merge -o FILE also writes to stdout', loaded, None
                with open(os.path.join(d, spec['out'])) as f:
                    groups = json.load(f)
            else:
                groups = json.loads(so)
        except (ValueError, OSError) as ex:
            return 'merged output unreadable: {!r}'.format(ex), loaded, None
        return None, loaded, groups
    finally:
        os.chdir(cwd)
        shutil.rmtree(d, ignore_errors=True)


def merge_oracle_check(spec, tmp):
    """-> (description of the property failure or None, loaded, groups)"""
    from qecsim import app
    problem, loaded, groups = merge_oracle_eval(spec, tmp)
    if problem is None:
        problem = merge_oracle_judge(loaded, groups)
    if problem is None:     # and the clause of part (c): the CLI answers what the API answers
        want = json.loads(json.dumps(app.merge(*json.loads(json.dumps(loaded))), sort_keys=True))
        if strip_wall(groups) != strip_wall(want):
            problem = 'qecsim merge differs from app.merge on CLI outputs'
    if problem:
        problem = '`qecsim {}`: {}'.format(' '.join(['merge'] + (['-o', spec['out']] if spec.get('out') else []) +
                                                      spec['args']), problem)
    return problem, loaded, groups


def merge_oracle_case(ctx, spec, tmp):
    from qv.props import c05
    problem, loaded, groups = merge_oracle_check(spec, tmp)
    flat = [r for l in loaded for r in l]
    keys = [c05.norm_key(r) for r in flat]
    line, impl = merge_oracle_wire(loaded, groups)
    meta = {k: v for k, v in spec.items()}
    ctx.case(line, impl if impl is not None else 'cli-failed', nontrivial=len(set(keys)) < len(keys), post=c05.post,
             meta=meta)
    arrays = {}
    for r in flat:
        arrays.setdefault(c05.norm_key(r), set()).add(json.dumps([r['n_logical_commutations'], r['custom_totals']]))
    sums = {json.dumps([g['n_logical_commutations'], g['custom_totals']]) for g in (groups or [])}
    ctx.count('merge-oracle-groups', min(len(set(keys)), 8))
    ctx.count('merge-oracle-distinct-group-arrays', min(len(sums), 8))
    ctx.count('merge-oracle-repeated-group-not-adjacent',
              any(keys[i] in keys[i + 2:] and keys[i + 1] != keys[i] for i in range(len(keys) - 2)))
    ctx.count('merge-oracle-shape', '{}{}{}'.format('subprocess' if spec.get('proc') else 'in-process',
                                                    ' -o' if spec.get('out') else ' stdout',
                                                    ' /dev/stdin' if spec.get('stdin') is not None else ''))
    if problem:
        ctx.monitor_fail(problem, meta, key='merge-not-lossless')
    return groups if problem is None else None


def part_f(ctx, tmp):
    import random as pyrandom
    rng = ctx.rng
    n_sessions, n_proc = ctx.scale(36, 400), ctx.scale(3, 10)
    regs = registries()
    n = 0
    for it in range(n_sessions + n_proc):
        proc = it >= n_sessions
        models = merge_models(rng, rng.choice([1, 2, 2, 3, 4]), regs)
        base = rng.sample(sorted(P_SPELL), rng.randint(1, 3))
        files, prov = {}, {}
        d = tempfile.mkdtemp(prefix='mf_', dir=tmp)
        cwd = os.getcwd()
        os.chdir(d)
        try:
            for i in range(rng.randint(2, 5)):
                m = rng.choice(models)
                probs = [rng.choice(P_SPELL[p]) for p in rng.sample(base, rng.randint(1, len(base)))]
                rc = dict(m, probs=probs, r=rng.randint(4, 40) if m['fast'] else rng.randint(2, 6),
                          f=rng.choice([None, None, None, 3]), s=rng.randrange(10 ** 6))
                rc.pop('fast')
                name = 'run{}.json'.format(i)
                via_file = rng.random() < 0.5
                argv = diff_argv(rc, name if via_file else None)
                rec = Rec()
                try:
                    with instrument(rec), core.TimeLimit(60):
                        pyrandom.seed(19)
                        res, tb, err = invoke(argv)
                except core.TimeLimit.Expired:
                    ctx.count('merge-oracle-run', 'timeout')
                    continue
                if res.exit_code != 0 or tb:
                    ctx.count('merge-oracle-run', 'skipped: ' + type(res.exception).__name__)   # part (c)'s business
                    continue
                try:
                    text = open(name).read() if via_file else res.stdout
                    json.loads(text)
                except (OSError, ValueError):
                    ctx.count('merge-oracle-run', 'skipped: no JSON')
                    continue
                ctx.count('merge-oracle-run', '{} {}'.format(rc['cmd'], '-o file' if via_file else 'stdout saved'))
                files[name] = text
                prov[name] = argv
        finally:
            os.chdir(cwd)
            shutil.rmtree(d, ignore_errors=True)
        if not files:
            continue
        names = sorted(files)
        rng.shuffle(names)
        spec = {'kind': 'mergeoracle', 'files': files, 'made_by': prov, 'proc': proc,
                'out': rng.choice([None, None, 'merged.json']), 'stdin': None}
        if len(names) >= 3 and rng.random() < 0.35:     # closure: an earlier merge's output is one of the inputs
            first = dict(spec, args=names[:2], out=rng.choice([None, 'part.json']), proc=False)
            got = merge_oracle_case(ctx, first, tmp)
            n += 1
            if got is not None:
                files = dict(files, **{'part.json': json.dumps(got, sort_keys=True)})
                prov = dict(prov, **{'part.json': ['merge'] + names[:2]})
                names = ['part.json'] + names[2:]
                rng.shuffle(names)
                spec = dict(spec, files=files, made_by=prov)
        args = list(names)
        if rng.random() < 0.5:      # the same file again, not next to its first occurrence when possible
            x = rng.choice(args)
            pos = [i for i in range(len(args) + 1) if (i == 0 or args[i - 1] != x) and (i == len(args) or args[i] != x)]
            args.insert(rng.choice(pos or [len(args)]), x)
        spec['args'] = args
        if proc and it % 2 == 0 and os.path.exists('/dev/stdin'):
            spec['stdin'] = rng.randrange(len(args))
        merge_oracle_case(ctx, spec, tmp)
        n += 1
    return n


# --------------------------------------------------------------- user logging configurations x call histories

# `logging_qecsim.ini` is a documented CLI feature (util.init_logging: $QECSIM_CFG/, ./, ~/.qecsim/); the property's
# "results are still emitted on the error log" is quantified over every such configuration that lets ERROR records of
# the package through: the record must arrive at the sink the configuration designates for it.
_INI_HEAD = """\
[loggers]
keys = {loggers}

[handlers]
keys = h

[formatters]
keys = f

[logger_root]
level = {root_level}
handlers = h
"""
_INI_TAIL = """
[handler_h]
class = {hclass}
level = {hlevel}
formatter = f
args = {hargs}

[formatter_f]
format = {fmt}
"""
_SAMPLE_INI = """\
[loggers]
keys = root

[handlers]
keys = stream_handler

[formatters]
keys = formatter

[logger_root]
level = INFO
handlers = stream_handler

[handler_stream_handler]
class = StreamHandler
level = INFO
formatter = formatter
args = (sys.stdout,)

[formatter_formatter]
format = %(asctime)s %(name)-12s %(levelname)-8s %(message)s
"""
LOGCFG_CONTENTS = ['sample', 'root-stderr', 'root-file', 'root-error-level', 'named-qecsim', 'named-cli',
                   'named-unrelated', 'broken']
LOGCFG_LOCATIONS = ['env', 'cwd', 'home']
LOGCFG_TARGETS = ['existing-file', 'missing-dir', 'existing-dir']
LOGCFG_COMMANDS = ['run', 'run-ftp', 'merge']
# call histories: how the process got to the failing write
#   cli          one `python -m qecsim` / `qecsim` process (the module loggers exist before init_logging runs)
#   twice        one interpreter, the CLI entered twice: a successful stdout command, then the failing one
#   fail-twice   one interpreter, two failing commands in a row (init_logging applied over its own configuration)
#   api-first    a host program that used the API (app.run) and then enters the CLI
#   host-logging a host program that had configured logging itself (basicConfig) before entering the CLI
LOGCFG_HISTORIES = ['cli', 'twice', 'fail-twice', 'api-first', 'host-logging']

_HISTORY_DRIVER = r'''
import json, sys
hist = json.loads(sys.argv[1]); pre = sys.argv[2]
if pre == 'host-logging':
    import logging
    logging.basicConfig(level=logging.INFO)
if pre == 'api-first':
    from qecsim import app
    from qecsim.models.basic import FiveQubitCode
    from qecsim.models.generic import DepolarizingErrorModel, NaiveDecoder
    app.run(FiveQubitCode(), DepolarizingErrorModel(), NaiveDecoder(), 0.1, max_runs=2, random_seed=1)
import click
from qecsim import cli
codes = []
for argv in hist:
    try:
        cli.cli.main(argv, standalone_mode=False)
        codes.append(0)
    except click.ClickException as ex:
        ex.show()
        codes.append(ex.exit_code)
    except SystemExit as ex:
        codes.append(ex.code)
    sys.stdout.flush(); sys.stderr.flush()
sys.stderr.write('\nQV-EXITS ' + json.dumps(codes) + '\n')
'''


def logcfg_text(content, logfile):
    """(ini text or None, sink) for a configuration class; sink in stdout / stderr / file"""
    fmt = '%(asctime)s %(name)-12s %(levelname)-8s %(message)s'
    if content == 'sample':         # the file shipped in the repository root
        p = os.path.join(core.REPO, 'logging_qecsim.ini')
        txt = open(p).read() if os.path.exists(p) else _SAMPLE_INI
        return txt, ('stdout' if 'sys.stdout' in txt else 'stderr')
    if content == 'broken':         # unreadable configuration: documented fall-back to the basic configuration
        return '[loggers]\nkeys = root\n\n[logger_root]\nhandlers = nothing_defined\n', 'stderr'
    kw = {'loggers': 'root', 'root_level': 'INFO', 'hclass': 'StreamHandler', 'hlevel': 'NOTSET',
          'hargs': '(sys.stderr,)', 'fmt': fmt}
    extra, sink = '', 'stderr'
    if content == 'root-file':
        kw.update(hclass='FileHandler', hargs="({!r}, 'a')".format(logfile))
        sink = 'file'
    elif content == 'root-error-level':
        kw.update(root_level='ERROR', hlevel='ERROR', fmt='%(levelname)s:%(message)s')
    elif content == 'named-qecsim':
        kw['loggers'] = 'root, q'
        extra = '\n[logger_q]\nlevel = DEBUG\nhandlers =\nqualname = qecsim\npropagate = 1\n'
    elif content == 'named-cli':
        kw['loggers'] = 'root, q'
        extra = '\n[logger_q]\nlevel = WARNING\nhandlers = h\nqualname = qecsim.cli\npropagate = 0\n'
    elif content == 'named-unrelated':
        kw['loggers'] = 'root, q'
        extra = '\n[logger_q]\nlevel = WARNING\nhandlers =\nqualname = some.other.package\npropagate = 1\n'
    return _INI_HEAD.format(**kw) + extra + _INI_TAIL.format(**kw), sink


_LOGCFG_RCS = {
    'run': {'kind': 'diff', 'cmd': 'run', 'code': 'five_qubit', 'em': 'generic.depolarizing', 'dec': 'generic.naive',
            'probs': ['0.2', '0.4'], 'r': 5, 'f': None, 's': 11, 'ts': None, 'm': None},
    'run-ftp': {'kind': 'diff', 'cmd': 'run-ftp', 'code': 'rotated_planar(3,3)', 'em': 'generic.depolarizing',
                'dec': 'rotated_planar.smwpm', 'probs': ['0.1'], 'r': 3, 'f': None, 's': 12, 'ts': 2, 'm': 0.05},
}
_LOGCFG_WANT = {}


def logcfg_want(cmd):
    """API result (wall_time stripped) and, for merge, the input documents"""
    if cmd not in _LOGCFG_WANT:
        from qecsim import app
        if cmd == 'merge':
            a = json.loads(json.dumps(api_call(_LOGCFG_RCS['run'], classes_for('run')), sort_keys=True))
            b = json.loads(json.dumps(api_call(dict(_LOGCFG_RCS['run'], s=13), classes_for('run')), sort_keys=True))
            _LOGCFG_WANT[cmd] = (strip_wall(json.loads(json.dumps(app.merge(a, b), sort_keys=True))), [a, b])
        else:
            rc = _LOGCFG_RCS[cmd]
            _LOGCFG_WANT[cmd] = (strip_wall(json.loads(json.dumps(api_call(rc, classes_for(cmd)), sort_keys=True))),
                                 None)
    return _LOGCFG_WANT[cmd]


def logcfg_start(job, base):
    """set the scene (configuration file, target, inputs) in a fresh directory and start the process"""
    d = tempfile.mkdtemp(prefix='lc_', dir=base)
    work = os.path.join(d, 'work')
    home = os.path.join(d, 'home')
    os.makedirs(work)
    os.makedirs(home)
    logfile = os.path.join(d, 'qecsim.log')
    text, sink = logcfg_text(job['content'], logfile)
    env = sub_env()
    env['HOME'] = home                      # ~/.qecsim is looked up under a scratch home in every case
    if job['location'] == 'env':
        cfgdir = os.path.join(d, 'cfg')
        env['QECSIM_CFG'] = cfgdir
    elif job['location'] == 'cwd':
        cfgdir = work
    elif job['location'] == 'home':
        cfgdir = os.path.join(home, '.qecsim')
    else:                                   # 'none': no user configuration (control)
        cfgdir, text, sink = None, None, 'stderr'
    if cfgdir is not None:
        os.makedirs(cfgdir, exist_ok=True)
        with open(os.path.join(cfgdir, 'logging_qecsim.ini'), 'w') as f:
            f.write(text)
    if job['target'] == 'existing-file':
        target = os.path.join(work, 'out.json')
        with open(target, 'w') as f:
            f.write('PRECIOUS\n')
    elif job['target'] == 'existing-dir':
        target = os.path.join(work, 'outdir')
        os.makedirs(os.path.join(target, 'inner'))
    else:
        target = os.path.join(work, 'no', 'such', 'out.json')
    want, docs = logcfg_want(job['cmd'])
    if job['cmd'] == 'merge':
        ins = []
        for i, doc in enumerate(docs):
            p = os.path.join(work, 'in{}.json'.format(i))
            with open(p, 'w') as f:
                json.dump(doc, f, sort_keys=True)
            ins.append(p)
        ok_argv, bad_argv = ['merge'] + ins, ['merge', '-o', target] + ins
    else:
        rc = _LOGCFG_RCS[job['cmd']]
        ok_argv, bad_argv = diff_argv(rc), diff_argv(rc, target)
    hist = {'cli': [bad_argv], 'twice': [ok_argv, bad_argv], 'fail-twice': [bad_argv, bad_argv],
            'api-first': [bad_argv], 'host-logging': [bad_argv]}[job['history']]
    if job['history'] == 'cli':
        cmdline = launcher(job.get('launcher', 'module')) + bad_argv
    else:
        cmdline = [sys.executable, '-c', _HISTORY_DRIVER, json.dumps(hist), job['history']]
    before = snapshot(target)
    proc = subprocess.Popen(cmdline, env=env, cwd=work, stdout=subprocess.PIPE, stderr=subprocess.PIPE, text=True)
    return {'dir': d, 'proc': proc, 'sink': sink, 'logfile': logfile, 'target': target, 'before': before,
            'hist': hist, 'want': want, 'argv': bad_argv}


def logcfg_finish(job, st):
    """the property on one finished process; returns (problem or None, details)"""
    p = st['proc']
    try:
        so, se = p.communicate(timeout=300)
    except subprocess.TimeoutExpired:
        p.kill()
        raise core.Infra('subprocess timeout: logging configuration case {}'.format(job))
    try:
        logtxt = open(st['logfile']).read()
    except OSError:
        logtxt = ''
    n_fail = sum(1 for a in st['hist'] if '-o' in a)
    n_ok = len(st['hist']) - n_fail
    if job['history'] == 'cli':
        exits = [p.returncode]
    else:
        exits = None
        for l in se.splitlines():
            if l.startswith('QV-EXITS '):
                exits = json.loads(l[len('QV-EXITS '):])
    sink_text = {'stdout': so, 'stderr': se, 'file': logtxt}[st['sink']]
    lines = sink_text.splitlines()
    recovered = []
    for i, l in enumerate(lines):
        if 'recovered data:' in l and i + 1 < len(lines):
            try:
                recovered.append(strip_wall(json.loads(lines[i + 1])))
            except (ValueError, TypeError, AttributeError):
                recovered.append('unparsable')
    problems = []
    if ('Traceback' in se or 'Traceback' in so) and job['content'] != 'broken':
        problems.append('traceback')    # (the documented noisy fall-back logs the configuration error's traceback)
    if exits is None or len(exits) != len(st['hist']):
        problems.append('the process did not complete its commands (exit {})'.format(p.returncode))
    else:
        for a, e in zip(st['hist'], exits):
            if '-o' in a and e in (0, None):
                problems.append('exit status 0 although the output could not be written')
            if '-o' not in a and e != 0:
                problems.append('stdout command fails (exit {})'.format(e))
    changes = [c for c in snapshot_diff(st['before'], snapshot(st['target'])) if not c.startswith('ancestor')]
    if changes:
        problems.append('output path modified: ' + '; '.join(changes))
    if len(recovered) < n_fail:
        problems.append('results NOT emitted on the error log: {} "recovered data" record(s) in the sink the logging '
                        'configuration designates ({}) for {} failed write(s) - results lost'.format(
                            len(recovered), st['sink'], n_fail))
    elif any(r != st['want'] for r in recovered):
        problems.append('results on the error log differ from the API result')
    if n_ok:
        try:
            first = so.splitlines()[0] if st['sink'] != 'stdout' else \
                next(l for l in so.splitlines() if l.startswith('[{'))
            if strip_wall(json.loads(first)) != st['want']:
                problems.append('stdout result differs from the API result')
        except (ValueError, IndexError, StopIteration):
            problems.append('stdout result missing / unparsable')
    details = {'exit': p.returncode, 'exits': exits, 'sink': st['sink'], 'stdout': so[-300:], 'stderr': se[-500:],
               'logfile': logtxt[-300:], 'argv': st['argv']}
    shutil.rmtree(st['dir'], ignore_errors=True)
    return ('; '.join(problems) or None), details


def logcfg_run(jobs, base, width=8):
    out = []
    for i in range(0, len(jobs), width):
        batch = [(j, logcfg_start(j, base)) for j in jobs[i:i + width]]
        out += [(j,) + logcfg_finish(j, st) for j, st in batch]
    return out


def logcfg_jobs(ctx):
    rng = ctx.rng
    jobs = []

    def job(content, location, target, cmd, history):
        j = {'kind': 'logcfg', 'content': content, 'location': location, 'target': target, 'cmd': cmd,
             'history': history, 'launcher': rng.choice(['module', 'script'])}
        if j not in jobs:
            jobs.append(j)
    if ctx.quick():
        # every configuration class once, locations / targets / commands rotated from a random offset; every history
        o = rng.randrange(60)
        for i, c in enumerate(LOGCFG_CONTENTS):
            job(c, LOGCFG_LOCATIONS[(o + i) % 3], LOGCFG_TARGETS[(o // 3 + i) % 3],
                LOGCFG_COMMANDS[(o // 9 + i) % 3], 'cli')
        for i, h in enumerate(LOGCFG_HISTORIES[1:]):
            job(rng.choice(LOGCFG_CONTENTS[:-1]), LOGCFG_LOCATIONS[(o + i) % 3], rng.choice(LOGCFG_TARGETS),
                rng.choice(LOGCFG_COMMANDS), h)
        job('sample', 'none', 'existing-file', 'run', 'cli')
    else:
        for c in LOGCFG_CONTENTS:
            for loc in LOGCFG_LOCATIONS:
                for t in LOGCFG_TARGETS:
                    job(c, loc, t, rng.choice(LOGCFG_COMMANDS), 'cli')
            for h in LOGCFG_HISTORIES[1:]:
                job(c, rng.choice(LOGCFG_LOCATIONS), rng.choice(LOGCFG_TARGETS), rng.choice(LOGCFG_COMMANDS), h)
        for t in LOGCFG_TARGETS:
            for cmd in LOGCFG_COMMANDS:
                job('sample', 'none', t, cmd, 'cli')
    return jobs


def part_e(ctx, tmp):
    """failing writes under user logging configurations and call histories (real processes)"""
    base = os.path.join(tmp, 'logcfg')
    os.makedirs(base)
    jobs = logcfg_jobs(ctx)
    for j, problem, details in logcfg_run(jobs, base):
        ctx.count('logcfg', '{}/{}/{}'.format(j['content'], j['location'], j['history']))
        ctx.count('logcfg-sink', details['sink'])
        if problem:
            ctx.monitor_fail('user logging configuration ({} at {}), history {}: {}'.format(
                j['content'], j['location'], j['history'], problem), dict(j, observed=details),
                key='results-dropped-logging-config')
    return len(jobs)


# ------------------------------------------------------------------------------------------ driver

def write_file_em(tmp):
    """a small FileErrorModel input for the five-qubit code (probability 0.4)"""
    import numpy as np
    from qecsim import paulitools as pt
    rs = np.random.default_rng(7)
    p = os.path.join(tmp, 'errors.jsonl')
    with open(p, 'w') as f:
        f.write('{"probability": 0.4, "label": "File (c19)"}\n')
        for _ in range(12):
            e = (rs.random(10) < 0.3).astype(int)
            f.write(json.dumps(list(pt.pack(e))) + '\n')
    return p


def run(ctx):
    tmp = tempfile.mkdtemp(prefix='qv_c19_', dir='/var/tmp')
    cwd = os.getcwd()
    try:
        os.chdir(tmp)        # no ./logging_qecsim.ini, relative output paths land in the scratch directory
        file_em = write_file_em(tmp)
        ctx.extra['_file_em'] = file_em
        n_a = part_a(ctx)
        n_b = part_b(ctx, tmp)
        k = 0
        for files in [[], ['ok'], ['ok', 'ok'], ['ok', 'ok', 'ok'], ['missing'], ['ok', 'missing'], ['dir'],
                      ['badjson'], ['ok', 'badjson'], ['badjson', 'missing'], ['ok', 'dir', 'badjson']]:
            for sit in (SITUATIONS if all(t == 'ok' for t in files) and files else ['stdout-default', 'exists']):
                merge_case(ctx, tmp, k, files, sit, ctx.rng)
                k += 1
        # the protocol table itself, exhaustively (model only cross-checked against the documented table)
        for t in ('stdout', 'path'):
            for fs in ('exists', 'creatable', 'notcreatable'):
                want = ('so=1 file=u log=0 exit=0 tb=0' if t == 'stdout' else
                        'so=0 file=c log=0 exit=0 tb=0' if fs == 'creatable' else 'so=0 file=u log=1 exit=1 tb=0')
                ctx.case('c19 write {} {} 1'.format(t, fs), want, nontrivial=False)
        n_c, n_eq, n_skip, n_rt = part_c(ctx, tmp, file_em)
        n_d = part_d(ctx, tmp)
        n_e = part_e(ctx, tmp)
        n_f = part_f(ctx, tmp)
        ctx.extra.pop('_file_em', None)
        ctx.explored = {
            'cli_equals_api_differential': {
                'evaluations': n_c, 'equal': n_eq, 'skipped_incompatible_or_timeout': n_skip,
                'rule': 'code-vs-code: in-process `qecsim run|run-ftp` (real simulation) vs app.run/app.run_ftp with '
                        'models built by the registered classes from the same argument literals, same options and '
                        'seed; JSON equal field for field, wall_time only required to be a float >= 0; every '
                        'registered decoder x compatible error model, sizes <= 5x5',
                'exhaustive': False},
            'merge_roundtrip': {'evaluations': n_rt + k,
                                'rule': 'CLI outputs written to files and merged by `qecsim merge` vs app.merge; '
                                        'counts conserved; merge command over input-file situations',
                                'exhaustive': False},
            'merge_of_cli_outputs_vs_independent_oracle': {
                'evaluations': n_f,
                'rule': '`qecsim merge` (in-process and real processes; stdout / -o FILE; a file argument also through '
                        '/dev/stdin) of files written by real `qecsim run` / `qecsim run-ftp` invocations (-o FILE or '
                        'stdout saved) of 1-4 registered model combinations x 1-3 probabilities (several spellings of '
                        'one value) with different seeds and run counts, in shuffled argument order, with the same '
                        'file repeated non-adjacently and with outputs of earlier merges fed back: the merged output '
                        'is judged against the property evaluated on the loaded input records (one group per distinct '
                        'seven-field key; n_run / n_success / n_fail / error_weight_total / wall_time and the arrays '
                        'n_logical_commutations / custom_totals of every group equal to the sums over exactly that '
                        'group\'s records; rates recomputed) and against the Lean model of merge (`c05 merge`, incl. '
                        'output order), not only against app.merge', 'exhaustive': False},
            'real_subprocesses': {'evaluations': n_d,
                                  'rule': '`python -m qecsim` and the `qecsim` console script: stdout / -o new / -o '
                                          'existing / -o missing directory / malformed arguments / merge; stdout, '
                                          'stderr, exit status and files inspected', 'exhaustive': False},
            'logging_configurations': {
                'evaluations': n_e,
                'rule': 'real processes whose write fails (existing file / existing directory / missing directory; '
                        'run, run-ftp, merge) under user logging configurations (logging_qecsim.ini found via '
                        '$QECSIM_CFG, ./ or ~/.qecsim: the shipped sample, root -> stderr / file / ERROR-only, a '
                        'configuration naming qecsim / qecsim.cli / an unrelated logger, an unreadable one, none) and '
                        'call histories (one CLI process; the CLI entered twice in one interpreter after a success / '
                        'after a failure; after API use; inside a host that configured logging): exit status, target '
                        'untouched, the "recovered data" record with JSON equal to the API result in the sink the '
                        'configuration designates', 'exhaustive': False},
        }
        ctx.assumptions = [
            'click (option parsing, IntRange, FLOAT, Path, exit statuses) as installed; Python float() / int() / '
            'ast.literal_eval / re: outside the model, their answers are tokens computed with the same functions',
            'the OS and file system (open(path, "x") semantics); the harness runs as root, so permission-denied '
            'directories are represented by missing directory / parent-is-a-file / over-long name',
            'ASCII spec strings only (the model\'s \\w and \\s are the ASCII restrictions of Python\'s classes)',
            'CLI == API is a differential between two code paths, not a theorem; incompatible model combinations '
            '(exceptions inside the simulation) are outside the property',
            'PlanarYDecoder breaks ties with Python\'s global `random` (unseeded by -s): the differential seeds it '
            'identically before the API call and before the CLI call',
            'logging configuration (util.init_logging) is replaced by a recording handler in-process; the real log '
            '(stderr, or whatever sink a user logging_qecsim.ini designates) is observed in the subprocess cases only; '
            'configurations that filter ERROR records of the package out on purpose (level CRITICAL, no handler) are '
            'the user\'s choice and not generated',
        ]
    finally:
        os.chdir(cwd)
        shutil.rmtree(tmp, ignore_errors=True)
    return ctx.finish(RULE, search=search, explanation=(
        'proved: decision logic of the CLI model (spec scanner, literal-only arguments, validators before any '
        'simulation, delegation, output protocol); explored: CLI == API differential, merge round trip, real '
        'subprocesses (see coverage.explored); click / OS / file system are outside the model'))


# ------------------------------------------------------------------------------------------ search / replay

def recheck(inp):
    """evaluate the PROPERTY on the real code for a recorded input; returns a description or None"""
    kind = inp.get('kind')
    tmp = tempfile.mkdtemp(prefix='qv_c19_r_', dir='/var/tmp')
    cwd = os.getcwd()
    try:
        os.chdir(tmp)
        if kind == 'cmd':
            rc = dict(inp)
            rc.pop('argv', None)
            _, impl, fails = run_cmd_case(rc, tmp)
            return '; '.join(w for w, _, _ in fails) if fails else None
        if kind == 'param':
            impl, accepted, v = param_eval(inp['cmd'], inp['role'], inp['text'])
            return param_verdict(inp['cmd'], inp['role'], inp['text'], accepted, v if accepted else None, impl)
        if kind == 'conv':
            from qecsim import cli
            ptype = None
            for p in cli.cli.commands[inp['cmd']].params:
                if ROLE_OF.get(p.name) == inp['role']:
                    ptype = p.type
            impl, rec = direct_convert(ptype, inp['role'], inp['text'])
            hit = pwned()
            if hit:
                return 'argument text evaluated as code'
            if impl['err'] == 'TRACEBACK':
                return 'spec string raises ' + str(impl['exc'])
            # text that literal_eval refuses must be rejected without constructing anything
            m = re.fullmatch(r'[\w.]+\(\s*(.*?),?\s*\)', inp['text'])
            if m and m.group(1) and argtok(m.group(1)) in ('notliteral', 'syntax') and \
                    (impl['accepted'] or rec.ctors):
                return 'non-literal argument text accepted / constructor invoked'
            exp = inp.get('expected_args')
            if exp is not None and inp.get('spelling') != 'comment-scalar':
                classes = classes_for(inp['cmd'])[inp['role']]
                cls = classes.get(inp['text'].strip().split('(')[0])
                if cls is not None:
                    try:
                        want = repr(cls(*ast.literal_eval(exp + ','))) if exp else repr(cls())
                    except Exception:
                        want = None
                    if want is not None and impl['repr'] != want:
                        return 'CLI builds {} where the API constructor builds {}'.format(impl['repr'], want)
            return None
        if kind == 'diff':
            rc = dict(inp)
            rc.pop('argv', None)
            ok, what, _ = run_diff_case(rc)
            return what if ok is False else None
        if kind == 'roundtrip':
            return run_merge_roundtrip(tmp, 0, inp['datas'])
        if kind == 'mergeoracle':
            return merge_oracle_check(inp, tmp)[0]
        if kind == 'merge':
            class C:   # minimal context collecting monitor failures
                def __init__(self):
                    self.f = []
                    import random
                    self.rng = random.Random(0)

                def case(self, *a, **k):
                    pass

                def count(self, *a, **k):
                    pass

                def monitor_fail(self, what, i, key=None):
                    self.f.append(what)
            c = C()
            merge_case(c, tmp, 0, inp['files'], inp['situation'], c.rng)
            return '; '.join(c.f) or None
        if kind == 'logcfg':
            job = {k: v for k, v in inp.items() if k != 'observed'}
            (_, problem, _), = logcfg_run([job], tmp)
            return problem
        if kind == 'subprocess':
            class C2:
                def __init__(self):
                    self.f = []
                    import random
                    self.rng = random.Random(0)

                def count(self, *a, **k):
                    pass

                def monitor_fail(self, what, i, key=None):
                    if i.get('name') == inp.get('name'):
                        self.f.append(what)
            c = C2()
            part_d(c, tmp)
            return '; '.join(c.f) or None
        return None
    finally:
        os.chdir(cwd)
        shutil.rmtree(tmp, ignore_errors=True)


def search(m):
    meta = m.get('meta') or {}
    if not meta.get('kind'):
        return None
    what = recheck(meta)
    if what:
        out = {'what': what, 'input': meta}
        return out
    # near variants of a command line: the same line in every output situation
    if meta.get('kind') == 'cmd':
        for sit in SITUATIONS:
            v = dict(meta, situation=sit, unser=False)
            what = recheck(v)
            if what:
                return {'what': what, 'input': v}
    return None


def replay(ctx, path):
    body = json.load(open(path))
    bad = 0
    for v in body.get('violations', []):
        ce = v.get('counterexample') or {}
        inp = ce.get('input') if isinstance(ce.get('input'), dict) else ce
        what = None
        if isinstance(inp, dict) and inp.get('kind'):
            what = recheck(inp)
        elif v.get('first_mismatch'):
            r = search(v['first_mismatch'])
            what = r and r['what']
        print('replay', (inp or {}).get('kind'), '->', what)
        bad += bool(what)
    return 1 if bad else 0      # core.do_replay prints the VIOLATION line
