"""C07 — every constructible code is a valid [[n,k]] stabilizer code (five lattice families + basic codes)

Two layers of generators:
* qv/c07_access.py — read-back of `operator()` at every in-lattice / wrapped / refused index after every kind of write,
  Pauli-object HISTORIES (one object, random site / plaquette / path / logical / to_bsf / operator / copy /
  new_pauli(bsf) / == calls, to_bsf compared with an independently accumulated bsf), and the constructor value universe
  (integral-valued non-ints, every numpy integer width, … in each position) with the monitor "rejected, or a usable
  code with integral n_k_d";
* qv/families/<family>.py — per-size structural cases (stabilizers, logicals, n_k_d, plaquette list, flatten map over a
  margin, single site / plaquette writes) compared with the Lean model, plus C07 evaluated on the real matrices.
Every access to what a constructible code PUBLISHES (constructor, n_k_d, stabilizers, logical_xs, logical_zs, logicals,
validate(), new_pauli(), label, repr, ==, hash) goes through families/common.published: each access on its own, an
exception becomes the monitor failure 'constructible code <family> <size> raises <Exception> from <call>' with
{family, size, call} and the run continues (next access, next size); the per-size structural cases run under
common.per_size, which turns any exception raised inside qecsim into the same kind of failure.  IndexError is accepted
as an answer only from the writes that take an index (site / plaquette / path).
* qv/c07_large.py — SIZE as an input class beyond the bound: colour codes up to 31 (45), squares up to 20x20 (30x30),
  rectangles and strips up to 41 (81) long, with only O(n)-cost facts on the real code: n_k_d formula, the lattice-index
  <-> qubit map is a bijection onto range(n) in the documented order (also against the Lean `flat`), plaquette count
  (Lean `plaqidx`), documented stabilizer weights, exact SPARSE commutation / logical pairing through shared qubits.
* qv/c07_multi.py — ONE call, SEVERAL indices, on all five lattice Pauli classes: `site(op, i1, i2, ...)` mixing in-lattice
  sites, site indices outside the lattice (ring, far) and, on the tori, aliases of in-lattice sites (also two aliases of
  one site, which cancel) in every order of the small sets and at every position of the longer ones, on fresh and on
  non-identity Paulis: compared with the Lean fold of the single-index model (driver op `sites`; outside = no effect, the
  others applied; planar / colour: wrong-kind index = IndexError with the prefix applied) and monitored directly (== XOR
  of the single-index calls == independent statement); plaquette(index) == one site() call on the sites around it in
  every order for in-lattice / virtual / outside plaquette indices (and == the published stabilizer row); paths with
  in-lattice / virtual / aliased endpoints in both orders against the Lean `path`, and rebuilt through one site() call.
The read-back / history layer takes the OPERATOR argument as a class: every documented value 'I','X','Y','Z' of `site`
(all families) and of the colour code's `plaquette(operator, index)`, each write compared with an independent statement
of its bsf and read back with operator() at every site.
Size grids (both layers): the square grid [min..bound]^2 — which already holds rows >= 2 cols and cols >= 2 rows — plus
STRIPS beyond it in both orientations (narrow side the one or two smallest legal values, long side up to 12-14 in the
quick and 16-30 in the thorough tier; aspect ratios up to 6-7 / 8-15); the coverage is recorded in the evidence
(c07_size_grids) and a grid without a tall-narrow or a short-wide size is an infrastructure error.
"""
import importlib
import os
import sys
import time
import traceback

RULE = ('for every accepted size up to the bound: stabilizers, logical_xs, logical_zs, n_k_d, plaquette index list, '
        'flatten map over all indices in a margin around the lattice, site/plaquette operators and read-back, compared '
        'exactly with the Lean model; operator() read-back of every in-lattice site and of wrapped / refused indices '
        'after every kind of write against the bsf at the independently stated flattened index (and the Lean operatorAt '
        'where the model has one); random call histories on one Pauli object against an independently accumulated '
        'bsf (to_bsf after every step / at random read points, copy independence, new_pauli(bsf) view semantics, ==); '
        'constructor outcomes over a value universe (ints, bools, integral and fractional floats, non-finite floats, '
        'numpy floats, Fraction, Decimal, complex, every numpy integer width, numpy bool, 0-d arrays, str, bytes, None, '
        'containers) in each argument position with the monitor "rejected with ValueError/TypeError, or a usable code '
        'with integral n_k_d"; and C07 itself (commutation, pairing, GF(2) rank n-k by elimination, logical '
        'independence, shapes) evaluated directly on the real matrices; every access to the published data of a '
        'constructible code (n_k_d, stabilizers, logical_xs, logical_zs, logicals, validate(), new_pauli(), label, repr, '
        '==, hash) guarded one by one (an exception is a failure naming family, size and call), on the square grid plus '
        'tall-narrow / short-wide strips in both orientations; every documented operator value (I, X, Y, Z) of site() and of '
        'the colour plaquette(operator, index) with an independent statement of the written bsf; sizes far beyond the '
        'bound (colour up to 31/45, squares up to 20/30, strips up to 41/81) with O(n)-cost facts only: n_k_d formula, '
        'site -> qubit map a bijection onto range(n) in the documented order (and equal to the Lean flat), plaquette '
        'count / index list, stabilizer weights, exact sparse commutation and logical pairing; ONE site() call with several indices mixing in-lattice, out-of-lattice '
        'and (tori) aliased indices in every order, on fresh and non-identity Paulis, against the Lean fold of the '
        'single-index model (op `sites`) and the monitor "== XOR of the single-index calls"; plaquette(index) == one '
        'site() call on its neighbours in every order (in-lattice, virtual and outside plaquette indices); paths with '
        'virtual / aliased endpoints in both orders and rebuilt through one site() call. non-trivial = every case except index-kind '
        'predicates and reads that yield I / IndexError')

FAMILIES = ['planar', 'rotatedplanar', 'toric', 'rotatedtoric', 'color666', 'basic']


def run(ctx):
    from qv import c07_access
    done = []
    only = os.environ.get('QV_FAMILIES')
    only = only.split(',') if only else None
    mon = c07_access.run(ctx, only=only)
    from qv import c07_large
    c07_large.run(ctx, mon, only=only)   # SIZE well past the exhaustive bound, O(n)-cost structural facts (qv/c07_large.py)
    from qv import c07_multi
    t0 = time.time()
    c07_multi.run(ctx, mon, only=only)   # ONE call with several indices, in-lattice / outside / aliased mixed (qv/c07_multi.py)
    ctx.extra['c07_multi_s'] = round(time.time() - t0, 1)
    for fam in FAMILIES:
        if only and fam not in only:
            continue
        try:
            m = importlib.import_module('qv.families.' + fam)
        except ImportError:
            continue
        if not hasattr(m, 'c07_cases'):
            continue
        try:
            m.c07_cases(ctx, getattr(m, 'C07_BOUND', {}).get(ctx.tier, ctx.scale(5, 9)))
        except Exception as ex:
            # an exception raised inside qecsim while the structural cases are generated: every call made there is one
            # the property (or the documentation of the call) promises an answer for
            if not c07_access.from_qecsim(sys.exc_info()[2]):
                raise
            mon.fail(fam, 'exc', 'the real code raised {} where the property promises an answer'.format(
                type(ex).__name__), {'family': fam, 'traceback': traceback.format_exc()[-1500:]})
        done.append(fam)
    ctx.extra['families'] = done
    from qv import optmode
    optmode.probe(ctx, 'C07')  # interpreter mode as an input: the same codes built by a child `python -O` (qv/optmode.py)
    return ctx.finish(RULE, search=search)


def search(m):
    from qv import c07_access
    meta = m.get('meta') or {}
    if meta.get('tag') == 'ctor' and meta.get('labels'):
        return c07_access.ctor_search(meta)
    if meta.get('part') == 'multi':
        from qv import c07_multi
        return c07_multi.multi_search(m)
    return None


REPLAY_GENERIC = True   # --replay re-runs the check deterministically with the recorded tier and seed
