"""C07 — every constructible code is a valid [[n,k]] stabilizer code (five lattice families + basic codes)"""
import importlib
import json

RULE = ('for every accepted size up to the bound: stabilizers, logical_xs, logical_zs, n_k_d, plaquette index list, '
        'flatten map over all indices in a margin around the lattice, site/plaquette operators and read-back, compared '
        'exactly with the Lean model; constructor outcomes over a value universe (ints, bools, floats, str, None, numpy '
        'ints); and C07 itself (commutation, pairing, GF(2) rank n-k by elimination, logical independence, shapes) '
        'evaluated directly on the real matrices. non-trivial = every case except index-kind predicates')

FAMILIES = ['planar', 'rotatedplanar', 'toric', 'rotatedtoric', 'color666', 'basic']


def run(ctx):
    done = []
    import os
    only = os.environ.get('QV_FAMILIES')
    for fam in FAMILIES:
        if only and fam not in only.split(','):
            continue
        try:
            m = importlib.import_module('qv.families.' + fam)
        except ImportError:
            continue
        if not hasattr(m, 'c07_cases'):
            continue
        m.c07_cases(ctx, getattr(m, 'C07_BOUND', {}).get(ctx.tier, ctx.scale(5, 9)))
        done.append(fam)
    ctx.extra['families'] = done
    return ctx.finish(RULE, search=search)


def search(m):
    return None


REPLAY_GENERIC = True   # --replay re-runs the check deterministically with the recorded tier and seed
