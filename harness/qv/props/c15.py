"""C15 — lattice paths connect exactly their endpoints (planar, toric, rotated toric)"""
import importlib
import json

RULE = ('for every lattice size up to the bound and every ordered pair of same-type plaquettes (real, and for the '
        'planar code the boundary-virtual ones): path bsf, translation, decoder distance, virtual plaquette, plaquette '
        'support, syndrome-bit round trip, IndexError cases — compared exactly with the Lean model; and the property '
        'itself (syndrome of the path = in-lattice endpoints, weight = distance, translation reaches b, symmetric '
        'length) evaluated directly on the real code for every pair; the same paths / plaquettes / site writes (all '
        'ordered same-type pairs incl. every boundary-virtual plaquette, every index in a margin of 2) computed by a '
        'child `python -O` interpreter, compared with the in-process values and judged by a qecsim-free statement of '
        'the geometry; path applied to NON-IDENTITY Paulis (random prior sites / plaquettes / logicals / earlier paths, then '
        'calls incl. repeated, reversed, continuing and overlapping pairs and coincident end points: same object, equal '
        'tuple, congruent modulo the lattice, tuple vs list): the operator APPLIED by each call (bsf before XOR after) '
        'goes to the model as an ordinary path case, must equal the fresh-Pauli path and satisfy the property, the '
        'returned object must be the Pauli itself; chained calls p.path(a,b).path(c,d)… must give prior content times '
        'all path operators on the result and on the original object. non-trivial = a != b; distinct = protocol line')

FAMILIES = ['planar', 'toric', 'rotatedtoric']


def run(ctx):
    bound = ctx.scale(5, 9)
    done = []
    import os
    only = os.environ.get('QV_FAMILIES')
    for fam in FAMILIES:
        if only and fam not in only.split(','):
            continue
        try:
            m = importlib.import_module('qv.families.' + fam)
        except ImportError:
            continue
        if not hasattr(m, 'c15_cases'):
            continue
        m.c15_cases(ctx, getattr(m, 'C15_BOUND', {}).get(ctx.tier, bound),
                    pair_budget=None if not ctx.quick() else 4000)
        done.append(fam)
    ctx.extra['families'] = done
    # path applied to non-identity Paulis / in call chains (the decoders' usage)
    from qv import c15_apply
    c15_apply.cases(ctx, [f for f in done if f in c15_apply.ADAPTERS])
    if not only:
        # interpreter mode as an input (qecsim documents `python -O`): paths / plaquettes / site writes computed by a child
        # `python -O` (thorough: also -OO) are compared with the in-process ones and the property is evaluated on them
        from qv import optmode
        optmode.probe_c15(ctx)
    ctx.exhaustive = False
    return ctx.finish(RULE, search=search)


def search(m):
    # the per-pair monitors already evaluated the property on the real code for every case; a correspondence break
    # without a monitor failure means the code changed behaviour while the property still holds on explored inputs
    return None


REPLAY_GENERIC = True   # --replay re-runs the check deterministically with the recorded tier and seed
