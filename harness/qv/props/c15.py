"""C15 — lattice paths connect exactly their endpoints (planar, toric, rotated toric)"""
import importlib
import json

RULE = ('for every lattice size up to the bound and every ordered pair of same-type plaquettes (real, and for the '
        'planar code the boundary-virtual ones): path bsf, translation, decoder distance, virtual plaquette, plaquette '
        'support, syndrome-bit round trip, IndexError cases — compared exactly with the Lean model; and the property '
        'itself (syndrome of the path = in-lattice endpoints, weight = distance, translation reaches b, symmetric '
        'length) evaluated directly on the real code for every pair; the same paths / plaquettes / site writes (all '
        'ordered same-type pairs incl. every boundary-virtual plaquette, every index in a margin of 2) computed by a '
        'child `python -O` interpreter, compared with the in-process values and judged by a qecsim-free statement of '
        'the geometry. non-trivial = a != b; distinct = protocol line')

FAMILIES = ['planar', 'toric', 'rotatedtoric']


def run(ctx):
    bound = ctx.scale(5, 9)
    done = []
    import os
    only = os.environ.get('QV_FAMILIES')
    for fam in FAMILIES:
        if only and fam not in only.split(','):
            continue
        try:
            m = importlib.import_module('qv.families.' + fam)
        except ImportError:
            continue
        if not hasattr(m, 'c15_cases'):
            continue
        m.c15_cases(ctx, getattr(m, 'C15_BOUND', {}).get(ctx.tier, bound),
                    pair_budget=None if not ctx.quick() else 4000)
        done.append(fam)
    ctx.extra['families'] = done
    if not only:
        # interpreter mode as an input (qecsim documents `python -O`): paths / plaquettes / site writes computed by a child
        # `python -O` (thorough: also -OO) are compared with the in-process ones and the property is evaluated on them
        from qv import optmode
        optmode.probe_c15(ctx)
    ctx.exhaustive = False
    return ctx.finish(RULE, search=search)


def search(m):
    # the per-pair monitors already evaluated the property on the real code for every case; a correspondence break
    # without a monitor failure means the code changed behaviour while the property still holds on explored inputs
    return None


REPLAY_GENERIC = True   # --replay re-runs the check deterministically with the recorded tier and seed
