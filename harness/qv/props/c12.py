"""C12 — MPS canonical forms and truncation honour their contracts
(qecsim.tensortools.mps against Model/MpsShape.lean)

What is PROVED (Props/C12.lean, LEVEL = 'proof' refers to these only): the shape / guard / control-flow clauses of
the property, for all lengths, all dimension assignments and all oracle singular-value lists — every bond <= chi
after truncate with a full mask, truncate is the identity exactly when its guard says so, masked-off sites are
decomposed by QR at full rank (mask reversal of right_canonical_form included), a zero flag at any step gives
zeros_like and norm 0 with no later step, a non-contiguous list raises, output bonds are consistent.
The tie (a): every generated call is run on the real code with scipy.linalg.qr/svd/norm wrapped from outside (no
edit of /repo) to record what each step saw; the shapes of all output tensors, kept ranks, step kinds, error kinds
and zero flags are compared EXACTLY with the Lean shape model, which receives the recorded norms / singular values
as exact rationals (oracle input).

What is EXPLORED, not proved (ctx.explored, monitors evaluated directly on the real outputs with tolerances): state
preservation (dense contraction before/after, times the returned norm), left/right isometry residual <= 1e-10, unit
norm of a normalised result, truncation error <= sqrt(sum of discarded Schmidt weight)(1+1e-8) + 1e-11*scale, zero
state => exact zero tensors and norm 0, no NaN/inf anywhere (numpy divide/invalid set to raise), no exception on
well-formed input.  These are supporting evidence for the oracle hypotheses (LAPACK returns A = QR with Q^T Q = 1,
A = U S V^T), not theorems.
"""
import json
import random
from fractions import Fraction

import numpy as np

from qv.core import rat

LEVEL = 'proof'

RULE = ('random MPS (bra/ket) and MPO: 1..7 tensors, physical dims 1..3, bonds 1..6, open boundary dims mostly 1, '
        '0..2 leading/trailing None, styles normal / small-int / rank-deficient / scaled 1e-20..1e20 / diagonal with '
        'singular values equal to the tolerance / exact zero tensor / product-zero pair; malformed stream: internal None '
        'gap, all-None and empty lists, bond mismatch, wrong mask length, chi or tol with qr; ops '
        'left_canonical_form / right_canonical_form (qr and svd, chi in None,0,1..7, tol in None,0,1e-12,1e-3,0.5, '
        'normalise both, masks None/random/all-false/all-true) and truncate; helper ops _mps_start_stop_indices, '
        'zeros_like, reverse, bond_dimension on random None patterns. Exact comparison of shapes, step kinds, kept '
        'ranks, zero flags and error kinds with the Lean model; numeric contracts as monitors. non-trivial = at least '
        'one decomposition was performed')

TOLS = [None, 0.0, 1e-12, 1e-3, 0.5]
ISO_TOL = 1e-10
DENSE_CAP = 60000


# ------------------------------------------------------------------------------------------ case generation

def gen_shapes(rng):
    L = rng.choice([1, 1, 2, 2, 3, 3, 4, 5, 6, 7])
    kind = rng.choice(['bra', 'ket', 'mpo'])
    while True:
        phys = []
        for _ in range(L):
            d1, d2 = rng.randint(1, 3), rng.randint(1, 3)
            phys.append((d1, 1) if kind == 'bra' else (1, d2) if kind == 'ket' else (d1, d2))
        n0 = 1 if rng.random() < 0.85 else rng.randint(1, 3)
        sl = 1 if rng.random() < 0.85 else rng.randint(1, 3)
        size = n0 * sl
        for e, w in phys:
            size *= e * w
        if size <= DENSE_CAP:
            break
    bonds = [n0] + [rng.randint(1, 6) for _ in range(L - 1)] + [sl]
    return kind, [(bonds[i], phys[i][0], bonds[i + 1], phys[i][1]) for i in range(L)]


def fill(rng, nrng, shp, style):
    n, e, s, w = shp
    if style == 'int':
        return nrng.integers(-2, 3, size=shp).astype(float)
    if style == 'rankdef':
        r = rng.randint(1, 2)
        a = nrng.standard_normal((n * e * w, r)) @ nrng.standard_normal((r, s))
        return np.einsum('news->nesw', a.reshape(n, e, w, s)).copy()
    if style == 'scaled':
        return nrng.standard_normal(shp) * 10.0 ** rng.randint(-20, 20)
    return nrng.standard_normal(shp)


def build_case(seed):
    """deterministic construction of one case from an integer seed (drawn from ctx.rng by run())"""
    rng = random.Random(seed)
    nrng = np.random.default_rng(seed)
    kind, shapes = gen_shapes(rng)
    style = rng.choice(['normal', 'normal', 'int', 'rankdef', 'scaled', 'diag', 'zero', 'zero', 'prodzero'])
    base = style if style in ('int', 'rankdef', 'scaled') else rng.choice(['normal', 'int'])
    tensors = [fill(rng, nrng, s, base) for s in shapes]
    L = len(tensors)
    zero_exact = False
    if style == 'zero':
        tensors[rng.randrange(L)][...] = 0.0
        zero_exact = True
    elif style == 'prodzero' and L >= 2:
        i = rng.randrange(L - 1)
        b = shapes[i][2]
        if b >= 2:
            h = b // 2
            tensors[i][:, :, h:, :] = 0.0
            tensors[i + 1][:h, :, :, :] = 0.0
        else:
            style = 'normal'
    elif style == 'diag':
        # first tensor: matricisation (n e w) x s is diagonal with entries from a set containing the tolerances
        n, e, s, w = shapes[0]
        vals = [1.0, 0.5, 1e-3, 1e-12, 0.25, 2.0, 0.0]
        mtx = np.zeros((n * e * w, s))
        for j in range(min(n * e * w, s)):
            mtx[j, j] = 1.0 if j == 0 else rng.choice(vals)
        tensors[0] = np.einsum('news->nesw', mtx.reshape(n, e, w, s)).copy()
    mps = [None] * rng.choice([0, 0, 0, 1, 2]) + tensors + [None] * rng.choice([0, 0, 0, 1, 2])
    malformed = None
    r = rng.random()
    if r < 0.07 and L >= 2:
        start = next(i for i, t in enumerate(mps) if t is not None)
        mps.insert(start + rng.randint(1, L - 1), None)
        malformed = 'gap'
    elif r < 0.10 and L >= 2:
        i = rng.randrange(L - 1)
        start = next(k for k, t in enumerate(mps) if t is not None)
        t = mps[start + i + 1]
        mps[start + i + 1] = np.concatenate([t, t[:1]], axis=0)   # N of the next tensor no longer matches S
        malformed = 'bond'
    elif r < 0.12:
        mps = [None] * rng.randint(0, 3)
        malformed = 'no-tensors'
    op = rng.choice(['lcf', 'rcf', 'trunc', 'trunc'])
    chi = rng.choice([None, None, 0, 1, 1, 2, 2, 3, 4, 5, 7])
    tol = rng.choice(TOLS + [None, None])
    qr = op != 'trunc' and rng.random() < 0.4
    if qr and rng.random() < 0.9:
        chi, tol = rng.choice([None, 0]), rng.choice([None, 0.0])
    normalise = rng.random() < 0.5
    mr = rng.random()
    if mr < 0.45:
        mask = None
    elif mr < 0.75:
        mask = [rng.random() < 0.5 for _ in mps]
    elif mr < 0.83:
        mask = [False] * len(mps)
    elif mr < 0.95:
        mask = [True] * len(mps)
    else:
        mask = [rng.random() < 0.5 for _ in range(len(mps) + rng.choice([-1, 1, 2]))]
        if len(mask) != len(mps):
            malformed = malformed or 'mask-length'
    return {'seed': seed, 'kind': kind, 'style': style, 'mps': mps, 'op': op, 'chi': chi, 'tol': tol, 'qr': qr,
            'normalise': normalise, 'mask': mask, 'malformed': malformed, 'zero_exact': zero_exact}


# ------------------------------------------------------------------------------------------ recording the real code

class _LinalgProxy:
    """stands in for the name `sp_linalg` inside qecsim.tensortools.mps while a case runs"""

    def __init__(self, real, rec):
        self._real, self._rec = real, rec

    def __getattr__(self, name):
        return getattr(self._real, name)

    def qr(self, a, *args, **kw):
        q, r = self._real.qr(a, *args, **kw)
        self._rec.call({'k': 'Q', 'shape': a.shape, 'qcols': q.shape[1], 'val': None})
        return q, r

    def svd(self, a, *args, **kw):
        u, s, v = self._real.svd(a, *args, **kw)
        self._rec.call({'k': 'S', 'shape': a.shape, 's': np.array(s, dtype=float).copy()})
        return u, s, v

    def norm(self, a, *args, **kw):
        v = self._real.norm(a, *args, **kw)
        if getattr(a, 'ndim', 0) == 2:
            c = self._rec.segs[-1]['calls'] if self._rec.segs else []
            if c and c[-1]['k'] == 'Q' and c[-1]['val'] is None:
                c[-1]['val'] = float(v)
            else:
                self._rec.call({'k': '?', 'shape': a.shape, 'val': float(v)})
        else:
            self._rec.call({'k': 'L', 'shape': a.shape, 'val': float(v)})
        return v


class Recorder:
    """wraps left_canonical_form (segment boundaries, arguments, result) and sp_linalg in the mps module"""

    def __init__(self):
        from qecsim.tensortools import mps as M
        self.M = M
        self.segs = []

    def call(self, c):
        if not self.segs:
            self.segs.append({'in': None, 'calls': [], 'out': None, 'kw': {}})
        self.segs[-1]['calls'].append(c)

    def __enter__(self):
        M = self.M
        self._lcf, self._la = M.left_canonical_form, M.sp_linalg
        rec = self

        def lcf(mps, *a, **kw):
            seg = {'in': [None if t is None else t.shape for t in mps], 'calls': [], 'out': None,
                   'kw': dict(kw, _args=a)}
            rec.segs.append(seg)
            res = rec._lcf(mps, *a, **kw)
            out = res[0] if isinstance(res, tuple) else res
            seg['out'] = [None if t is None else t.shape for t in out]
            return res
        M.left_canonical_form = lcf
        M.sp_linalg = _LinalgProxy(self._la, self)
        return self

    def __exit__(self, *a):
        self.M.left_canonical_form, self.M.sp_linalg = self._lcf, self._la
        return False


def frac(x):
    return Fraction(float(x))      # raises on NaN / inf


def seg_trace(seg, reverse_len=None):
    """trace entries 'row:K:rows:cols:kept' of one left_canonical_form segment (rows re-indexed when it ran on a
    reversed list) and the oracle entries it consumed"""
    shp = seg['in']
    start = next((i for i, t in enumerate(shp) if t is not None), 0)
    tr, orc = [], []
    mcalls = [c for c in seg['calls'] if c['k'] in 'QS']
    for c in seg['calls']:
        if c['k'] == 'Q':
            orc.append('Q' + rat(frac(c['val'])))
        elif c['k'] == 'S':
            orc.append('S' + ','.join(rat(frac(x)) for x in c['s']))
        elif c['k'] == 'L':
            orc.append('L' + rat(frac(c['val'])))
        else:
            orc.append('X')
    pos = [i for i, c in enumerate(seg['calls']) if c['k'] in 'QS']
    for j, c in enumerate(mcalls):
        row = start + j
        zero = (c['val'] == 0.0) if c['k'] == 'Q' else (len(c['s']) > 0 and c['s'][0] == 0.0)
        if zero:
            kept = 'Z'
        else:
            # the N dimension the code gave the next tensor, as the next thing it did reveals it
            idx = pos[j]
            nxt = seg['calls'][idx + 1] if idx + 1 < len(seg['calls']) else None
            nshape = shp[row + 1] if row + 1 < len(shp) else None
            if nxt is not None and nxt['k'] in 'QS' and nshape is not None:
                kept = nxt['shape'][0] // max(1, nshape[1] * nshape[3])
            elif nxt is not None and nxt['k'] == 'L':
                kept = nxt['shape'][0]
            elif seg['out'] is not None and row + 1 < len(seg['out']) and seg['out'][row + 1] is not None:
                kept = seg['out'][row + 1][0]
            else:
                kept = '?'
        c['row'], c['kept'], c['zero'] = row, kept, zero
        shown = row if reverse_len is None else reverse_len - 1 - row
        c['orig_row'] = shown
        tr.append('{}:{}:{}:{}:{}'.format(shown, c['k'], c['shape'][0], c['shape'][1], kept))
    return tr, orc


def wire_mps(shapes):
    return ';'.join('N' if s is None else ','.join(str(int(x)) for x in s) for s in shapes) if shapes else '_'


def shapes_of(mps):
    return [None if t is None else tuple(t.shape) for t in mps]


def wire_mask(mask):
    if mask is None:
        return 'N'
    return ''.join('1' if b else '0' for b in mask) if mask else '_'


def wire_tol(tol):
    return 'N' if tol is None else rat(Fraction(tol))


def wire_tr(tr):
    return ';'.join(tr) if tr else '_'


def err_name(ex):
    if isinstance(ex, AssertionError):
        return 'AssertionError'
    if isinstance(ex, ValueError):
        return 'ValueError:gap' if 'contiguous' in str(ex) else 'ValueError:bond'
    return type(ex).__name__


# ------------------------------------------------------------------------------------------ numeric helpers

def dense(run):
    """contract a contiguous run of (n,e,s,w) tensors to an array of shape (n_first, prod(e*w), s_last)"""
    cur = None
    for t in run:
        n, e, s, w = t.shape
        T = np.einsum('nesw->news', t).reshape(n, e * w, s)
        cur = T if cur is None else np.einsum('apb,bqc->apqc', cur, T).reshape(cur.shape[0], -1, s)
    return cur


def run_of(mps):
    return [t for t in mps if t is not None]


def finite(mps):
    return all(t is None or np.all(np.isfinite(t)) for t in mps)


def all_zero(mps):
    return all(t is None or not np.any(t) for t in mps)


def iso_residual(t, left):
    n, e, s, w = t.shape
    m = (np.einsum('nesw->news', t).reshape(-1, s) if left else np.einsum('nesw->sewn', t).reshape(-1, n))
    return float(np.max(np.abs(m.T @ m - np.eye(m.shape[1])))) if m.size else 0.0


def well_formed(case):
    return case['malformed'] is None and not (case['qr'] and (case['chi'] or case['tol']))


def py_guard(case):
    """the documented no-op condition of truncate, evaluated independently of the Lean model"""
    mps, chi, tol, mask = case['mps'], case['chi'], case['tol'], case['mask']
    bd = max([t.shape[0] if t is not None else 0 for t in mps], default=0)
    return bool(len(mps) and (tol or (chi and chi < bd)) and (mask is None or any(mask)))


# ------------------------------------------------------------------------------------------ one evaluation

def evaluate(case, stats=None):
    """run the real code on the case; returns (protocol line, impl reply, property failures on the real code,
    info).  A failure is a dict {what, key}."""
    from qecsim.tensortools import mps as M
    st = stats if stats is not None else {}

    def bump(k):
        st[k] = st.get(k, 0) + 1
    mps, op, chi, tol, mask = case['mps'], case['op'], case['chi'], case['tol'], case['mask']
    qr, normalise = case['qr'], case['normalise']
    in_shapes = shapes_of(mps)
    fails = []

    def fail(what, key):
        fails.append({'what': what, 'key': key})
    exc = None
    res = None
    with Recorder() as rec:
        try:
            with np.errstate(divide='raise', invalid='raise'):
                if op == 'lcf':
                    res = M.left_canonical_form(mps, chi=chi, tol=tol, qr=qr, normalise=normalise, mask=mask)
                elif op == 'rcf':
                    res = M.right_canonical_form(mps, chi=chi, tol=tol, qr=qr, normalise=normalise, mask=mask)
                else:
                    res = M.truncate(mps, chi=chi, tol=tol, mask=mask)
        except Exception as ex:  # noqa: BLE001 — every exception kind is an observable outcome
            exc = ex
    segs = rec.segs
    info = {'segs': len(segs), 'decomps': sum(len([c for c in s['calls'] if c['k'] in 'QS']) for s in segs),
            'skip': None}
    # ---- oracle + trace from the record
    Ltot = len(mps)
    try:
        traces, orc = [], []
        for i, seg in enumerate(segs):
            rev = (op == 'rcf') or (op == 'trunc' and i == 1)
            t, o = seg_trace(seg, reverse_len=Ltot if rev else None)
            traces.append(t)
            orc += o
    except (ValueError, OverflowError):
        fail('non-finite norm / singular value seen by a decomposition step', 'nan-in-decomposition')
        traces, orc = [[] for _ in segs], ['X']
    # the model compares sigma/sigma0 > tol over Q, the code compares the rounded quotient: drop boundary cases
    if tol:
        for seg in segs:
            for c in seg['calls']:
                if c['k'] == 'S' and len(c['s']) and c['s'][0] != 0.0:
                    fl = (c['s'] / c['s'][0]) > tol
                    ex_ = [Fraction(float(x)) / Fraction(float(c['s'][0])) > Fraction(tol) for x in c['s']]
                    if list(map(bool, fl)) != ex_:
                        info['skip'] = 'float-quotient-rounds-onto-tol'
    orc_w = ';'.join(orc) if orc else '_'
    if op == 'trunc':
        line = 'c12 trunc {} {} {} {} {}'.format('N' if chi is None else chi, wire_tol(tol), wire_mask(mask),
                                                 wire_mps(in_shapes), orc_w)
    else:
        line = 'c12 {} {} {} {} {} {} {} {}'.format(op, 'N' if chi is None else chi, wire_tol(tol), int(qr),
                                                    int(normalise), wire_mask(mask), wire_mps(in_shapes), orc_w)
    # ---- the exception path
    if exc is not None:
        name = err_name(exc)
        if isinstance(exc, FloatingPointError):
            fail('division by zero / invalid operation inside the sweep (NaN or inf produced): ' + str(exc)[:80],
                 'nan-produced-internally')
        elif well_formed(case):
            fail('exception on well-formed input: ' + repr(exc)[:120], 'exception-on-well-formed')
        if case['malformed'] == 'gap' and name != 'ValueError:gap' and not (op == 'trunc' and not py_guard(case)) \
                and not (qr and (chi or tol)) and not (mask is not None and len(mask) != len(mps)):
            fail('non-contiguous MPS did not raise the documented ValueError but ' + name, 'gap-not-raised')
        return line, name, fails, info
    # ---- success path: unpack
    if op == 'trunc':
        out, norm = res
        same = out is mps
    elif normalise:
        out, norm = res
        same = False
    else:
        out, norm, same = res, None, False
    out_shapes = shapes_of(out)
    zero_rec = [any(c.get('zero') for c in s['calls'] if c['k'] in 'QS') or
                any(c['k'] == 'L' and c['val'] == 0.0 for c in s['calls']) for s in segs]
    if op == 'trunc':
        z = bool(norm == 0)
        tr1 = traces[0] if len(traces) > 0 else []
        tr2 = traces[1] if len(traces) > 1 else []
        impl = 'ok same={} z={} t={} tr1={} tr2={} left=0'.format(int(same), int(z), wire_mps(out_shapes),
                                                                  wire_tr(tr1), wire_tr(tr2))
    else:
        z = bool(norm == 0) if normalise else bool(zero_rec and zero_rec[0])
        impl = 'ok z={} t={} tr={} left=0'.format(int(z), wire_mps(out_shapes), wire_tr(traces[0] if traces else []))
    if case['malformed'] == 'gap' and not (op == 'trunc' and not py_guard(case)):
        fail('non-contiguous MPS accepted without ValueError', 'gap-not-raised')
    if case['malformed'] in ('gap', 'bond', 'mask-length') or not well_formed(case) and case['malformed'] != 'no-tensors':
        return line, impl, fails, info
    # ---- property clauses evaluated directly on the real outputs ---------------------------------------------
    bump('finite')
    if not finite(out) or (norm is not None and not np.isfinite(float(norm))):
        fail('NaN / inf in the result', 'nan-in-result')
        return line, impl, fails, info
    run_in, run_out = run_of(mps), run_of(out)
    if not run_in:
        return line, impl, fails, info
    scale = 1.0
    for t in run_in:
        scale *= max(float(np.linalg.norm(t)), 1e-300)
    fnorm = 1.0 if norm is None else float(norm)
    # (1) consecutive output bonds agree, physical dimensions unchanged, None pattern unchanged
    bump('shapes_consistent')
    if [s is None for s in out_shapes] != [s is None for s in in_shapes]:
        fail('None pattern changed', 'none-pattern')
    rs = [s for s in out_shapes if s is not None]
    if any(rs[i][2] != rs[i + 1][0] for i in range(len(rs) - 1)) or \
            [(s[1], s[3]) for s in rs] != [(t.shape[1], t.shape[3]) for t in run_in]:
        fail('output tensors do not fit together', 'shapes-inconsistent')
    # (2) step kinds honour the mask (original site index) and kept ranks follow the documented rule
    for i, seg in enumerate(segs):
        is_trunc_lcf = (op == 'trunc' and i == 0)
        s_qr = True if is_trunc_lcf else qr
        s_mask = None if is_trunc_lcf else mask
        s_chi, s_tol = (None, None) if is_trunc_lcf else (chi, tol)
        for c in seg['calls']:
            if c['k'] not in 'QS':
                continue
            bump('mask_and_rank_steps')
            mbit = True if s_mask is None else bool(s_mask[c['orig_row']])
            want_q = s_qr or not mbit
            if (c['k'] == 'Q') != want_q:
                fail('site {} (mask {}) was decomposed by {}'.format(c['orig_row'], mbit, c['k']), 'mask-not-honoured')
            if c.get('zero') or c['kept'] in ('Z', '?'):
                continue
            full = min(c['shape'])
            if c['k'] == 'Q':
                want = full
            else:
                s = c['s'] / c['s'][0]
                k = int(np.sum(s > s_tol)) if s_tol else len(s)
                want = min(full, k, s_chi if s_chi else full)
            if c['kept'] != want:
                fail('site {}: kept rank {} but min(rows, cols, #(sigma/sigma0 > tol), chi) = {}'.format(
                    c['orig_row'], c['kept'], want), 'kept-rank')
    zero_any = any(zero_rec)
    # (3) zero handling
    if zero_any or case['zero_exact']:
        bump('zero_state')
    if op != 'trunc' and zero_rec and zero_rec[0]:
        if not all_zero(out) or out_shapes != shapes_of(M.zeros_like(mps)) or (normalise and norm != 0):
            fail('zero detected but result is not zeros_like with norm 0', 'zero-handling')
    if case['zero_exact']:
        if op == 'trunc':
            if py_guard(case) and (norm != 0 or not all_zero(out)):
                fail('truncate of a zero state: norm {} / non-zero tensors'.format(norm), 'zero-handling')
        elif normalise and (norm != 0 or not all_zero(out)):
            fail('normalised canonical form of a zero state: norm {} / non-zero tensors'.format(norm), 'zero-handling')
        elif not normalise and np.any(dense(run_out)):
            fail('canonical form of a zero state is not a zero state', 'zero-handling')
    # (4) truncate: identity exactly when the guard says so, bonds <= chi under a full mask
    if op == 'trunc':
        bump('truncate_guard')
        g = py_guard(case)
        if g == same:
            fail('truncate {} although its documented no-op condition is {}'.format(
                'returned its input' if same else 'rebuilt the MPS', not g), 'truncate-guard')
        if same and (float(norm) != 1.0 or any(a is not b for a, b in zip(out, mps))):
            fail('no-op truncate changed something / norm != 1', 'truncate-guard')
        if chi and (mask is None or all(mask)):
            bump('bond_le_chi')
            inner = [s[0] for s in rs[1:]]
            if g and any(b > chi for b in inner):
                fail('bond {} > chi {} after truncate with a full mask'.format(max(inner), chi), 'bond-gt-chi')
            if not g and not tol and any(b > chi for b in [s[0] for s in rs]):
                fail('bond > chi but truncate was a no-op', 'bond-gt-chi')
    zero_out = (norm is not None and norm == 0) or zero_any
    # (5) isometries away from the centre
    if not zero_out and not same:
        left = (op == 'lcf')
        sites = run_out[:-1] if left else run_out[1:]
        for t in sites:
            bump('isometry_sites')
            r_ = iso_residual(t, left)
            if not r_ <= ISO_TOL:
                fail('{} isometry residual {:.3e}'.format('left' if left else 'right', r_), 'isometry')
                break
    # (6) unit norm of a normalised result
    if op != 'trunc' and normalise and not zero_out:
        bump('unit_norm')
        nn = float(np.linalg.norm(dense(run_out)))
        if not abs(nn - 1.0) <= 1e-10:
            fail('normalised result has norm {!r}'.format(nn), 'unit-norm')
    # (7) state preservation / truncation error
    if not same:
        d_in = dense(run_in)
        # discarded Schmidt weight (only meaningful in truncate, where the state is unit and left-canonical)
        last = segs[-1]
        disc, factor, truncating = 0.0, 1.0, False
        for c in last['calls']:
            if c['k'] == 'S' and not c.get('zero'):
                k = c['kept'] if isinstance(c['kept'], int) else len(c['s'])
                if k < len(c['s']):
                    truncating = True
                    disc += float(np.sum((c['s'][k:] * factor) ** 2))
                factor *= float(c['s'][0])
            elif c['k'] == 'Q' and c['val']:
                factor *= c['val']
        if zero_out:
            # a zero result must come from a zero state (a truncating canonical form outside `truncate` may
            # legitimately project a non-zero state to zero: no claim there)
            if not truncating or op == 'trunc':
                bump('zero_preserved')
                if not float(np.linalg.norm(d_in)) <= 1e-10 * scale:
                    fail('non-zero state mapped to the zero state', 'state-preservation')
        else:
            d_out = dense(run_out)
            if d_out.shape != d_in.shape:
                fail('open dimensions changed', 'shapes-inconsistent')
            else:
                err = float(np.linalg.norm(d_in - fnorm * d_out))
                if not truncating:
                    bump('state_preservation')
                    if not err <= 1e-10 * scale:
                        fail('state not preserved: |in - norm*out| = {:.3e} (scale {:.3e})'.format(err, scale),
                             'state-preservation')
                elif op == 'trunc':
                    bump('truncation_error')
                    bound = fnorm * np.sqrt(disc) * (1 + 1e-8) + 1e-11 * scale
                    if not err <= bound:
                        fail('truncation error {:.6e} > discarded Schmidt weight bound {:.6e}'.format(err, bound),
                             'truncation-error')
                else:
                    bump('truncating_canonical_form(shape-only)')
    return line, impl, fails, info


def case_desc(case):
    return {'seed': case['seed'], 'op': case['op'], 'chi': case['chi'], 'tol': case['tol'], 'qr': case['qr'],
            'normalise': case['normalise'], 'mask': case['mask'], 'style': case['style'],
            'tensors': [None if t is None else {'shape': list(t.shape), 'data': t.ravel().tolist()}
                        for t in case['mps']],
            'rebuild': 'qv.props.c12.build_case(seed)'}


# ------------------------------------------------------------------------------------------ helper ops

def helper_cases(ctx, n):
    from qecsim.tensortools import mps as M
    rng = ctx.rng
    ss = getattr(M, '_mps_start_stop_indices', None)
    for _ in range(n):
        L = rng.choice([0, 1, 2, 3, 4, 5, 6, 8])
        pat = rng.choice(['rand', 'rand', 'block', 'block', 'block'])
        if pat == 'rand':
            present = [rng.random() < 0.6 for _ in range(L)]
        else:
            a = rng.randint(0, L); b = rng.randint(a, L)
            present = [a <= i < b for i in range(L)]
            if rng.random() < 0.2 and L:
                present[rng.randrange(L)] ^= True
        mps = [np.zeros((rng.randint(1, 4), rng.randint(1, 3), rng.randint(1, 4), rng.randint(1, 3))) + 1.0
               if p else None for p in present]
        w = wire_mps(shapes_of(mps))
        if ss is not None:
            try:
                a, b = ss(mps); impl = 'ok {},{}'.format(a, b)
            except ValueError as ex:
                impl = err_name(ex)
            ctx.case('c12 startstop ' + w, impl, nontrivial=any(present), meta={'helper': True})
            runs = sum(1 for i, p in enumerate(present) if p and (i == 0 or not present[i - 1]))
            ctx.count('startstop', impl.split()[0])
            if (runs > 1) != (impl == 'ValueError:gap'):
                ctx.monitor_fail('_mps_start_stop_indices: {} runs of tensors but outcome {}'.format(runs, impl),
                                 {'present': present}, key='gap-not-raised')
        z = M.zeros_like(mps)
        ctx.case('c12 zeros ' + w, 'ok ' + wire_mps(shapes_of(z)), nontrivial=any(present), meta={'helper': True})
        if not all_zero(z):
            ctx.monitor_fail('zeros_like returned non-zero entries', {'present': present}, key='zero-handling')
        ctx.case('c12 rev ' + w, 'ok ' + wire_mps(shapes_of(M.reverse(mps))), nontrivial=any(present),
                 meta={'helper': True})
        ctx.case('c12 bond ' + w, 'ok {}'.format(int(M.bond_dimension(mps))), nontrivial=any(present),
                 meta={'helper': True})


# ------------------------------------------------------------------------------------------ run / search / replay

def run(ctx):
    stats = {}
    helper_cases(ctx, ctx.scale(500, 5000))
    n = ctx.scale(10000, 120000)
    skipped = 0
    for _ in range(n):
        seed = ctx.rng.getrandbits(48)
        case = build_case(seed)
        line, impl, fails, info = evaluate(case, stats)
        ctx.count('op', case['op']); ctx.count('kind', case['kind']); ctx.count('style', case['style'])
        ctx.count('length', len(case['mps'])); ctx.count('chi', case['chi']); ctx.count('tol', case['tol'])
        ctx.count('qr', case['qr']); ctx.count('malformed', case['malformed'])
        ctx.count('mask', 'None' if case['mask'] is None else 'all-false' if not any(case['mask']) else
                  'all-true' if all(case['mask']) else 'mixed')
        ctx.count('outcome', impl.split()[0]); ctx.count('decompositions', info['decomps'])
        if impl.startswith('ok'):
            ctx.count('zero_flag', ' z=1 ' in impl)
        if info['skip']:
            skipped += 1
            ctx.count('skipped', info['skip'])
            continue
        ctx.case(line, impl, nontrivial=info['decomps'] > 0, meta={'seed': seed})
        for f in fails:
            ctx.monitor_fail(f['what'], case_desc(case), key=f['key'])
    rules = {
        'finite': 'no NaN/inf in any output tensor or norm (numpy divide/invalid errors raised during the call)',
        'shapes_consistent': 'None pattern and physical dims unchanged, consecutive output bonds equal',
        'mask_and_rank_steps': 'per decomposition: QR iff qr or mask[site] false (original index); kept rank = '
                               'min(rows, cols, #(sigma/sigma0 > tol), chi) recomputed in floats',
        'zero_state': 'zero flag or exact zero tensor => zeros_like output, exact zeros, norm 0',
        'truncate_guard': 'truncate returns its input object with norm 1.0 iff the documented no-op condition holds',
        'bond_le_chi': 'every inner bond <= chi after truncate with mask None / all true',
        'isometry_sites': 'max |Q^T Q - 1| <= 1e-10 for every site but the orthogonality centre',
        'unit_norm': '| |dense(out)| - 1 | <= 1e-10 for normalise=True',
        'state_preservation': '|dense(in) - norm*dense(out)| <= 1e-10 * prod |A_i|_F when no singular value was dropped',
        'zero_preserved': 'zero result only for |dense(in)| <= 1e-10 * prod |A_i|_F',
        'truncation_error': '|dense(in) - norm*dense(out)| <= norm*sqrt(sum discarded sigma^2)(1+1e-8) + 1e-11*scale',
        'truncating_canonical_form(shape-only)': 'lcf/rcf with chi/tol dropping values: only shape clauses apply',
    }
    ctx.explored = {k: {'evaluations': v, 'rule': rules.get(k, k), 'exhaustive': False} for k, v in sorted(stats.items())}
    ctx.extra['skipped_float_boundary'] = skipped
    ctx.assumptions = [
        'LAPACK (scipy.linalg.qr / svd gesvd) returns factors with A = QR, Q^T Q = 1, A = U S V^T, S descending: '
        'assumed by the algebraic reading of the property; supported numerically by the isometry / preservation '
        'monitors of this run, not proved',
        'the singular values / norms recorded by wrapping scipy.linalg inside qecsim.tensortools.mps are what the code '
        'branched on (oracle input of the Lean shape model)',
        'sigma/sigma0 > tol is evaluated over Q in the model and in IEEE double in the code; cases where the rounded '
        'quotient lands exactly on tol while the exact one does not are skipped (counted in skipped_float_boundary)',
        'mpmath accumulates the norm exactly enough that norm == 0 iff a zero flag was raised',
    ]
    return ctx.finish(RULE, search=search, explanation=(
        'level "proof" covers the shape/guard/control-flow theorems of Props/C12.lean only; the numeric clauses '
        '(state preservation, isometry, unit norm, truncation error bound, no NaN) are explored by monitors on the real '
        'outputs, see coverage.explored'))


VARIANT_CHI = [None, 1, 2, 3, 5]


def search(m):
    """evaluate the property clauses on the real code for the disagreeing case and for near variants (same tensors,
    other chi / tol / mask / op); return a concrete failing input or None"""
    meta = m.get('meta') or {}
    if 'seed' not in meta:
        # helper op: evaluate the helper contracts on the pattern of the line
        toks = m['op'].split()
        if len(toks) == 3 and toks[1] == 'startstop':
            present = [s != 'N' for s in toks[2].split(';')] if toks[2] != '_' else []
            runs = sum(1 for i, p in enumerate(present) if p and (i == 0 or not present[i - 1]))
            if (runs > 1) != (m['impl'] == 'ValueError:gap'):
                return {'what': '_mps_start_stop_indices: {} runs of tensors but outcome {}'.format(runs, m['impl']),
                        'present': present}
            if m['impl'].startswith('ok') and runs == 1:
                a = present.index(True); b = a + sum(present)
                if m['impl'] != 'ok {},{}'.format(a, b):
                    return {'what': '_mps_start_stop_indices returned {} for the run [{}, {})'.format(m['impl'], a, b),
                            'present': present}
        return None
    case = build_case(meta['seed'])
    _, _, fails, _ = evaluate(case)
    if fails:
        return dict(case_desc(case), what=fails[0]['what'], key=fails[0]['key'])
    rng = random.Random(meta['seed'])
    for _ in range(300):
        v = dict(case)
        v['op'] = rng.choice(['lcf', 'rcf', 'trunc'])
        v['chi'] = rng.choice(VARIANT_CHI)
        v['tol'] = rng.choice(TOLS)
        v['qr'] = v['op'] != 'trunc' and not v['chi'] and not v['tol'] and rng.random() < 0.5
        v['normalise'] = rng.random() < 0.5
        v['mask'] = rng.choice([None, [rng.random() < 0.5 for _ in case['mps']]])
        if case['malformed'] == 'mask-length':
            v['malformed'] = None
        _, _, fails, _ = evaluate(v)
        if fails:
            return dict(case_desc(v), what=fails[0]['what'], key=fails[0]['key'], variant_of_seed=meta['seed'])
    return None


def _case_from_desc(d):
    case = build_case(d['seed']) if 'variant_of_seed' not in d else build_case(d['variant_of_seed'])
    for k in ('op', 'chi', 'tol', 'qr', 'normalise', 'mask'):
        case[k] = d[k]
    if 'variant_of_seed' in d and case['malformed'] == 'mask-length':
        case['malformed'] = None
    case['mps'] = [None if t is None else np.array(t['data'], dtype=float).reshape(t['shape']) for t in d['tensors']]
    return case


def replay(ctx, path):
    body = json.load(open(path))
    bad = 0
    for v in body.get('violations', []):
        ce = v.get('counterexample')
        if ce:
            d = ce.get('input', ce)
            if isinstance(d, dict) and 'tensors' in d:
                _, impl, fails, _ = evaluate(_case_from_desc(d))
                print('replay seed', d.get('seed'), d.get('op'), '->', impl[:100], [f['what'] for f in fails][:3])
                bad += bool(fails)
                continue
            if isinstance(d, dict) and 'present' in d:
                r = search({'op': 'c12 startstop ' + (';'.join('1,1,1,1' if p else 'N' for p in d['present']) or '_'),
                            'impl': _startstop_now(d['present'])})
                print('replay startstop', d['present'], '->', r)
                bad += bool(r)
                continue
        mm = v.get('first_mismatch')
        if mm:
            r = search(mm)
            print('replay', mm['op'][:120], '->', (r or {}).get('what'))
            bad += bool(r)
    return 1 if bad else 0


def _startstop_now(present):
    from qecsim.tensortools import mps as M
    mps = [np.ones((1, 1, 1, 1)) if p else None for p in present]
    try:
        return 'ok {},{}'.format(*M._mps_start_stop_indices(mps))
    except ValueError as ex:
        return err_name(ex)
