"""C12 — MPS canonical forms and truncation honour their contracts
(qecsim.tensortools.mps against Model/MpsShape.lean)

What is PROVED (Props/C12.lean, LEVEL = 'proof' refers to these only): the shape / guard / control-flow clauses of
the property, for all lengths, all dimension assignments and all oracle singular-value lists — every bond <= chi
after truncate with a full mask, truncate is the identity exactly when its guard says so, masked-off sites are
decomposed by QR at full rank (mask reversal of right_canonical_form included), a zero flag at any step gives
zeros_like and norm 0 with no later step, a non-contiguous list raises, output bonds are consistent.
The tie (a): every generated call is run on the real code with scipy.linalg.qr/svd/norm wrapped from outside (no
edit of /repo) to record what each step saw; the shapes of all output tensors, kept ranks, step kinds, error kinds
and zero flags are compared EXACTLY with the Lean shape model, which receives the recorded norms / singular values
as exact rationals (oracle input).

What is EXPLORED, not proved (ctx.explored, monitors evaluated directly on the real outputs with tolerances): state
preservation (dense contraction before/after, times the returned norm), left/right isometry residual <= 1e-10, unit
norm of a normalised result, truncation error <= sqrt(sum of discarded Schmidt weight)(1+1e-8) + 1e-11*scale, zero
state => exact zero tensors and norm 0, no NaN/inf anywhere (numpy divide/invalid set to raise), no exception on
well-formed input.  These are supporting evidence for the oracle hypotheses (LAPACK returns A = QR with Q^T Q = 1,
A = U S V^T), not theorems.

Oracle of a QR step: the Frobenius norm of the R factor LAPACK returned, computed BY THE HARNESS from the recorded R
(scipy.linalg.norm, the function the unchanged code uses, so both agree bit for bit on it) — not whatever the code
derives from R to take its zero decision.  A zero result that no recorded factor (|R|_F, sigma_0, last-tensor norm)
backs is reported as a non-zero state mapped to zero.

RETURN TYPE / ARITY (`result_problem`, key result-type): every call that returns is first checked for the documented
type — a list of len(mps) of None / 4-index arrays, or (normalise=True / truncate) a 2-tuple (such a list, number) —
before anything is unpacked; in particular the zero-state exits with qr=True and normalise=False.
SYSTEMATIC classes (`special_specs`, str seeds 'S{json}', rebuilt by `build_special`), next to the random cases:
'zero' = zero states (all tensors zero / one zero tensor at the first, a middle, the last position; 6 chains incl. MPO, a
single site and open boundary dims; with / without None padding) x every op x qr x normalise x 8 mask kinds (None,
all-false, all-true, last / first tensor off, alternating, only first / last on; truncate: chi x tol incl. 1.0);
'tolge1' = non-zero states x tol in {1.0, 1.5, 1e3} x every op x normalise x chi x the mask kinds: since repo fix bea8d12
a tol that no normalised singular value exceeds is a ZERO EXIT (zeros_like, norm 0; truncate returns the norm of its
first sweep with the zero tensors) — modelled as a zero-flag step in Model/MpsShape.lean (`stepDecide`; theorems
`tol_discards_all_is_zero_exit`, `tol_discards_all_gives_zeros`, `kept_rank_pos` in Props/C12.lean); monitors: no
exception, result zeros_like, norm 0 / |in| as the code has it (tol_discards_all, tol_exit_truncate_norm).

BALANCED class (`build_balanced`, str seeds 'B<int>'; search variant `balanced_copy`): a huge dynamic range ALONG the
chain that cancels — per-site scales 1e+-(42..140) on 5..8 sites (up to 1e+-9 / 20 / 40 on 40..100 sites) arranged so
that a partial product of the per-site norms (a prefix, a suffix, an interior stretch; interleaved / shuffled controls)
passes 1e+-330 while every tensor entry stays inside 1e+-154, the state norm inside 1e+-120 and the scale a
non-normalising sweep has accumulated when it reaches the centre inside 1e+-250.  Tensors, state and result are
ordinary float64 objects, so normalise=False is IN the domain there and all clauses (state preservation above all) are
claimed: the running norm of a sweep need not fit a float, only its final value does.

All numeric monitors are SCALE-FREE: every tensor is divided by its Frobenius norm, the product of these norms and
the returned norm are carried as mpmath mpf (120 bits), and only O(1) quantities are compared.  Chains too long for a
dense contraction (40..100 sites) are compared through transfer-matrix overlaps <in|in>, <in|out>, <out|out>
accumulated in long double with an mpf scale (relative error, magnitude ratio and 1 - cosine).  So inputs whose norm
lies far outside the float range (uniform scales 1e-150..1e150 on short chains, 1e-9..1e9 on long ones) are checked
like any other, and the returned norm is checked as a number (finite, >= 0, the right magnitude), whatever its type;
a norm that is not an mpf triggers a re-run of the same call on a uniformly rescaled copy whose norm leaves the float
range.  normalise=False on such a state cannot be honoured by float64 tensors (the centre tensor would have to carry
the norm): outside the domain, counted, checked only for 'no exception' and 'the cast was announced by the logged
warning' (the module's `logger` is wrapped like `sp_linalg`), see RANGE_KEY.

ENTRIES BEYOND 1e+-154 (key TINY_KEY = 'lcf.nonzero-state-with-tiny-or-huge-entries'): qecsim <= bea8d12 took Frobenius norms
by scipy.linalg.norm on 2-d / 4-d arrays (squares formed in float64), so a non-zero state with entries below ~1e-154 was
mapped to the zero state and entries above ~1e154 gave norm inf; the repair (`_norm`: an out-of-window result is repeated
on the ravelled array = scaled nrm2) makes a SECOND norm call, which the recording wrapper merges into the entry of the
first (one oracle entry per logical norm: `_LinalgProxy.norm`), so the tie holds for both versions of the code.
`tiny_monitor` (deterministic, 360 cases, str seeds 'T{json}'): O(1) chains with the last / first / a middle tensor times
1e-170, 1e-200, 1e-300, 1e+170 x lcf / rcf x qr x normalise and truncate — not the zero state, finite norm, norm x result
= input to 1e-9 (reference by linearity).  EDGE class (`build_edge`, str seeds 'E<int>'): the same class at random (one or
two tensors times 1e+-(150..300)), IN the domain with all claims whenever the norm of the state stays a float (else the
RANGE_KEY rule).  `norm_by_squares_wrong` recognises the defect on a call (a norm the code took differs from nrm2 of the
same array whose norm lies outside 1e+-150): that call's failures are reported under TINY_KEY and it is not tied.
"""
import json
import random
import sys
from fractions import Fraction

import numpy as np
from mpmath import mp
from scipy.linalg import norm as _sp_norm

from qv.core import rat

LEVEL = 'proof'

RULE = ('random MPS (bra/ket) and MPO: 1..7 tensors, physical dims 1..3, bonds 1..6, open boundary dims mostly 1, '
        '0..2 leading/trailing None, styles normal / small-int / rank-deficient / scaled 1e-20..1e20 / diagonal with '
        'singular values equal to the tolerance / exact zero tensor / product-zero pair / STRUCTURED rank-deficient '
        '(matricisation in sweep orientation, left or right: single non-zero entry, zero leading columns / rows, '
        'strictly upper / lower triangular (nilpotent), shift, repeated columns, partial permutation, identity; one '
        'site or every site) / XSCALE (2..7 sites, every tensor times 1e+-30..1e+-150: state norm far outside the '
        'float range) / LONG (40..100 sites, bonds 1..2, physical dims 1..2, every tensor times 1e-9..1e9, optional '
        'structured site) / BALANCED (5..8 sites with per-site scales 1e+-(42..140), or 40..100 sites with up to '
        '1e+-40, whose partial products along the chain pass 1e+-330 — prefix, suffix, interior, interleaved and '
        'shuffled arrangements — while entries, state norm and final accumulated scale stay well inside the float '
        'range; every op, qr/svd, normalise mostly False) / EDGE (2..6 sites, one or two tensors times 1e+-(150..300): '
        'entries whose squares leave the float range; every op, qr/svd, normalise both) / TINY-HUGE family (deterministic: '
        'last / first / middle tensor times 1e-170, 1e-200, 1e-300, 1e+170 x every op x qr x normalise); malformed stream: internal None '
        'gap, all-None and empty lists, bond mismatch, wrong mask length, chi or tol with qr; ops '
        'left_canonical_form / right_canonical_form (qr and svd, chi in None,0,1..7, tol in None,0,1e-12,1e-3,0.5 and '
        'tol >= 1: 1.0,1.5,1e3 (nothing kept: zero exit), normalise both, masks None/random/all-false/all-true) and '
        'truncate; SYSTEMATIC classes: zero states (all tensors zero / one zero tensor first, middle, last; 6 chains '
        'incl. MPO and open boundary; with / without None padding) x every op x qr x normalise x 8 mask kinds, and '
        'non-zero states x tol >= 1 x every op x normalise x chi x 8 mask kinds; return type / arity of every call '
        'checked; helper ops _mps_start_stop_indices, '
        'zeros_like, reverse, bond_dimension on random None patterns. Exact comparison of shapes, step kinds, kept '
        'ranks, zero flags and error kinds with the Lean model; numeric contracts as monitors. non-trivial = at least '
        'one decomposition was performed')

TOLS = [None, 0.0, 1e-12, 1e-3, 0.5]
# tol >= 1: no normalised singular value (sigma/sigma_0 <= 1) exceeds it, `s = s[s > tol]` keeps NOTHING.  Since repo fix
# bea8d12 the sweep takes the zero exit there (zeros_like, norm 0 — `truncate` keeps the norm of its first sweep) instead
# of raising IndexError; modelled as a zero-flag step ('Z') in Model/MpsShape.lean.
TOL_GE1 = [1.0, 1.5, 1e3]
ISO_TOL = 1e-10
# a recorded norm outside this window may be repeated by the code on the ravelled array (see _LinalgProxy.norm)
NORM_LO, NORM_HI = 1e-140, 1e140
SQUARES_SAFE_LO, SQUARES_SAFE_HI = 1e-150, 1e150
DENSE_CAP = 60000


# ------------------------------------------------------------------------------------------ case generation

def gen_shapes(rng, lengths=(1, 1, 2, 2, 3, 3, 4, 5, 6, 7)):
    L = rng.choice(list(lengths))
    kind = rng.choice(['bra', 'ket', 'mpo'])
    while True:
        phys = []
        for _ in range(L):
            d1, d2 = rng.randint(1, 3), rng.randint(1, 3)
            phys.append((d1, 1) if kind == 'bra' else (1, d2) if kind == 'ket' else (d1, d2))
        n0 = 1 if rng.random() < 0.85 else rng.randint(1, 3)
        sl = 1 if rng.random() < 0.85 else rng.randint(1, 3)
        size = n0 * sl
        for e, w in phys:
            size *= e * w
        if size <= DENSE_CAP:
            break
    bonds = [n0] + [rng.randint(1, 6) for _ in range(L - 1)] + [sl]
    return kind, [(bonds[i], phys[i][0], bonds[i + 1], phys[i][1]) for i in range(L)]


def fill(rng, nrng, shp, style):
    n, e, s, w = shp
    if style == 'int':
        return nrng.integers(-2, 3, size=shp).astype(float)
    if style == 'rankdef':
        r = rng.randint(1, 2)
        a = nrng.standard_normal((n * e * w, r)) @ nrng.standard_normal((r, s))
        return np.einsum('news->nesw', a.reshape(n, e, w, s)).copy()
    if style == 'scaled':
        return nrng.standard_normal(shp) * 10.0 ** rng.randint(-20, 20)
    return nrng.standard_normal(shp)


ONE_PATTERNS = ['single', 'zero-lead-cols', 'zero-lead-rows', 'nilpotent-upper', 'nilpotent-lower', 'shift',
                'repeat-cols', 'perm']
ALL_PATTERNS = ONE_PATTERNS + ['perm', 'identity', 'identity', 'shift', 'dense']


def struct_matrix(rng, nrng, rows, cols, pat, ints):
    """rows x cols matrix with a rank-deficient / sparse structure (falls back to a dense block when the pattern does
    not fit the dimensions, so that the tensor is not identically zero by accident)"""
    def vals(size):
        if ints:
            return nrng.choice(np.array([-2.0, -1.0, 1.0, 2.0]), size=size)
        return nrng.standard_normal(size)
    m = np.zeros((rows, cols))
    if pat == 'single':
        m[rng.randrange(rows), rng.randrange(cols)] = float(vals(1)[0])
    elif pat == 'zero-lead-cols' and cols >= 2:
        k = rng.randint(1, cols - 1)
        m[:, k:] = vals((rows, cols - k))
    elif pat == 'zero-lead-rows' and rows >= 2:
        k = rng.randint(1, rows - 1)
        m[k:, :] = vals((rows - k, cols))
    elif pat == 'nilpotent-upper' and cols >= 2:
        m = np.triu(vals((rows, cols)), 1)
    elif pat == 'nilpotent-lower' and rows >= 2:
        m = np.tril(vals((rows, cols)), -1)
    elif pat == 'shift' and cols >= 2:
        for i in range(min(rows, cols - 1)):
            m[i, i + 1] = 1.0
    elif pat == 'repeat-cols' and cols >= 2:
        r = rng.randint(1, max(1, min(rows, cols) - 1))
        basis = vals((rows, r))
        for j in range(cols):
            m[:, j] = basis[:, rng.randrange(r)] * rng.choice([1.0, 1.0, -1.0, 2.0])
    elif pat == 'perm':
        k = rng.randint(1, min(rows, cols))
        m[rng.sample(range(rows), k), rng.sample(range(cols), k)] = 1.0
    elif pat == 'identity':
        for i in range(min(rows, cols)):
            m[i, i] = 1.0
    else:
        m = vals((rows, cols))
    return np.asarray(m, dtype=float)


def struct_tensor(rng, nrng, shp, pat, orient, ints):
    """tensor whose matricisation in sweep orientation — 'L': (n e w) x s as left_canonical_form sees it, 'R': (s e w)
    x n as right_canonical_form sees it — is the structured matrix"""
    n, e, s, w = shp
    if orient == 'L':
        return np.einsum('news->nesw', struct_matrix(rng, nrng, n * e * w, s, pat, ints).reshape(n, e, w, s)).copy()
    return np.einsum('sewn->nesw', struct_matrix(rng, nrng, s * e * w, n, pat, ints).reshape(s, e, w, n)).copy()


def struct_tensors(rng, nrng, shapes):
    """structured rank-deficient chain: one structured site (mostly the one the sweep meets first) among generic ones,
    or every site structured (sparse 0/1 routing patterns survive the R factors of the sweep)"""
    L = len(shapes)
    orient = rng.choice('LR')
    ints = rng.random() < 0.6
    if rng.random() < 0.5:
        tensors = [fill(rng, nrng, s, 'int' if ints else 'normal') for s in shapes]
        first = 0 if orient == 'L' else L - 1
        i = first if rng.random() < 0.6 else rng.randrange(L)
        tensors[i] = struct_tensor(rng, nrng, shapes[i], rng.choice(ONE_PATTERNS), orient, ints)
        return tensors
    return [struct_tensor(rng, nrng, s, rng.choice(ALL_PATTERNS), orient, ints) for s in shapes]


def gen_long(rng):
    L = rng.randint(40, 100)
    kind = rng.choice(['bra', 'ket', 'mpo'])
    phys = []
    for _ in range(L):
        d1, d2 = rng.choice([1, 2, 2]), rng.choice([1, 2, 2])
        phys.append((d1, 1) if kind == 'bra' else (1, d2) if kind == 'ket' else (d1, d2))
    bonds = [1] + [rng.choice([1, 2, 2, 2]) for _ in range(L - 1)] + [1]
    return kind, [(bonds[i], phys[i][0], bonds[i + 1], phys[i][1]) for i in range(L)]


def build_case(seed):
    """deterministic construction of one case from an integer seed (drawn from ctx.rng by run()); a str seed is a case
    of a SYSTEMATIC class ('S' + JSON spec, see special_specs / build_special)"""
    if isinstance(seed, str):
        return build_balanced(seed) if seed.startswith('B') else build_tiny(seed) if seed.startswith('T') else \
            build_edge(seed) if seed.startswith('E') else build_special(seed)
    rng = random.Random(seed)
    nrng = np.random.default_rng(seed)
    cls = rng.random()
    if cls < 0.05:
        style = 'long'
        kind, shapes = gen_long(rng)
    else:
        kind, shapes = gen_shapes(rng)
        if cls < 0.13:
            style = 'xscale'
        elif cls < 0.30:
            style = 'struct'
        else:
            style = rng.choice(['normal', 'normal', 'int', 'rankdef', 'scaled', 'diag', 'zero', 'zero', 'prodzero'])
    base = style if style in ('int', 'rankdef', 'scaled') else rng.choice(['normal', 'int'])
    if style == 'struct' or (style == 'xscale' and rng.random() < 0.3):
        tensors = struct_tensors(rng, nrng, shapes)
    else:
        tensors = [fill(rng, nrng, s, base) for s in shapes]
    L = len(tensors)
    if style == 'long':
        if rng.random() < 0.25:
            i = rng.choice([0, L - 1, rng.randrange(L)])
            tensors[i] = struct_tensor(rng, nrng, shapes[i], rng.choice(ONE_PATTERNS), rng.choice('LR'), base == 'int')
        c = 10.0 ** rng.choice([-9, -8, -7, -6, -5, -4, -3, -2, -1, -1, 0, 0, 1, 1, 2, 3, 4, 5, 6, 7, 8, 9])
        tensors = [t * c for t in tensors]
    elif style == 'xscale':
        c = 10.0 ** (rng.choice([-1, 1]) * rng.randint(30, 150))
        tensors = [t * c for t in tensors]
    zero_exact = False
    if style == 'zero':
        tensors[rng.randrange(L)][...] = 0.0
        zero_exact = True
    elif style == 'prodzero' and L >= 2:
        i = rng.randrange(L - 1)
        b = shapes[i][2]
        if b >= 2:
            h = b // 2
            tensors[i][:, :, h:, :] = 0.0
            tensors[i + 1][:h, :, :, :] = 0.0
        else:
            style = 'normal'
    elif style == 'diag':
        # first tensor: matricisation (n e w) x s is diagonal with entries from a set containing the tolerances
        n, e, s, w = shapes[0]
        vals = [1.0, 0.5, 1e-3, 1e-12, 0.25, 2.0, 0.0]
        mtx = np.zeros((n * e * w, s))
        for j in range(min(n * e * w, s)):
            mtx[j, j] = 1.0 if j == 0 else rng.choice(vals)
        tensors[0] = np.einsum('news->nesw', mtx.reshape(n, e, w, s)).copy()
    mps = [None] * rng.choice([0, 0, 0, 1, 2]) + tensors + [None] * rng.choice([0, 0, 0, 1, 2])
    malformed = None
    r = rng.random()
    if r < 0.07 and L >= 2:
        start = next(i for i, t in enumerate(mps) if t is not None)
        mps.insert(start + rng.randint(1, L - 1), None)
        malformed = 'gap'
    elif r < 0.10 and L >= 2:
        i = rng.randrange(L - 1)
        start = next(k for k, t in enumerate(mps) if t is not None)
        t = mps[start + i + 1]
        mps[start + i + 1] = np.concatenate([t, t[:1]], axis=0)   # N of the next tensor no longer matches S
        malformed = 'bond'
    elif r < 0.12:
        mps = [None] * rng.randint(0, 3)
        malformed = 'no-tensors'
    op = rng.choice(['lcf', 'rcf', 'trunc', 'trunc'])
    chi = rng.choice([None, None, 0, 1, 1, 2, 2, 3, 4, 5, 7])
    tol = rng.choice(TOLS + [None, None])
    if rng.random() < 0.06:
        tol = rng.choice(TOL_GE1)
    qr = op != 'trunc' and rng.random() < 0.4
    if qr and rng.random() < 0.9:
        chi, tol = rng.choice([None, 0]), rng.choice([None, 0.0])
    normalise = rng.random() < 0.5
    mr = rng.random()
    if mr < 0.45:
        mask = None
    elif mr < 0.75:
        mask = [rng.random() < 0.5 for _ in mps]
    elif mr < 0.83:
        mask = [False] * len(mps)
    elif mr < 0.95:
        mask = [True] * len(mps)
    else:
        mask = [rng.random() < 0.5 for _ in range(len(mps) + rng.choice([-1, 1, 2]))]
        if len(mask) != len(mps):
            malformed = malformed or 'mask-length'
    return {'seed': seed, 'kind': kind, 'style': style, 'mps': mps, 'op': op, 'chi': chi, 'tol': tol, 'qr': qr,
            'normalise': normalise, 'mask': mask, 'malformed': malformed, 'zero_exact': zero_exact}


# ------------------------------------------------------------------------------------------ systematic classes

SPECIAL_CHAINS = {
    'ket4': [(1, 2, 3, 1), (3, 2, 3, 1), (3, 2, 3, 1), (3, 2, 1, 1)],
    'ket2': [(1, 2, 2, 1), (2, 2, 1, 1)],
    'bra3': [(1, 1, 2, 3), (2, 1, 4, 2), (4, 1, 1, 2)],
    'one': [(1, 3, 1, 1)],
    'mpo3': [(1, 2, 2, 2), (2, 2, 3, 2), (3, 2, 1, 2)],
    'open3': [(2, 2, 3, 1), (3, 2, 2, 1), (2, 2, 2, 1)],
}
MASK_KINDS = ['none', 'all-false', 'all-true', 'last-false', 'first-false', 'alternating', 'only-first', 'only-last']


def special_mask(kind, mps):
    idx = [i for i, t in enumerate(mps) if t is not None]
    n = len(mps)
    if kind == 'none':
        return None
    if kind == 'all-false':
        return [False] * n
    if kind == 'all-true':
        return [True] * n
    if kind == 'alternating':
        return [i % 2 == 0 for i in range(n)]
    m = [kind in ('last-false', 'first-false')] * n
    if idx:
        m[idx[-1] if kind in ('last-false', 'only-last') else idx[0]] = kind in ('only-first', 'only-last')
    return m


def special_specs():
    """the two systematic classes, as JSON-able specs:
    'zero'   — ZERO STATES: all tensors zero / one zero tensor at the first, a middle, the last position (the other
               tensors generic), with and without None padding x every op x qr in {True, False} x normalise in {True,
               False} x 8 mask kinds (truncate: chi in {1, 2} x tol in {None, 1e-3, 1.0}): the result must have the
               documented TYPE (list, or 2-tuple (list, norm) — normalise=False with QR included), be zeros_like, and
               the norm 0;
    'tolge1' — NON-ZERO states x tol in {1.0, 1.5, 1e3} x every op (SVD) x normalise x masks x chi: no exception, the
               result is the zero state (zeros_like), norm 0 for a normalising canonical form, the norm of the first
               sweep for truncate (the code's semantics)."""
    out = []
    for chain, shapes in sorted(SPECIAL_CHAINS.items()):
        L = len(shapes)
        for pad in ([0, 0], [1, 2]):
            poss = ['all'] + sorted({0, L // 2, L - 1})
            for pos in poss:
                base = {'cls': 'zero', 'chain': chain, 'pad': pad, 'pos': pos}
                for mk in MASK_KINDS:
                    for op in ('lcf', 'rcf'):
                        for qr in (True, False):
                            for nm in (True, False):
                                out.append(dict(base, op=op, qr=qr, normalise=nm, mask=mk, chi=None, tol=None))
                    for chi in (1, 2):
                        for tol in (None, 1e-3, 1.0):
                            out.append(dict(base, op='trunc', qr=False, normalise=False, mask=mk, chi=chi, tol=tol))
            if L < 2:
                continue
            base = {'cls': 'tolge1', 'chain': chain, 'pad': pad, 'pos': None}
            for mk in MASK_KINDS:
                for tol in TOL_GE1:
                    for chi in (None, 1, 2):
                        for op in ('lcf', 'rcf'):
                            for nm in (True, False):
                                out.append(dict(base, op=op, qr=False, normalise=nm, mask=mk, chi=chi, tol=tol))
                        out.append(dict(base, op='trunc', qr=False, normalise=False, mask=mk, chi=chi, tol=tol))
    return out


def special_seed(spec, k):
    return 'S' + json.dumps(dict(spec, rs=k), sort_keys=True)


def build_special(seed):
    spec = json.loads(seed[1:])
    shapes = SPECIAL_CHAINS[spec['chain']]
    nrng = np.random.default_rng(spec['rs'])
    ints = spec['rs'] % 2 == 0
    tensors = [nrng.integers(1, 4, size=s).astype(float) * nrng.choice([-1.0, 1.0], size=s) if ints
               else nrng.standard_normal(s) for s in shapes]
    if spec['cls'] == 'zero':
        for i in (range(len(shapes)) if spec['pos'] == 'all' else [spec['pos']]):
            tensors[i] = np.zeros(shapes[i])
    mps = [None] * spec['pad'][0] + tensors + [None] * spec['pad'][1]
    kind = 'mpo' if spec['chain'].startswith('mpo') else 'bra' if spec['chain'].startswith('bra') else 'ket'
    return {'seed': seed, 'kind': kind, 'style': 'class:' + spec['cls'], 'mps': mps, 'op': spec['op'], 'chi': spec['chi'],
            'tol': spec['tol'], 'qr': spec['qr'], 'normalise': spec['normalise'], 'mask': special_mask(spec['mask'], mps),
            'malformed': None, 'zero_exact': spec['cls'] == 'zero', 'mask_kind': spec['mask']}


# ------------------------------------------------------------------------------------------ tiny / huge entries

# GENUINE DEFECT of qecsim <= bea8d12 (repaired by `_norm` in tensortools/mps.py): left_canonical_form took Frobenius
# norms by scipy.linalg.norm on a 2-d / 4-d array, i.e. sqrt(sum x^2) with the squares formed in float64.  Entries below
# ~1e-154 square to 0 (a NON-ZERO tensor gets norm 0.0 => the zero exit: zeros_like and norm 0), entries above ~1e154
# square to inf (norm inf, tensors divided to 0, inf * 0 later).  All values involved — the tensors, the state, its norm
# — are ordinary float64 numbers, and the function keeps its overall norm as an mpf exactly to survive such scales.
TINY_KEY = 'lcf.nonzero-state-with-tiny-or-huge-entries'
TINY_FACTORS = [1e-170, 1e-200, 1e-300, 1e170]
TINY_CHAINS = {
    'repro3': [(1, 1, 2, 2), (2, 1, 2, 2), (2, 1, 1, 2)],      # default_rng(1).random: the reported reproduction
    'ket4': SPECIAL_CHAINS['ket4'],
    'mpo3': SPECIAL_CHAINS['mpo3'],
}
TINY_REL = 1e-9


def tiny_specs():
    """the deterministic family of the monitor `tiny_check` (str seeds 'T{json}'): ordinary O(1) chains with ONE tensor
    (the last / the first / a middle one) multiplied by 1e-170, 1e-200, 1e-300 or 1e+170 x op in lcf / rcf (qr x
    normalise) and truncate (tol 1e-14 so that it sweeps, nothing is discarded).  The state is non-zero, its norm is
    ~ the factor: inside the float64 range, like every entry."""
    out = []
    for chain in ('repro3', 'ket4', 'mpo3'):
        L = len(TINY_CHAINS[chain])
        for f in TINY_FACTORS:
            for pos in ('last', 'first', 'middle'):
                base = {'chain': chain, 'factor': f, 'pos': pos}
                for op in ('lcf', 'rcf'):
                    for qr in (True, False):
                        for nm in (True, False):
                            out.append(dict(base, op=op, qr=qr, normalise=nm, chi=None, tol=None))
                out.append(dict(base, op='trunc', qr=False, normalise=False, chi=None, tol=1e-14))
                out.append(dict(base, op='trunc', qr=False, normalise=False, chi=8, tol=1e-14))
    return out


def tiny_seed(spec):
    return 'T' + json.dumps(spec, sort_keys=True)


def build_tiny(seed):
    """case of the tiny / huge family; case['base'] = the O(1) tensors before the one factor was applied, case['site']
    = the index (within the run) of the scaled tensor"""
    spec = json.loads(seed[1:])
    shapes = TINY_CHAINS[spec['chain']]
    nrng = np.random.default_rng(1)
    # entries in (0, 1) as in the reproduction; the other chains get signs and stay away from 0 (no denormal product
    # at factor 1e-300: every |entry| * factor >= 1e-303 ... the repro tensors are checked in tiny_check)
    if spec['chain'] == 'repro3':
        base = [nrng.random(s) for s in shapes]
    else:
        base = [(0.25 + nrng.random(s)) * nrng.choice([-1.0, 1.0], size=s) for s in shapes]
    L = len(base)
    site = {'last': L - 1, 'first': 0, 'middle': L // 2}[spec['pos']]
    tensors = [t.copy() for t in base]
    tensors[site] = tensors[site] * spec['factor']
    kind = 'mpo' if spec['chain'].startswith('mpo') else 'ket'
    return {'seed': seed, 'kind': kind, 'style': 'class:tiny-huge', 'mps': tensors, 'op': spec['op'], 'chi': spec['chi'],
            'tol': spec['tol'], 'qr': spec['qr'], 'normalise': spec['normalise'], 'mask': None, 'malformed': None,
            'zero_exact': False, 'base': base, 'site': site, 'factor': spec['factor']}


def tiny_check(case):
    """the property on one case of the tiny / huge family, evaluated on the real code with NO recording wrapper and
    numpy's default error state (what a caller has): returns a description of the failure, else None.
    Required: no exception; documented result type; no NaN / inf; NOT the zero state; a finite norm > 0; and
    (returned norm, 1 when none is returned) x dense(result) = dense(input) to relative 1e-9.
    Reference without any arithmetic at the extreme scale: the input is (O(1) base tensors, ONE of them times the factor
    f), so by linearity dense(input) = f * dense(base) up to the 1e-16 rounding of the products entry * f (checked: no
    product is denormal); the result is compared as rho * dense(unit-Frobenius result tensors) with rho = norm * prod
    |out_i|_F / f formed in mpmath."""
    from qecsim.tensortools import mps as M
    mps, op = [t.copy() for t in case['mps']], case['op']
    f = case['factor']
    sc = case['mps'][case['site']]
    if np.any((sc != 0) & (np.abs(sc) < 1e-305)) or not np.all(np.isfinite(sc)):
        return None                                   # not a member of the class (denormal / overflowed input entries)
    call = '{}(qr={}, normalise={}, chi={}, tol={}) on O(1) tensors with tensor {} times {:g}'.format(
        {'lcf': 'left_canonical_form', 'rcf': 'right_canonical_form', 'trunc': 'truncate'}[op], case['qr'],
        case['normalise'], case['chi'], case['tol'], case['site'], f)
    try:
        with np.errstate(all='ignore'):
            if op == 'lcf':
                res = M.left_canonical_form(mps, chi=case['chi'], tol=case['tol'], qr=case['qr'],
                                            normalise=case['normalise'])
            elif op == 'rcf':
                res = M.right_canonical_form(mps, chi=case['chi'], tol=case['tol'], qr=case['qr'],
                                             normalise=case['normalise'])
            else:
                res = M.truncate(mps, chi=case['chi'], tol=case['tol'])
    except Exception as ex:  # noqa: BLE001
        return '{}: raised {!r}'.format(call, ex)[:300]
    rp = result_problem(op, case['normalise'], res, mps)
    if rp:
        return '{}: {}'.format(call, rp)
    out, norm = res if (op == 'trunc' or case['normalise']) else (res, None)
    if shapes_of(out) and [s[1::2] for s in shapes_of(out)] != [s[1::2] for s in shapes_of(mps)]:
        return '{}: physical dimensions changed'.format(call)
    with mp.workprec(120), np.errstate(all='ignore'):
        nrm = mp.mpf(1)
        if norm is not None:
            try:
                nrm = mp.mpf(norm)
            except (TypeError, ValueError):
                return '{}: returned norm {!r} is not a number'.format(call, norm)
            if not mp.isfinite(nrm):
                return '{}: returned norm is {!r} (|state| = {:.3e}: finite)'.format(
                    call, norm, float(f) * fro(dense(case['base'])))
        if not finite(out):
            return '{}: NaN / inf in the returned tensors (the state is finite, |state| ~ {:g})'.format(call, f)
        if all_zero(out) or nrm == 0:
            return ('{}: returned {} with norm {} — a NON-ZERO state (|state| = {:.6e}, every entry a normal float64) '
                    'mapped to the zero state'.format(call, 'zero tensors' if all_zero(out) else 'non-zero tensors',
                                                      'none returned' if norm is None else mp.nstr(nrm, 6),
                                                      float(f) * fro(dense(case['base']))))
        d_ref = dense(case['base'])
        t_out, a_out = unitised(out)
        d_out = dense(t_out)
        if d_out.shape != d_ref.shape:
            return '{}: open dimensions changed'.format(call)
        rho = nrm * a_out / mp.mpf(f)
        if not mp.isfinite(rho) or abs(rho) > mp.mpf('1e30'):
            return '{}: norm x result is {} times too large'.format(call, mp.nstr(rho, 6))
        rel = fro(d_ref - float(rho) * d_out) / fro(d_ref)
    if not rel <= TINY_REL:
        return '{}: |input - norm x result| / |input| = {:.3e} > {:g} (returned norm {})'.format(
            call, rel, TINY_REL, 'none' if norm is None else mp.nstr(nrm, 12))
    return None


def tiny_monitor(ctx, stats):
    """runs the whole family (deterministic, every run) and reports under TINY_KEY"""
    for spec in tiny_specs():
        case = build_tiny(tiny_seed(spec))
        what = tiny_check(case)
        stats['tiny_or_huge_entries'] = stats.get('tiny_or_huge_entries', 0) + 1
        ctx.count('tiny_huge.factor/pos', '{:g}/{}'.format(spec['factor'], spec['pos']))
        ctx.count('tiny_huge.op/qr/normalise', '{}/qr={}/normalise={}'.format(spec['op'], int(spec['qr']),
                                                                             int(spec['normalise'])))
        ctx.count('tiny_huge.outcome', 'ok' if what is None else 'FAIL')
        if what:
            ctx.monitor_fail(what, case_desc(case), key=TINY_KEY)


# ------------------------------------------------------------------------------------------ entries beyond 1e+-154

def build_edge(seed):
    """one case of the EDGE class from a str seed 'E<int>': ordinary chains of 2..6 sites with ONE tensor ('one': the
    first / the last / any) or TWO tensors times 1e+-(150..300) — 'pair': opposite signs, the state stays within
    1e+-150; 'two': same sign, the norm of the state leaves the float range (full claims for normalise=True and truncate,
    counted only for normalise=False, see range_limited).  Every entry is a normal float64, but its SQUARE is not: the
    class of TINY_KEY, drawn at random (every op, QR and SVD, masks, chi / tol mostly non-truncating)."""
    rng = random.Random(seed)
    nrng = np.random.default_rng(int(seed[1:]))
    kind, shapes = gen_shapes(rng, lengths=(2, 2, 3, 3, 4, 4, 5, 6))
    L = len(shapes)
    base = rng.choice(['normal', 'int'])
    if rng.random() < 0.15:
        tensors = struct_tensors(rng, nrng, shapes)
    else:
        tensors = [fill(rng, nrng, s, base) for s in shapes]
    arr = rng.choice(['one', 'one', 'one', 'pair', 'pair', 'two'])
    sgn = rng.choice([-1, 1])
    k1 = sgn * rng.choice([rng.randint(150, 275), rng.randint(150, 275), rng.randint(276, 300)])
    i = rng.choice([0, L - 1, rng.randrange(L)])
    ks = [0] * L
    ks[i] = k1
    if arr != 'one':
        j = rng.choice([x for x in range(L) if x != i])
        ks[j] = (-sgn if arr == 'pair' else sgn) * rng.randint(150, 300)
    tensors = [t * 10.0 ** k if k else t for t, k in zip(tensors, ks)]
    mps = [None] * rng.choice([0, 0, 0, 1, 2]) + tensors + [None] * rng.choice([0, 0, 0, 1, 2])
    op = rng.choice(['lcf', 'lcf', 'rcf', 'rcf', 'trunc'])
    qr = op != 'trunc' and rng.random() < 0.5
    if qr:
        chi, tol = rng.choice([None, None, 0]), rng.choice([None, None, 0.0])
    else:
        chi = rng.choice([None, None, None, 0, 7, 7, 2, 1])
        tol = rng.choice([None, None, None, 0.0, 1e-12, 1e-3])
    normalise = rng.random() < 0.5
    mr = rng.random()
    if mr < 0.6:
        mask = None
    elif mr < 0.8:
        mask = [rng.random() < 0.5 for _ in mps]
    elif mr < 0.9:
        mask = [False] * len(mps)
    else:
        mask = [True] * len(mps)
    return {'seed': seed, 'kind': kind, 'style': 'edge:' + arr, 'mps': mps, 'op': op, 'chi': chi, 'tol': tol, 'qr': qr,
            'normalise': normalise, 'mask': mask, 'malformed': None, 'zero_exact': False, 'edge_exponents': ks}


def norm_by_squares_wrong(segs):
    """the defect of TINY_KEY observed on this very call: a Frobenius norm the code took (its own value for |R|_F, or the
    last-tensor norm) differs from the scaled nrm2 of the same array — zero / inf / inaccurate because the squares of
    the entries left the float range.  Returns a description, else None.  Never true for the repaired code (an
    out-of-window result is repeated on the ravelled array, which IS nrm2)."""
    for seg in segs:
        for c in seg['calls']:
            if 'nrm2' not in c:
                continue
            used = c['code'] if c['k'] == 'Q' else c['val']
            ref = c['nrm2']
            if used is None or used == ref or SQUARES_SAFE_LO < ref < SQUARES_SAFE_HI:
                # inside this window the squares of the dominant entries are normal floats: a wrong value there is NOT
                # this defect (a change of the code that miscomputes norms keeps its own keys)
                continue
            if not (np.isfinite(used) and np.isfinite(ref) and abs(used - ref) <= 1e-9 * ref):
                return 'the code took |{}|_F = {!r} for an array of shape {} whose Frobenius norm is {!r}'.format(
                    'R' if c['k'] == 'Q' else 'last tensor', used, tuple(c['shape']), ref)
    return None


# ------------------------------------------------------------------------------------------ balanced extreme scales

# per-tensor decimal exponent limit of the BALANCED class: every entry stays well inside 1e+-154, where unscaled norms
# (numpy's sqrt(sum x^2), reached by scipy.linalg.norm on 4-index arrays) square them without leaving the float range
BAL_KMAX = 140
BAL_EXCURSION = 330      # least |decimal exponent| a partial product of per-site scales reaches (float range: 1e+-308)
BAL_ORDERS = ['prefix', 'prefix', 'prefix', 'suffix', 'suffix', 'suffix', 'middle', 'interleaved', 'shuffled']


def balanced_exponents(rng, L, kmax):
    """decimal exponents k_0..k_{L-1}, |k_i| <= kmax, of per-site scales with a HUGE DYNAMIC RANGE ALONG THE CHAIN that
    cancels: the first h sites share one sign and multiply to 1e+-(330..h*kmax) — outside the float range — and the
    remaining sites compensate, so that the product of all sites (the scale of the state) lies within 1e+-100 and the
    product of all sites but the last (what a non-normalising sweep has accumulated when it reaches the centre) within
    1e+-250: every tensor, the state and the result are ordinary float64 objects, only PARTIAL products of the
    per-site norms leave the float range on the way.  None when L is too short for kmax."""
    hmin = -(-BAL_EXCURSION // kmax)
    if L < hmin + 2:
        return None
    for _ in range(200):
        h = rng.randint(hmin, L - 2)
        lo = -(-BAL_EXCURSION // h)
        sgn = rng.choice([-1, 1])
        pre = [sgn * rng.randint(lo, kmax) for _ in range(h)]
        total = rng.randint(-100, 100)
        rest_n = L - h
        share = (total - sum(pre)) / rest_n
        room = kmax - abs(share)
        if room < 0:
            continue
        jit = [rng.uniform(-room, room) / 2 for _ in range(rest_n)]
        mean = sum(jit) / rest_n
        rest = [int(round(share + j - mean)) for j in jit]
        ks = pre + rest
        if max(abs(k) for k in ks) <= kmax and abs(sum(ks)) <= 120 and abs(sum(ks[:-1])) <= 250 and \
                abs(sum(ks[1:])) <= 250:
            return ks
    return None


def balanced_order(rng, ks, order):
    """arrangement of the exponents along the chain: 'prefix' as built (excursion met by a left-to-right sweep),
    'suffix' mirrored (met by right_canonical_form), 'middle' rotated (excursion in the interior, both sweeps meet a
    part of it), 'interleaved' (same multiset, partial products kept as small as the multiset allows: control),
    'shuffled'"""
    ks = list(ks)
    if order == 'suffix':
        ks.reverse()
    elif order == 'middle':
        r = rng.randrange(len(ks))
        ks = ks[r:] + ks[:r]
    elif order == 'shuffled':
        rng.shuffle(ks)
    elif order == 'interleaved':
        pool, out, acc = sorted(ks), [], 0
        while pool:
            k = pool.pop(0) if acc > 0 else pool.pop()
            out.append(k)
            acc += k
        ks = out
    return ks


def pow10_as_pow2(k):
    """the power of two nearest 1e(k): scaling by it is exact (small-integer tensors stay exactly representable)"""
    return float(np.ldexp(1.0, int(round(k * 3.321928094887362))))


def balanced_scale(tensors, ks):
    """tensor i (ordinary magnitude) times the power of two nearest 1e(k_i)"""
    return [t * pow10_as_pow2(k) for t, k in zip(tensors, ks)]


def build_balanced(seed):
    """one case of the BALANCED class from a str seed 'B<int>': ordinary random / small-integer / structured tensors on
    5..8 sites (per-site scales 1e+-(42..140)) or 40..100 sites (per-site scales up to 1e+-9 / 1e+-20 / 1e+-40) times
    balanced_exponents in one of BAL_ORDERS; every op, QR and SVD, normalise both (mostly False: the sweep that has to
    carry the accumulated scale into the centre tensor), chi / tol mostly non-truncating, masks"""
    rng = random.Random(seed)
    nrng = np.random.default_rng(int(seed[1:]))
    long_ = rng.random() < 0.08
    if long_:
        kind, shapes = gen_long(rng)
        kmax = rng.choice([9, 20, 40])
    else:
        kind, shapes = gen_shapes(rng, lengths=(5, 5, 5, 6, 6, 7, 7, 8))
        kmax = BAL_KMAX
    L = len(shapes)
    base = rng.choice(['normal', 'int'])
    if rng.random() < 0.2:
        tensors = struct_tensors(rng, nrng, shapes)
    else:
        tensors = [fill(rng, nrng, s, base) for s in shapes]
    order = rng.choice(BAL_ORDERS)
    ks = None
    for km in (kmax, 20, 40, BAL_KMAX):       # a chain too short for the drawn per-site limit gets the next one
        ks = ks or balanced_exponents(rng, L, km)
    ks = balanced_order(rng, ks, order)
    tensors = balanced_scale(tensors, ks)
    mps = [None] * rng.choice([0, 0, 0, 1, 2]) + tensors + [None] * rng.choice([0, 0, 0, 1, 2])
    op = rng.choice(['lcf', 'lcf', 'rcf', 'rcf', 'trunc'])
    qr = op != 'trunc' and rng.random() < 0.5
    if qr:
        chi, tol = rng.choice([None, None, 0]), rng.choice([None, None, 0.0])
    else:
        chi = rng.choice([None, None, None, 0, 7, 7, 2, 1])
        tol = rng.choice([None, None, None, 0.0, 1e-12, 1e-3])
    normalise = rng.random() < 0.3
    mr = rng.random()
    if mr < 0.6:
        mask = None
    elif mr < 0.8:
        mask = [rng.random() < 0.5 for _ in mps]
    elif mr < 0.9:
        mask = [False] * len(mps)
    else:
        mask = [True] * len(mps)
    return {'seed': seed, 'kind': kind, 'style': 'balanced:' + ('long:' if long_ else '') + order, 'mps': mps, 'op': op,
            'chi': chi, 'tol': tol, 'qr': qr, 'normalise': normalise, 'mask': mask, 'malformed': None,
            'zero_exact': False, 'exponents': ks}


def balanced_copy(case, rng):
    """search variant: the same chain (>= 5 sites) with every non-zero tensor rescaled to Frobenius norm 1 and then by
    balanced per-site scales; None when the chain is too short"""
    run = run_of(case['mps'])
    kmax = BAL_KMAX if len(run) <= 12 else rng.choice([20, 40])
    ks = balanced_exponents(rng, len(run), kmax)
    if ks is None:
        return None
    order = rng.choice(BAL_ORDERS[:7])
    ks = balanced_order(rng, ks, order)
    v = dict(case)
    v['mps'], i = [], 0
    for t in case['mps']:
        if t is not None:
            f = fro(t)
            t = t / f * pow10_as_pow2(ks[i]) if f and np.isfinite(f) else t
            i += 1
        v['mps'].append(t)
    v['style'] = '{}->balanced:{}'.format(case['style'], order)
    return v


# ------------------------------------------------------------------------------------------ recording the real code

class _LinalgProxy:
    """stands in for the name `sp_linalg` inside qecsim.tensortools.mps while a case runs"""

    def __init__(self, real, rec):
        self._real, self._rec = real, rec

    def __getattr__(self, name):
        return getattr(self._real, name)

    def qr(self, a, *args, **kw):
        q, r = self._real.qr(a, *args, **kw)
        self._last_norm = None
        # oracle of the step: |R|_F of the factor LAPACK returned, taken here (same function the unchanged code
        # calls), independent of what the code goes on to compute from R; 'code' = what the code's own call returned
        self._rec.call({'k': 'Q', 'shape': a.shape, 'qcols': q.shape[1], 'val': float(self._real.norm(r)),
                        'code': None, 'r': r})
        return q, r

    def svd(self, a, *args, **kw):
        u, s, v = self._real.svd(a, *args, **kw)
        self._last_norm = None
        self._rec.call({'k': 'S', 'shape': a.shape, 's': np.array(s, dtype=float).copy()})
        return u, s, v

    def norm(self, a, *args, **kw):
        v = self._real.norm(a, *args, **kw)
        # ONE oracle entry per LOGICAL norm, whichever way the code takes it.  The unchanged code takes |.|_F by one
        # call on the 2-d / 4-d array (numpy's sqrt(sum x^2): the squares of entries beyond 1e+-154 under / overflow);
        # the repaired code repeats an out-of-range result by a second call on the RAVELLED array (BLAS nrm2, scaled).
        # A call on a 1-d array that immediately follows a norm call whose result was not inside (1e-140, 1e140) — zero,
        # inf and NaN included — and that carries the same data is that repeat: its result REPLACES the recorded one
        # (no new entry).  For a Q entry the harness-side value is replaced too: it is still scipy's norm of the R that
        # LAPACK returned (data verified equal here), not anything the code derived.
        last, self._last_norm = getattr(self, '_last_norm', None), None
        if last is not None and getattr(a, 'ndim', 0) == 1 and not args and not kw:
            arr, res, entry = last
            if not NORM_LO < res < NORM_HI and a.size == arr.size and np.array_equal(a, np.ravel(arr), equal_nan=True):
                fv = float(v)
                if entry['k'] == 'Q':
                    if entry.get('r') is not None and np.array_equal(np.ravel(entry['r']), a, equal_nan=True):
                        entry['val'] = fv
                    entry['code'] = fv
                else:
                    entry['val'] = fv
                entry['renormed'] = True
                return v
        if getattr(a, 'ndim', 0) == 2:
            c = self._rec.segs[-1]['calls'] if self._rec.segs else []
            if c and c[-1]['k'] == 'Q' and c[-1]['code'] is None:
                c[-1]['code'] = float(v)
                entry = c[-1]
            else:
                entry = {'k': '?', 'shape': a.shape, 'val': float(v)}
                self._rec.call(entry)
        else:
            entry = {'k': 'L', 'shape': a.shape, 'val': float(v)}
            self._rec.call(entry)
        if not args and not kw:
            self._last_norm = (a, float(v), entry)
            with np.errstate(all='ignore'):
                entry['nrm2'] = fro(a)          # scaled reference of the same logical norm (see norm_by_squares_wrong)
        return v


class _LoggerProxy:
    """stands in for the name `logger` inside qecsim.tensortools.mps: records warnings, forwards everything"""

    def __init__(self, real, rec):
        self._real, self._rec = real, rec

    def __getattr__(self, name):
        return getattr(self._real, name)

    def warning(self, msg, *a, **kw):
        self._rec.warnings.append(str(msg))
        return self._real.warning(msg, *a, **kw)


class Recorder:
    """wraps left_canonical_form (segment boundaries, arguments, result), sp_linalg and logger in the mps module"""

    def __init__(self):
        from qecsim.tensortools import mps as M
        self.M = M
        self.segs = []
        self.warnings = []

    def call(self, c):
        if not self.segs:
            self.segs.append({'in': None, 'calls': [], 'out': None, 'kw': {}})
        self.segs[-1]['calls'].append(c)

    def __enter__(self):
        M = self.M
        self._lcf, self._la, self._log = M.left_canonical_form, M.sp_linalg, M.logger
        rec = self

        def lcf(mps, *a, **kw):
            seg = {'in': [None if t is None else t.shape for t in mps], 'calls': [], 'out': None,
                   'kw': dict(kw, _args=a)}
            rec.segs.append(seg)
            res = rec._lcf(mps, *a, **kw)
            out = res[0] if isinstance(res, tuple) else res
            try:
                seg['out'] = [None if t is None else t.shape for t in out]
            except (TypeError, AttributeError):   # not an MPS: judged by result_problem
                seg['out'] = None
            return res
        M.left_canonical_form = lcf
        M.sp_linalg = _LinalgProxy(self._la, self)
        M.logger = _LoggerProxy(self._log, self)
        return self

    def __exit__(self, *a):
        self.M.left_canonical_form, self.M.sp_linalg, self.M.logger = self._lcf, self._la, self._log
        return False


def frac(x):
    return Fraction(float(x))      # raises on NaN / inf


def seg_trace(seg, reverse_len=None):
    """trace entries 'row:K:rows:cols:kept' of one left_canonical_form segment (rows re-indexed when it ran on a
    reversed list) and the oracle entries it consumed"""
    shp = seg['in']
    start = next((i for i, t in enumerate(shp) if t is not None), 0)
    tr, orc = [], []
    mcalls = [c for c in seg['calls'] if c['k'] in 'QS']
    for c in seg['calls']:
        if c['k'] == 'Q':
            orc.append('Q' + rat(frac(c['val'])))
        elif c['k'] == 'S':
            orc.append('S' + ','.join(rat(frac(x)) for x in c['s']))
        elif c['k'] == 'L':
            orc.append('L' + rat(frac(c['val'])))
        else:
            orc.append('X')
    pos = [i for i, c in enumerate(seg['calls']) if c['k'] in 'QS']
    for j, c in enumerate(mcalls):
        row = start + j
        zero = (c['val'] == 0.0) if c['k'] == 'Q' else (len(c['s']) > 0 and c['s'][0] == 0.0)
        s_tol = seg['kw'].get('tol', (list(seg['kw'].get('_args', ())) + [None, None])[1])   # lcf(mps, chi, tol, …)
        if not zero and c['k'] == 'S' and s_tol and len(c['s']) and not np.any(c['s'] / c['s'][0] > s_tol):
            # tol discards every normalised singular value: the zero exit of fix bea8d12 (nothing is kept)
            zero = c['tolzero'] = True
        if zero:
            kept = 'Z'
        else:
            # the N dimension the code gave the next tensor, as the next thing it did reveals it
            idx = pos[j]
            nxt = seg['calls'][idx + 1] if idx + 1 < len(seg['calls']) else None
            nshape = shp[row + 1] if row + 1 < len(shp) else None
            if nxt is not None and nxt['k'] in 'QS' and nshape is not None:
                kept = nxt['shape'][0] // max(1, nshape[1] * nshape[3])
            elif nxt is not None and nxt['k'] == 'L':
                kept = nxt['shape'][0]
            elif seg['out'] is not None and row + 1 < len(seg['out']) and seg['out'][row + 1] is not None:
                kept = seg['out'][row + 1][0]
            else:
                kept = '?'
        c['row'], c['kept'], c['zero'] = row, kept, zero
        shown = row if reverse_len is None else reverse_len - 1 - row
        c['orig_row'] = shown
        tr.append('{}:{}:{}:{}:{}'.format(shown, c['k'], c['shape'][0], c['shape'][1], kept))
    return tr, orc


def wire_mps(shapes):
    return ';'.join('N' if s is None else ','.join(str(int(x)) for x in s) for s in shapes) if shapes else '_'


def shapes_of(mps):
    return [None if t is None else tuple(t.shape) for t in mps]


def wire_mask(mask):
    if mask is None:
        return 'N'
    return ''.join('1' if b else '0' for b in mask) if mask else '_'


def wire_tol(tol):
    return 'N' if tol is None else rat(Fraction(tol))


def wire_tr(tr):
    return ';'.join(tr) if tr else '_'


def err_name(ex):
    if isinstance(ex, AssertionError):
        return 'AssertionError'
    if isinstance(ex, ValueError):
        return 'ValueError:gap' if 'contiguous' in str(ex) else 'ValueError:bond'
    return type(ex).__name__


# ------------------------------------------------------------------------------------------ numeric helpers

def dense(run):
    """contract a contiguous run of (n,e,s,w) tensors to an array of shape (n_first, prod(e*w), s_last)"""
    cur = None
    for t in run:
        n, e, s, w = t.shape
        T = np.einsum('nesw->news', t).reshape(n, e * w, s)
        cur = T if cur is None else np.einsum('apb,bqc->apqc', cur, T).reshape(cur.shape[0], -1, s)
    return cur


def run_of(mps):
    return [t for t in mps if t is not None]


def finite(mps):
    return all(t is None or np.all(np.isfinite(t)) for t in mps)


def all_zero(mps):
    return all(t is None or not np.any(t) for t in mps)


def iso_residual(t, left):
    n, e, s, w = t.shape
    m = (np.einsum('nesw->news', t).reshape(-1, s) if left else np.einsum('nesw->sewn', t).reshape(-1, n))
    return float(np.max(np.abs(m.T @ m - np.eye(m.shape[1])))) if m.size else 0.0


def fro(t):
    """Frobenius norm by BLAS nrm2 (scaled: no overflow / underflow of the squares at 1e+-150)"""
    a = np.asarray(t, dtype=float).ravel()
    return float(_sp_norm(a)) if a.size else 0.0


def dense_size(run):
    size = run[0].shape[0] * run[-1].shape[2]
    for t in run:
        size *= t.shape[1] * t.shape[3]
    return size


def unitised(run):
    """every non-zero tensor divided by its Frobenius norm; the product of these norms as mpf (call under workprec)"""
    ts, prod = [], mp.mpf(1)
    for t in run:
        f = fro(t)
        if f == 0.0 or not np.isfinite(f):
            ts.append(np.array(t, dtype=float))
        else:
            ts.append(t / f)
            prod *= mp.mpf(f)
    return ts, prod


LD = np.longdouble
LD_EXT = np.finfo(LD).eps < 1e-18          # x87 extended precision available
LONG_REL, LONG_COS = (1e-7, 1e-14) if LD_EXT else (1e-6, 1e-12)


def _ld2mp(x):
    hi = float(x)
    return mp.mpf(hi) + mp.mpf(float(x - LD(hi)))


def overlap(a_run, b_run):
    """<a|b> of two runs with the same physical dimensions and open boundary dimensions 1, by transfer matrices in
    long double with the scale carried as mpf: never forms the dense state (call under workprec)"""
    env, scale = np.ones((1, 1), dtype=LD), mp.mpf(1)
    for a, b in zip(a_run, b_run):
        env = np.einsum('ab,aesw,beSw->sS', env, a.astype(LD), b.astype(LD))
        f = np.abs(env).max()
        if f == 0:
            return mp.mpf(0)
        env = env / f
        scale *= _ld2mp(f)
    return scale * _ld2mp(env[0, 0])


def boundary_one(run):
    return run[0].shape[0] == 1 and run[-1].shape[2] == 1


def state_norm(run):
    """|state| as mpf, scale-free; None when neither route applies (call under workprec)"""
    ts, prod = unitised(run)
    if dense_size(run) <= DENSE_CAP:
        return prod * mp.mpf(fro(dense(ts)))
    if boundary_one(run):
        ov = overlap(ts, ts)
        return prod * mp.sqrt(ov) if ov > 0 else mp.mpf(0)     # rounding noise of a cancelling state may be negative
    return None


# normalise=False asks for float64 tensors that carry the norm of the state in the centre tensor.  When that norm is
# outside the float range the unchanged code (by design: comment + logged warning 'Casting out-of-range norm') returns
# a zero / inf centre tensor, i.e. not the input state.  Decision of the maintainer of this check: OUTSIDE THE DOMAIN of
# the property — such cases are generated and counted, their numeric failures (zero / inf / NaN centre tensor) are not
# reported, and they are checked only for 'no exception' and 'the cast was announced by the logged warning'.
RANGE_KEY = 'unnormalised-norm-outside-float-range'
RANGE_LO, RANGE_HI = mp.mpf('1e-280'), mp.mpf('1e280')
REPORT_UNNORMALISED_RANGE = False
RANGE_ATTRIBUTED = ('nan-in-result', 'nan-produced-internally', 'state-preservation')


def well_formed(case):
    return case['malformed'] is None and not (case['qr'] and (case['chi'] or case['tol']))


def py_guard(case):
    """the documented no-op condition of truncate, evaluated independently of the Lean model"""
    mps, chi, tol, mask = case['mps'], case['chi'], case['tol'], case['mask']
    bd = max([t.shape[0] if t is not None else 0 for t in mps], default=0)
    return bool(len(mps) and (tol or (chi and chi < bd)) and (mask is None or any(mask)))


# ------------------------------------------------------------------------------------------ one evaluation

def extreme_copy(case, sign):
    """the same chain with every non-zero tensor rescaled to Frobenius norm 1e(+-k), k = min(150, 400/sites): the
    norm of the state leaves the float range as soon as there are 3 sites"""
    run = run_of(case['mps'])
    k = sign * min(150, -(-400 // max(1, len(run))))
    v = dict(case)
    v['mps'] = [None if t is None else (t if not fro(t) else t / fro(t) * 10.0 ** k) for t in case['mps']]
    v['style'] = '{}->|t|=1e{}'.format(case['style'], k)
    return v


def range_limited(case, info):
    """normalise=False sweep where float64 tensors cannot carry the norm (see RANGE_KEY): the scale accumulated by the
    sweep meets the code's own 'out-of-range' condition, or the norm of the state is below 1e-280, or prod |A_i|_F (an
    upper bound of the norm and of everything the sweep computes) is above 1e280.  Returns that quantity, else None"""
    # a bond mismatch that numpy's einsum broadcasts (one side 1) is swept like a well-formed chain: same attribution
    swept_like_wf = well_formed(case) or (case['malformed'] == 'bond' and not (case['qr'] and (case['chi'] or case['tol'])))
    if case['op'] == 'trunc' or case['normalise'] or not swept_like_wf or not run_of(case['mps']):
        return None
    acc = info.get('acc')
    if acc is not None and (acc > sys.float_info.max or acc < sys.float_info.min):
        return acc
    if not well_formed(case):
        return None
    with mp.workprec(120), np.errstate(all='ignore'):
        # prod |A_i|_F bounds every quantity of the sweep, and rounding noise is ~1e-16 of it even when the state
        # itself cancels to (nearly) zero
        prod = unitised(run_of(case['mps']))[1]
        if prod > RANGE_HI:
            return prod
        nn = state_norm(run_of(case['mps']))
    if nn is None or nn == 0 or RANGE_LO <= nn <= RANGE_HI:
        return None
    return nn


def evaluate(case, stats=None, probe=True):
    """run the real code on the case; returns (protocol line, impl reply, property failures on the real code,
    info).  A failure is a dict {what, key[, case]} (case: the input it was seen on when that is not `case`)."""
    st = stats if stats is not None else {}
    line, impl, fails, info = _evaluate(case, st)
    if info.get('sq_wrong'):
        # the defect of TINY_KEY happened inside this call (only the unrepaired code can get here): whatever clause
        # failed afterwards is that defect; the oracle the shape model would receive is the corrupted norm — no tie
        st['norm_by_squares_wrong'] = st.get('norm_by_squares_wrong', 0) + 1
        if fails or 'X' in line.split()[-1]:
            first = fails[0]['what'] if fails else 'non-finite norm'
            fails = [{'what': '{}; consequence: {}'.format(info['sq_wrong'], first), 'key': TINY_KEY}]
            info['skip'] = 'norm-by-squares-defect'
            return line, impl, fails, info
    nn = range_limited(case, info) if case['op'] != 'trunc' and not case['normalise'] else None
    if nn is not None:
        info['range_limited'] = 'under' if nn < 1 else 'over'
        st['range_limited_unnormalised'] = st.get('range_limited_unnormalised', 0) + 1
        if impl == 'FloatingPointError':
            # inf * 0 in the centre tensor, turned into an exception by the errstate of this harness (the code itself
            # returns NaN there, it does not raise): there is no return value to compare with the shape model
            info['skip'] = 'range-limited-unnormalised-nan'
        attributed = [f for f in fails if f['key'] in RANGE_ATTRIBUTED]
        fails = [f for f in fails if f['key'] not in RANGE_ATTRIBUTED]
        if attributed and REPORT_UNNORMALISED_RANGE:
            fails.append({'what': 'normalise=False on a state of norm {} (outside the float range): {}'.format(
                mp.nstr(nn, 6), attributed[0]['what']), 'key': RANGE_KEY})
        # what is still claimed there: the cast of an out-of-range scale to float is announced by the logged warning
        acc = info.get('acc')
        if acc is not None and (acc > sys.float_info.max or acc < sys.float_info.min) and \
                (impl.startswith('ok z=0') or impl == 'FloatingPointError'):      # z=1: the sweep stopped before
            st['range_cast_warned'] = st.get('range_cast_warned', 0) + 1
            if not info['cast_warnings']:
                fails.append({'what': 'normalise=False: accumulated scale {} cast to float without the documented '
                                      'warning'.format(mp.nstr(acc, 6)), 'key': 'range-cast-not-warned'})
    # a norm that is not an mpf is only right while it stays in the float range: try the same call where it does not
    if probe and info.get('norm_type') not in (None, 'mpf') and info.get('swept') and well_formed(case):
        for sign in (-1, 1):
            v = extreme_copy(case, sign)
            st['norm_type_probe'] = st.get('norm_type_probe', 0) + 1
            _, _, vf, _ = evaluate(v, None, probe=False)
            if vf:
                fails.append({'what': 'returned norm has type {}; on the rescaled copy: {}'.format(
                    info['norm_type'], vf[0]['what']), 'key': vf[0]['key'], 'case': v})
                break
    return line, impl, fails, info


def _evaluate(case, st):
    from qecsim.tensortools import mps as M

    def bump(k):
        st[k] = st.get(k, 0) + 1
    mps, op, chi, tol, mask = case['mps'], case['op'], case['chi'], case['tol'], case['mask']
    qr, normalise = case['qr'], case['normalise']
    in_shapes = shapes_of(mps)
    fails = []

    def fail(what, key):
        fails.append({'what': what, 'key': key})
    exc = None
    res = None
    with Recorder() as rec:
        try:
            with np.errstate(divide='raise', invalid='raise', over='ignore'):
                if op == 'lcf':
                    res = M.left_canonical_form(mps, chi=chi, tol=tol, qr=qr, normalise=normalise, mask=mask)
                elif op == 'rcf':
                    res = M.right_canonical_form(mps, chi=chi, tol=tol, qr=qr, normalise=normalise, mask=mask)
                else:
                    res = M.truncate(mps, chi=chi, tol=tol, mask=mask)
        except Exception as ex:  # noqa: BLE001 — every exception kind is an observable outcome
            exc = ex
    segs = rec.segs
    info = {'segs': len(segs), 'decomps': sum(len([c for c in s['calls'] if c['k'] in 'QS']) for s in segs),
            'skip': None, 'norm_type': None, 'swept': False, 'numeric': None, 'range_limited': None,
            'cast_warnings': sum('Casting out-of-range' in w for w in rec.warnings)}
    # the scale the sweep accumulated (what normalise=False multiplies into the centre tensor as a float)
    acc = mp.mpf(1)
    for c in (segs[0]['calls'] if segs else []):
        v = c['val'] if c['k'] == 'Q' else (c['s'][0] if c['k'] == 'S' and len(c['s']) else None)
        if v and np.isfinite(v):
            acc *= mp.mpf(float(v))
    info['acc'] = acc
    info['sq_wrong'] = norm_by_squares_wrong(segs)
    # ---- oracle + trace from the record
    Ltot = len(mps)
    try:
        traces, orc = [], []
        for i, seg in enumerate(segs):
            rev = (op == 'rcf') or (op == 'trunc' and i == 1)
            t, o = seg_trace(seg, reverse_len=Ltot if rev else None)
            traces.append(t)
            orc += o
    except (ValueError, OverflowError):
        fail('non-finite norm / singular value seen by a decomposition step', 'nan-in-decomposition')
        traces, orc = [[] for _ in segs], ['X']
        info['trace_failed'] = True
    # the model compares sigma/sigma0 > tol over Q, the code compares the rounded quotient: drop boundary cases
    if tol:
        for seg in segs:
            for c in seg['calls']:
                if c['k'] == 'S' and len(c['s']) and c['s'][0] != 0.0:
                    fl = (c['s'] / c['s'][0]) > tol
                    ex_ = [Fraction(float(x)) / Fraction(float(c['s'][0])) > Fraction(tol) for x in c['s']]
                    if list(map(bool, fl)) != ex_:
                        info['skip'] = 'float-quotient-rounds-onto-tol'
    orc_w = ';'.join(orc) if orc else '_'
    if op == 'trunc':
        line = 'c12 trunc {} {} {} {} {}'.format('N' if chi is None else chi, wire_tol(tol), wire_mask(mask),
                                                 wire_mps(in_shapes), orc_w)
    else:
        line = 'c12 {} {} {} {} {} {} {} {}'.format(op, 'N' if chi is None else chi, wire_tol(tol), int(qr),
                                                    int(normalise), wire_mask(mask), wire_mps(in_shapes), orc_w)
    # ---- the exception path
    if exc is not None:
        name = err_name(exc)
        if isinstance(exc, FloatingPointError):
            fail('division by zero / invalid operation inside the sweep (NaN or inf produced): ' + str(exc)[:80],
                 'nan-produced-internally')
        elif well_formed(case):
            fail('exception on well-formed input: ' + repr(exc)[:120], 'exception-on-well-formed')
        if case['malformed'] == 'gap' and name != 'ValueError:gap' and not (op == 'trunc' and not py_guard(case)) \
                and not (qr and (chi or tol)) and not (mask is not None and len(mask) != len(mps)):
            fail('non-contiguous MPS did not raise the documented ValueError but ' + name, 'gap-not-raised')
        return line, name, fails, info
    # ---- success path: the documented return type / arity, then unpack
    bump('result_type')
    rp = result_problem(op, normalise, res, mps)
    if rp:
        fail('{}(qr={}, normalise={}, chi={}, tol={}, mask={}) {}'.format(
            {'lcf': 'left_canonical_form', 'rcf': 'right_canonical_form', 'trunc': 'truncate'}[op], qr, normalise, chi,
            tol, mask, rp), 'result-type')
        return line, 'bad-result-type', fails, info
    if info.get('trace_failed'):
        # a step saw an inf / NaN norm or singular value and the call still returned: nothing to tie (failure recorded above)
        return line, 'non-finite-decomposition-factor', fails, info
    if op == 'trunc':
        out, norm = res
        same = out is mps
    elif normalise:
        out, norm = res
        same = False
    else:
        out, norm, same = res, None, False
    out_shapes = shapes_of(out)
    zero_rec = [any(c.get('zero') for c in s['calls'] if c['k'] in 'QS') or
                any(c['k'] == 'L' and c['val'] == 0.0 for c in s['calls']) for s in segs]
    if op == 'trunc':
        z = bool(norm == 0)
        tr1 = traces[0] if len(traces) > 0 else []
        tr2 = traces[1] if len(traces) > 1 else []
        impl = 'ok same={} z={} t={} tr1={} tr2={} left=0'.format(int(same), int(z), wire_mps(out_shapes),
                                                                  wire_tr(tr1), wire_tr(tr2))
    else:
        z = bool(norm == 0) if normalise else bool(zero_rec and zero_rec[0])
        impl = 'ok z={} t={} tr={} left=0'.format(int(z), wire_mps(out_shapes), wire_tr(traces[0] if traces else []))
    if case['malformed'] == 'gap' and not (op == 'trunc' and not py_guard(case)):
        fail('non-contiguous MPS accepted without ValueError', 'gap-not-raised')
    if case['malformed'] in ('gap', 'bond', 'mask-length') or not well_formed(case) and case['malformed'] != 'no-tensors':
        return line, impl, fails, info
    # ---- property clauses evaluated directly on the real outputs ---------------------------------------------
    # (0) the returned norm is a finite non-negative real number whatever its type (never converted to float here)
    nrm = None
    if norm is not None:
        bump('norm_is_finite_number')
        info['norm_type'] = 'mpf' if isinstance(norm, mp.mpf) else type(norm).__name__
        info['swept'] = bool(segs) and not same
        try:
            nrm = mp.mpf(norm)
        except (TypeError, ValueError):
            fail('returned norm {!r} is not a real number'.format(norm), 'norm-not-a-number')
            return line, impl, fails, info
        if not mp.isfinite(nrm) or nrm < 0:
            fail('returned norm is {!r}'.format(norm), 'nan-in-result')
            return line, impl, fails, info
    bump('finite')
    if not finite(out):
        fail('NaN / inf in the result', 'nan-in-result')
        return line, impl, fails, info
    run_in, run_out = run_of(mps), run_of(out)
    if not run_in:
        return line, impl, fails, info
    # (1) consecutive output bonds agree, physical dimensions unchanged, None pattern unchanged
    bump('shapes_consistent')
    fits = True
    if [s is None for s in out_shapes] != [s is None for s in in_shapes]:
        fail('None pattern changed', 'none-pattern')
        fits = False
    rs = [s for s in out_shapes if s is not None]
    if any(rs[i][2] != rs[i + 1][0] for i in range(len(rs) - 1)) or \
            [(s[1], s[3]) for s in rs] != [(t.shape[1], t.shape[3]) for t in run_in]:
        fail('output tensors do not fit together', 'shapes-inconsistent')
        fits = False
    zero_any = any(zero_rec)
    tol_exit = any(c.get('tolzero') for s_ in segs for c in s_['calls'])
    # (2a) a zero verdict must be backed by a factor that is zero: |R|_F (taken by the harness from the R that LAPACK
    # returned), sigma_0 or the norm of the last tensor
    unbacked_zero = nrm is not None and nrm == 0 and not zero_any and not same
    if nrm is not None and not same:
        bump('zero_verdict_backed')
    if unbacked_zero:
        if all_zero(out):
            fail('norm 0 and zero tensors returned although no decomposition factor was zero (every |R|_F, sigma_0 and '
                 'last-tensor norm recorded is non-zero): a non-zero state was mapped to the zero state',
                 'state-preservation')
        else:
            fail('returned norm is {!r} but the returned tensors are non-zero and no decomposition factor was zero'
                 .format(norm), 'state-preservation')
    # (2) step kinds honour the mask (original site index) and kept ranks follow the documented rule
    for i, seg in enumerate(segs):
        is_trunc_lcf = (op == 'trunc' and i == 0)
        s_qr = True if is_trunc_lcf else qr
        s_mask = None if is_trunc_lcf else mask
        s_chi, s_tol = (None, None) if is_trunc_lcf else (chi, tol)
        for c in seg['calls']:
            if c['k'] not in 'QS':
                continue
            bump('mask_and_rank_steps')
            mbit = True if s_mask is None else bool(s_mask[c['orig_row']])
            want_q = s_qr or not mbit
            if (c['k'] == 'Q') != want_q:
                fail('site {} (mask {}) was decomposed by {}'.format(c['orig_row'], mbit, c['k']), 'mask-not-honoured')
            if c.get('zero') or c['kept'] in ('Z', '?') or unbacked_zero:
                continue
            full = min(c['shape'])
            if c['k'] == 'Q':
                want = full
            else:
                s = c['s'] / c['s'][0]
                k = int(np.sum(s > s_tol)) if s_tol else len(s)
                want = min(full, k, s_chi if s_chi else full)
            if c['kept'] != want:
                fail('site {}: kept rank {} but min(rows, cols, #(sigma/sigma0 > tol), chi) = {}'.format(
                    c['orig_row'], c['kept'], want), 'kept-rank')
    # (3) zero handling
    if zero_any or case['zero_exact']:
        bump('zero_state')
    if op != 'trunc' and zero_rec and zero_rec[0]:
        if not all_zero(out) or out_shapes != shapes_of(M.zeros_like(mps)) or (normalise and norm != 0):
            fail('zero detected but result is not zeros_like with norm 0', 'zero-handling')
    if op == 'trunc' and any(zero_rec):
        # either sweep of truncate took a zero exit (zero state met by the QR sweep; tol keeping nothing in the SVD sweep)
        if not all_zero(out) or out_shapes != shapes_of(M.zeros_like(mps)):
            fail('truncate: a sweep took its zero exit but the result is not zeros_like', 'zero-handling')
    if tol_exit:
        bump('tol_discards_all')
    if case['zero_exact']:
        if op == 'trunc':
            if py_guard(case) and (norm != 0 or not all_zero(out)):
                fail('truncate of a zero state: norm {} / non-zero tensors'.format(norm), 'zero-handling')
        elif normalise and (norm != 0 or not all_zero(out)):
            fail('normalised canonical form of a zero state: norm {} / non-zero tensors'.format(norm), 'zero-handling')
        elif not normalise and fits and any(np.any(t) for t in run_out) and dense_size(run_out) <= DENSE_CAP and \
                np.any(dense(run_out)):
            fail('canonical form of a zero state is not a zero state', 'zero-handling')
    # (4) truncate: identity exactly when the guard says so, bonds <= chi under a full mask
    if op == 'trunc':
        bump('truncate_guard')
        g = py_guard(case)
        if g == same:
            fail('truncate {} although its documented no-op condition is {}'.format(
                'returned its input' if same else 'rebuilt the MPS', not g), 'truncate-guard')
        if same and (norm != 1 or any(a is not b for a, b in zip(out, mps))):
            fail('no-op truncate changed something / norm != 1', 'truncate-guard')
        if chi and (mask is None or all(mask)):
            bump('bond_le_chi')
            inner = [s[0] for s in rs[1:]]
            if g and any(b > chi for b in inner):
                fail('bond {} > chi {} after truncate with a full mask'.format(max(inner), chi), 'bond-gt-chi')
            if not g and not tol and any(b > chi for b in [s[0] for s in rs]):
                fail('bond > chi but truncate was a no-op', 'bond-gt-chi')
    zero_out = (nrm is not None and nrm == 0) or zero_any
    # (5) isometries away from the centre
    if not zero_out and not same:
        left = (op == 'lcf')
        sites = run_out[:-1] if left else run_out[1:]
        for t in sites:
            bump('isometry_sites')
            r_ = iso_residual(t, left)
            if not r_ <= ISO_TOL:
                fail('{} isometry residual {:.3e}'.format('left' if left else 'right', r_), 'isometry')
                break
    if same or not fits:
        return line, impl, fails, info
    # (6) + (7) unit norm, state preservation, truncation error: scale-free (unit-Frobenius tensors, scales as mpf)
    use_dense = dense_size(run_in) <= DENSE_CAP
    if not use_dense and not (boundary_one(run_in) and boundary_one(run_out)):
        bump('numeric_not_evaluated(open boundary, too large)')
        return line, impl, fails, info
    info['numeric'] = 'dense' if use_dense else 'overlap'
    gam, gprod, has_last = 1.0, mp.mpf(1), False
    if not use_dense:
        # relative claims need a well-conditioned contraction: gamma = |matrix decomposed at a step|_F / |A_site|_F is
        # the cancellation at that step (<= 1; O(1/sqrt(bond)) generically).  prod|A_i|_F says nothing for 40+ sites.
        # Taken from the factors LAPACK returned and the input only, never from the result under test.
        for c in segs[0]['calls']:
            g = None
            if c['k'] in 'QS' and 'orig_row' in c and mps[c['orig_row']] is not None:
                f = fro(mps[c['orig_row']])
                g = (c['val'] if c['k'] == 'Q' else fro(c['s'])) / f if f else 0.0
            elif c['k'] == 'L':
                f = fro(run_in[0] if op == 'rcf' else run_in[-1])
                g = c['val'] / f if f else 0.0
                has_last = True
            if g is not None:
                gam = min(gam, g)
                gprod *= mp.mpf(g)
    # discarded Schmidt weight (only meaningful in truncate, where the state is unit and left-canonical)
    disc, factor, truncating = 0.0, 1.0, False
    with np.errstate(all='ignore'):
        for c in segs[-1]['calls']:
            if c['k'] == 'S' and not c.get('zero'):
                k = c['kept'] if isinstance(c['kept'], int) else len(c['s'])
                if k < len(c['s']):
                    truncating = True
                    if op == 'trunc':
                        disc += float(np.sum((c['s'][k:] * factor) ** 2))
                factor *= float(c['s'][0])
            elif c['k'] == 'Q' and c['val']:
                factor *= c['val']
    with mp.workprec(120), np.errstate(all='ignore'):
        t_in, a_in = unitised(run_in)
        t_out, a_out = unitised(run_out)
        rho = (mp.mpf(1) if nrm is None else nrm) * a_out / a_in      # in = rho * out in unit-tensor units
        n_out = None
        if use_dense:
            d_in = dense(t_in)
            n_in = mp.mpf(fro(d_in))
            if not zero_out:
                d_out = dense(t_out)
                if d_out.shape != d_in.shape:
                    fail('open dimensions changed', 'shapes-inconsistent')
                    return line, impl, fails, info
                n_out = mp.mpf(fro(d_out))
        else:
            ii = overlap(t_in, t_in)
            # a state that cancels to zero along the chain leaves rounding noise of either sign in <in|in>: a
            # non-positive value is the zero state as far as this route can tell (=> ill-conditioned, no numeric claim)
            ii = ii if ii > 0 else mp.mpf(0)
            n_in = mp.sqrt(ii)
            if not has_last and gprod != 0:
                # no norm of the last tensor was taken (normalise=False): |in| / prod|A_i|_F = prod of all gammas
                gam = min(gam, float(n_in / gprod))
            if not gam >= 1e-3 and not zero_out:
                bump('long_ill_conditioned(no numeric claim)')
                return line, impl, fails, info
            if not zero_out:
                oo, io = overlap(t_out, t_out), overlap(t_in, t_out)
                oo = oo if oo > 0 else mp.mpf(0)
                n_out = mp.sqrt(oo)
        # (6) unit norm of a normalised result
        if op != 'trunc' and normalise and not zero_out:
            bump('unit_norm' if use_dense else 'long_unit_norm')
            nn = float(a_out * n_out)
            if not abs(nn - 1.0) <= 1e-10:
                fail('normalised result has norm {!r}'.format(nn), 'unit-norm')
        # (7) state preservation / truncation error
        if zero_out:
            # a zero result must come from a zero state (a truncating canonical form outside `truncate` may
            # legitimately project a non-zero state to zero: no claim there)
            if tol_exit:
                # tol >= 1 projects a non-zero state to zero by design.  Norm semantics as the code has them: a
                # normalising canonical form returns 0 (checked in (3)); truncate returns the norm of its first,
                # normalising QR sweep, i.e. |in|
                if op == 'trunc' and use_dense and nrm is not None and n_in != 0:
                    bump('tol_exit_truncate_norm')
                    if not abs(float(nrm / a_in - n_in)) <= 1e-10:
                        fail('truncate with tol {} (nothing kept): returned norm {} but |in| = {}'.format(
                            tol, mp.nstr(nrm, 15), mp.nstr(a_in * n_in, 15)), 'norm-value')
            elif not truncating or op == 'trunc':
                bump('zero_preserved')
                # dense: |in| tiny against prod |A_i|_F; long chains (where that product says nothing): the verdict
                # must be backed by an exactly zero factor, checked in (2a)
                if use_dense and not float(n_in) <= 1e-10:
                    fail('non-zero state mapped to the zero state (|in| = {:.3e} prod|A_i|_F)'.format(float(n_in)),
                         'state-preservation')
        elif n_in == 0 and not use_dense:
            bump('long_state_preservation')
            if n_out != 0 and rho != 0:
                fail('zero state mapped to a non-zero state', 'state-preservation')
        else:
            if use_dense:
                if n_out == 0:
                    err = float(n_in)
                else:
                    rf = float(rho) if abs(rho) < mp.mpf('1e300') else float('inf')
                    err = fro(d_in - rf * d_out) if np.isfinite(rf) else float('inf')
                if not truncating:
                    bump('state_preservation')
                    if not err <= 1e-10:
                        fail('state not preserved: |in - norm*out| = {:.3e} prod|A_i|_F (|in| = {:.3e} prod|A_i|_F, '
                             'norm*|out|/|in| = {})'.format(err, float(n_in), mp.nstr(rho * n_out / n_in, 12) if n_in else 'n/a'),
                             'state-preservation')
                elif op == 'trunc':
                    bump('truncation_error')
                    bound = float(nrm / a_in) * np.sqrt(disc) * (1 + 1e-8) + 1e-11
                    if not err <= bound:
                        fail('truncation error {:.6e} > discarded Schmidt weight bound {:.6e} (units of prod|A_i|_F)'
                             .format(err, bound), 'truncation-error')
                else:
                    bump('truncating_canonical_form(shape-only)')
                # the returned norm itself: |in| when the sweep normalised and (lcf / rcf) cut nothing
                if nrm is not None and (op == 'trunc' or not truncating):
                    bump('returned_norm_value')
                    if not abs(float(nrm / a_in - n_in)) <= 1e-10:
                        fail('returned norm {} but |in| = {}'.format(mp.nstr(nrm, 15), mp.nstr(a_in * n_in, 15)),
                             'norm-value')
            else:
                ratio = (mp.mpf(1) if nrm is None else nrm) / (a_in * n_in)      # returned norm / |in|
                rel2 = 1 - 2 * rho * io / ii + rho * rho * oo / ii
                rel = float(mp.sqrt(rel2)) if rel2 > 0 else 0.0
                mag = rho * n_out / n_in
                cosd = float(1 - io / (n_in * n_out)) if n_out != 0 else 1.0
                if not truncating:
                    bump('long_state_preservation')
                    if not (abs(float(mag - 1)) <= 1e-10 and cosd <= LONG_COS and rel <= LONG_REL):
                        fail('state not preserved: norm*|out|/|in| = {}, 1-cos(in,out) = {:.3e}, |in - norm*out|/|in| '
                             '= {:.3e}'.format(mp.nstr(mag, 15), cosd, rel), 'state-preservation')
                elif op == 'trunc':
                    bump('long_truncation_error')
                    bound = float(ratio) * np.sqrt(disc) * (1 + 1e-8) + LONG_REL
                    if not rel <= bound:
                        fail('truncation error {:.6e} |in| > discarded Schmidt weight bound {:.6e} |in|'.format(
                            rel, bound), 'truncation-error')
                else:
                    bump('truncating_canonical_form(shape-only)')
                if nrm is not None and (op == 'trunc' or not truncating):
                    bump('long_returned_norm_value')
                    if not abs(float(ratio - 1)) <= 1e-9:
                        fail('returned norm {} but |in| = {} (ratio {})'.format(
                            mp.nstr(nrm, 15), mp.nstr(a_in * n_in, 15), mp.nstr(ratio, 15)), 'norm-value')
    return line, impl, fails, info


def result_problem(op, normalise, res, mps):
    """the documented RETURN TYPE of the call: a list of len(mps) whose entries are None / 4-index arrays, or (normalise /
    truncate) a 2-tuple of such a list and a real number.  Returns a description of the deviation, else None."""
    if op == 'trunc' or normalise:
        if not isinstance(res, tuple) or len(res) != 2:
            return 'returned {} instead of the documented 2-tuple (MPS, norm)'.format(
                'a {}-tuple'.format(len(res)) if isinstance(res, tuple) else 'a ' + type(res).__name__)
        out, norm = res
        if isinstance(norm, (list, tuple, np.ndarray, str, bool)) or norm is None:
            return 'norm part of the result is a {}'.format(type(norm).__name__)
    else:
        out = res
        if isinstance(out, tuple):
            return ('returned a {}-tuple ({}) although normalise=False: the documented result is the MPS (a list) '
                    'alone'.format(len(out), ', '.join(type(x).__name__ for x in out)))
    if not isinstance(out, list):
        return 'MPS part of the result is a {} not a list'.format(type(out).__name__)
    if len(out) != len(mps):
        return 'result has {} sites, the input {}'.format(len(out), len(mps))
    for i, t in enumerate(out):
        if t is not None and not (isinstance(t, np.ndarray) and t.ndim == 4):
            return 'site {} of the result is {} not a 4-index array'.format(
                i, 'a {}-index array'.format(t.ndim) if isinstance(t, np.ndarray) else 'a ' + type(t).__name__)
    return None


def case_desc(case):
    return {'seed': case['seed'], 'op': case['op'], 'chi': case['chi'], 'tol': case['tol'], 'qr': case['qr'],
            'normalise': case['normalise'], 'mask': case['mask'], 'style': case['style'],
            'tensors': [None if t is None else {'shape': list(t.shape), 'data': t.ravel().tolist()}
                        for t in case['mps']],
            'rebuild': 'qv.props.c12.build_case(seed)'}


# ------------------------------------------------------------------------------------------ helper ops

def runs_ok(present):
    """the tensors (if any) form one contiguous run — the documented domain"""
    return sum(1 for i, p in enumerate(present) if p and (i == 0 or not present[i - 1])) <= 1


def helper_cases(ctx, n):
    from qecsim.tensortools import mps as M
    rng = ctx.rng
    ss = getattr(M, '_mps_start_stop_indices', None)
    for _ in range(n):
        L = rng.choice([0, 1, 2, 3, 4, 5, 6, 8])
        pat = rng.choice(['rand', 'rand', 'block', 'block', 'block'])
        if pat == 'rand':
            present = [rng.random() < 0.6 for _ in range(L)]
        else:
            a = rng.randint(0, L); b = rng.randint(a, L)
            present = [a <= i < b for i in range(L)]
            if rng.random() < 0.2 and L:
                present[rng.randrange(L)] ^= True
        mps = [np.zeros((rng.randint(1, 4), rng.randint(1, 3), rng.randint(1, 4), rng.randint(1, 3))) + 1.0
               if p else None for p in present]
        w = wire_mps(shapes_of(mps))
        if ss is not None:
            try:
                a, b = ss(mps); impl = 'ok {},{}'.format(a, b)
            except ValueError as ex:
                impl = err_name(ex)
            ctx.case('c12 startstop ' + w, impl, nontrivial=any(present), meta={'helper': True})
            runs = sum(1 for i, p in enumerate(present) if p and (i == 0 or not present[i - 1]))
            ctx.count('startstop', impl.split()[0])
            if (runs > 1) != (impl == 'ValueError:gap'):
                ctx.monitor_fail('_mps_start_stop_indices: {} runs of tensors but outcome {}'.format(runs, impl),
                                 {'present': present}, key='gap-not-raised')
        z = M.zeros_like(mps)
        ctx.case('c12 zeros ' + w, 'ok ' + wire_mps(shapes_of(z)), nontrivial=any(present), meta={'helper': True})
        if not all_zero(z):
            ctx.monitor_fail('zeros_like returned non-zero entries', {'present': present}, key='zero-handling')
        ctx.case('c12 rev ' + w, 'ok ' + wire_mps(shapes_of(M.reverse(mps))), nontrivial=any(present),
                 meta={'helper': True})
        try:
            bd = 'ok {}'.format(int(M.bond_dimension(mps)))
        except Exception as ex:      # never on the unchanged tree: rendered, so that it disagrees with the model
            bd = 'raised ' + err_name(ex)
        ctx.case('c12 bond ' + w, bd, nontrivial=any(present), meta={'helper': True})
        if runs_ok(present):
            # truncate is the identity when no bond exceeds chi (here chi = the largest bond, or 1 without tensors)
            cap = max([t.shape[0] for t in mps if t is not None] + [t.shape[2] for t in mps if t is not None] + [1])
            try:
                out, nrm = M.truncate(mps, chi=cap)
                same = len(out) == len(mps) and all(
                    (o is None and t is None) or (o is not None and t is not None and np.array_equal(o, t))
                    for o, t in zip(out, mps)) and float(nrm) == 1.0
                what = None if same else 'returned a different MPS or norm {!r}'.format(nrm)
            except Exception as ex:
                what = 'raised {!r}'.format(ex)
            if what:
                ctx.monitor_fail('truncate(mps, chi={}) with no bond above chi is not the identity: {}'.format(cap, what),
                                 {'present': present, 'shapes': shapes_of(mps)}, key='truncate-noop-not-identity')


# ------------------------------------------------------------------------------------------ run / search / replay

def run(ctx):
    stats = {}
    helper_cases(ctx, ctx.scale(500, 5000))
    n = ctx.scale(10000, 120000)
    skipped = 0
    specials = special_specs()
    by_cls = {}
    for sp in specials:
        by_cls.setdefault(sp['cls'], []).append(sp)
    special_seeds = []
    for cls in sorted(by_cls):
        pool = by_cls[cls]
        ctx.rng.shuffle(pool)
        pool = pool[:ctx.scale(700, len(pool))]
        special_seeds += [special_seed(sp, ctx.rng.randrange(1000)) for sp in pool]
    ctx.extra['systematic_classes'] = {c: len(v) for c, v in by_cls.items()}
    seeds = [ctx.rng.getrandbits(48) for _ in range(n)] + special_seeds
    # BALANCED class (drawn last: the draws of the classes above are unchanged)
    seeds += ['B{}'.format(ctx.rng.getrandbits(48)) for _ in range(ctx.scale(1500, 15000))]
    # EDGE class (drawn after everything else: the draws above are unchanged)
    seeds += ['E{}'.format(ctx.rng.getrandbits(48)) for _ in range(ctx.scale(1500, 15000))]
    for seed in seeds:
        case = build_case(seed)
        line, impl, fails, info = evaluate(case, stats)
        ctx.count('op', case['op']); ctx.count('kind', case['kind']); ctx.count('style', case['style'])
        ctx.count('length', len(case['mps'])); ctx.count('chi', case['chi']); ctx.count('tol', case['tol'])
        ctx.count('qr', case['qr']); ctx.count('malformed', case['malformed'])
        ctx.count('mask', 'None' if case['mask'] is None else 'all-false' if not any(case['mask']) else
                  'all-true' if all(case['mask']) else 'mixed')
        if case['zero_exact'] and case['malformed'] is None:
            ctx.count('zero_state.op/qr/normalise', '{}/qr={}/normalise={}'.format(case['op'], int(case['qr']),
                                                                                   int(case['normalise'])))
        if isinstance(seed, str) and 'exponents' in case:
            ctx.count('balanced.op/qr/normalise', '{}/qr={}/normalise={}'.format(case['op'], int(case['qr']),
                                                                                 int(case['normalise'])))
            ctx.count('balanced.in_domain', info['range_limited'] is None)
        elif isinstance(seed, str) and 'edge_exponents' in case:
            ctx.count('edge.op/qr/normalise', '{}/qr={}/normalise={}'.format(case['op'], int(case['qr']),
                                                                             int(case['normalise'])))
            ctx.count('edge.in_domain', info['range_limited'] is None)
        elif isinstance(seed, str):
            ctx.count('systematic.' + case['style'], '{}/mask={}'.format(case['op'], case['mask_kind']))
        ctx.count('outcome', impl.split()[0]); ctx.count('decompositions', info['decomps'])
        if impl.startswith('ok'):
            ctx.count('zero_flag', ' z=1 ' in impl)
        if info['skip']:
            skipped += 1
            ctx.count('skipped', info['skip'])
            ctx.count('range_limited', info['range_limited'])
            if info['skip'].startswith(('range-limited', 'norm-by-squares')):
                for f in fails:
                    ctx.monitor_fail(f['what'], case_desc(f.get('case', case)), key=f['key'])
            continue
        ctx.count('numeric_route', info['numeric']); ctx.count('norm_type', info['norm_type'])
        ctx.count('range_limited', info['range_limited'])
        ctx.case(line, impl, nontrivial=info['decomps'] > 0, meta={'seed': seed})
        for f in fails:
            ctx.monitor_fail(f['what'], case_desc(f.get('case', case)), key=f['key'])
    # deterministic family of TINY_KEY: last, so that the first counterexample of a replay is one of the random classes
    tiny_monitor(ctx, stats)
    rules = {
        'finite': 'no NaN/inf in any output tensor or norm (numpy divide/invalid errors raised during the call)',
        'shapes_consistent': 'None pattern and physical dims unchanged, consecutive output bonds equal',
        'mask_and_rank_steps': 'per decomposition: QR iff qr or mask[site] false (original index); kept rank = '
                               'min(rows, cols, #(sigma/sigma0 > tol), chi) recomputed in floats',
        'zero_state': 'zero flag or exact zero tensor => zeros_like output, exact zeros, norm 0',
        'truncate_guard': 'truncate returns its input object with norm 1.0 iff the documented no-op condition holds',
        'bond_le_chi': 'every inner bond <= chi after truncate with mask None / all true',
        'isometry_sites': 'max |Q^T Q - 1| <= 1e-10 for every site but the orthogonality centre',
        'unit_norm': '| |dense(out)| - 1 | <= 1e-10 for normalise=True',
        'state_preservation': '|dense(in) - norm*dense(out)| <= 1e-10 * prod |A_i|_F when no singular value was dropped',
        'zero_preserved': 'zero result only for |dense(in)| <= 1e-10 * prod |A_i|_F',
        'truncation_error': '|dense(in) - norm*dense(out)| <= norm*sqrt(sum discarded sigma^2)(1+1e-8) + 1e-11*scale',
        'truncating_canonical_form(shape-only)': 'lcf/rcf with chi/tol dropping values: only shape clauses apply',
        'norm_is_finite_number': 'every returned norm converts to an mpf that is finite and >= 0 (never through float)',
        'zero_verdict_backed': 'norm 0 only if a recorded |R|_F (harness-computed from the R of LAPACK), sigma_0 or '
                               'last-tensor norm is exactly 0',
        'returned_norm_value': '|norm / prod|A_i|_F - |dense(unit tensors)|| <= 1e-10 for normalising sweeps that cut '
                               'nothing and for truncate',
        'long_returned_norm_value': '|norm/|in| - 1| <= 1e-9, |in| from transfer-matrix overlaps (mpf scale)',
        'long_unit_norm': '| |out| - 1 | <= 1e-10 through <out|out>',
        'long_state_preservation': '|norm*|out|/|in| - 1| <= 1e-10, 1 - cos(in,out) <= {:g}, |in - norm*out|/|in| <= '
                                   '{:g} through overlaps'.format(LONG_COS, LONG_REL),
        'long_truncation_error': '|in - norm*out|/|in| <= norm/|in| * sqrt(sum discarded sigma^2)(1+1e-8) + {:g}'
                                 .format(LONG_REL),
        'long_ill_conditioned(no numeric claim)': 'overlap route, some step cancelled below 1e-3 of |A_site|_F',
        'range_limited_unnormalised': 'normalise=False and accumulated scale outside the float range, |state| < 1e-280 '
                                      'or prod|A_i|_F > 1e280: outside the domain, zero / inf / NaN centre tensor not '
                                      'reported',
        'range_cast_warned': 'normalise=False, accumulated scale outside [float min, float max]: the code logged '
                             '"Casting out-of-range norm" and raised nothing',
        'result_type': 'every call that returns: the result has the documented type and arity — a list of len(mps) of None / '
                       '4-index arrays, or (normalise=True, truncate) a 2-tuple of such a list and a number',
        'tol_discards_all': 'tol >= every normalised singular value of a step (tol >= 1): no exception, zero exit — '
                            'zeros_like result, norm 0 from a normalising canonical form',
        'tol_exit_truncate_norm': 'truncate whose SVD sweep kept nothing: |norm / prod|A_i|_F - |dense(unit tensors)|| '
                                  '<= 1e-10 (the norm of the first sweep, as the code has it)',
        'tiny_or_huge_entries': 'deterministic family (key ' + TINY_KEY + '): O(1) chains with the last / first / a middle '
                                'tensor times 1e-170, 1e-200, 1e-300, 1e+170 x lcf / rcf (qr x normalise) and truncate: '
                                'no exception, no NaN / inf, not the zero state, finite norm, |in - norm*out| <= 1e-9 |in| '
                                '(reference by linearity from the O(1) tensors; no recording wrapper, default errstate)',
        'norm_by_squares_wrong': 'calls in which a Frobenius norm the code took differs from nrm2 of the same array (0 on '
                                 'the repaired code); their failures are reported under ' + TINY_KEY,
        'norm_type_probe': 'norm not an mpf: same call re-run on a copy rescaled so that |state| leaves the float range',
    }
    ctx.explored = {k: {'evaluations': v, 'rule': rules.get(k, k), 'exhaustive': False} for k, v in sorted(stats.items())}
    ctx.extra['skipped_float_boundary'] = skipped
    ctx.assumptions = [
        'LAPACK (scipy.linalg.qr / svd gesvd) returns factors with A = QR, Q^T Q = 1, A = U S V^T, S descending: '
        'assumed by the algebraic reading of the property; supported numerically by the isometry / preservation '
        'monitors of this run, not proved',
        'the singular values / norms recorded by wrapping scipy.linalg inside qecsim.tensortools.mps are what the code '
        'branched on (oracle input of the Lean shape model)',
        'sigma/sigma0 > tol is evaluated over Q in the model and in IEEE double in the code; cases where the rounded '
        'quotient lands exactly on tol while the exact one does not are skipped (counted in skipped_float_boundary)',
        'mpmath accumulates the norm exactly enough that norm == 0 iff a zero flag was raised',
        'the Q oracle entry is scipy.linalg.norm(R) evaluated by the harness on the R factor scipy.linalg.qr returned '
        'to the code (identical to the value the unchanged code computes)',
        'normalise=False results whose true norm lies outside the float64 range cannot be represented by float64 '
        'tensors at all; the code logs a warning and casts; such cases are generated, counted (coverage.explored.'
        'range_limited_unnormalised, input_distribution.range_limited) and checked only for no exception / warning '
        'logged; the extreme-scale classes keep their full claims for normalise=True and truncate (mpf norm)',
        'overlap route (chains too long for a dense contraction): long double transfer matrices with mpf scale; '
        'numeric claims only when no sweep step cancelled below 1e-3 (counted otherwise)',
    ]
    return ctx.finish(RULE, search=search, explanation=(
        'level "proof" covers the shape/guard/control-flow theorems of Props/C12.lean only; the numeric clauses '
        '(state preservation, isometry, unit norm, truncation error bound, no NaN) are explored by monitors on the real '
        'outputs, see coverage.explored'))


VARIANT_CHI = [None, 1, 2, 3, 5]


def search(m):
    """evaluate the property clauses on the real code for the disagreeing case and for near variants (same tensors,
    other chi / tol / mask / op); return a concrete failing input or None"""
    meta = m.get('meta') or {}
    if 'seed' not in meta:
        # helper op: evaluate the helper contracts on the pattern of the line
        toks = m['op'].split()
        if len(toks) == 3 and toks[1] == 'startstop':
            present = [s != 'N' for s in toks[2].split(';')] if toks[2] != '_' else []
            runs = sum(1 for i, p in enumerate(present) if p and (i == 0 or not present[i - 1]))
            if (runs > 1) != (m['impl'] == 'ValueError:gap'):
                return {'what': '_mps_start_stop_indices: {} runs of tensors but outcome {}'.format(runs, m['impl']),
                        'present': present}
            if m['impl'].startswith('ok') and runs == 1:
                a = present.index(True); b = a + sum(present)
                if m['impl'] != 'ok {},{}'.format(a, b):
                    return {'what': '_mps_start_stop_indices returned {} for the run [{}, {})'.format(m['impl'], a, b),
                            'present': present}
        return None
    case = build_case(meta['seed'])
    _, _, fails, _ = evaluate(case)
    if fails:
        return _found(fails[0], case, meta['seed'], fails[0].get('case') is not None)
    rng = random.Random(meta['seed'])
    many = len(run_of(case['mps'])) > 12
    for i in range(60 if many else 300):
        v = dict(case)
        if i % 3 == 2 and case['malformed'] is None:
            # same chain, every tensor rescaled so that the norm of the state leaves the float range
            v = extreme_copy(case, rng.choice([-1, 1]))
        elif i % 3 == 1 and case['malformed'] is None and len(run_of(case['mps'])) >= 5:
            # same chain, per-site scales whose partial products leave the float range while the state stays inside
            v = balanced_copy(case, rng) or v
        v['op'] = rng.choice(['lcf', 'rcf', 'trunc'])
        v['chi'] = rng.choice(VARIANT_CHI)
        v['tol'] = rng.choice(TOLS + TOL_GE1[:1])
        v['qr'] = v['op'] != 'trunc' and not v['chi'] and not v['tol'] and rng.random() < 0.5
        v['normalise'] = rng.random() < 0.5
        v['mask'] = rng.choice([None, [rng.random() < 0.5 for _ in case['mps']]])
        if case['malformed'] == 'mask-length':
            v['malformed'] = None
        _, _, fails, _ = evaluate(v)
        if fails:
            return _found(fails[0], v, meta['seed'], True)
    return None


def _found(f, case, seed, variant):
    d = dict(case_desc(f.get('case', case)), what=f['what'], key=f['key'])
    if variant:
        d['variant_of_seed'] = seed
    return d


def _case_from_desc(d):
    case = build_case(d['seed']) if 'variant_of_seed' not in d else build_case(d['variant_of_seed'])
    for k in ('op', 'chi', 'tol', 'qr', 'normalise', 'mask'):
        case[k] = d[k]
    if 'variant_of_seed' in d and case['malformed'] == 'mask-length':
        case['malformed'] = None
    case['mps'] = [None if t is None else np.array(t['data'], dtype=float).reshape(t['shape']) for t in d['tensors']]
    return case


def replay(ctx, path):
    body = json.load(open(path))
    bad = 0
    for v in body.get('violations', []):
        ce = v.get('counterexample')
        if ce:
            d = ce.get('input', ce)
            if isinstance(d, dict) and str(d.get('seed', '')).startswith('T'):
                case = build_tiny(d['seed'])
                case['mps'] = [np.array(t['data'], dtype=float).reshape(t['shape']) for t in d['tensors']]
                what = tiny_check(case)
                print('replay', TINY_KEY, '->', what)
                bad += bool(what)
                continue
            if isinstance(d, dict) and 'tensors' in d:
                _, impl, fails, _ = evaluate(_case_from_desc(d))
                print('replay seed', d.get('seed'), d.get('op'), '->', impl[:100], [f['what'] for f in fails][:3])
                bad += bool(fails)
                continue
            if isinstance(d, dict) and 'present' in d:
                r = search({'op': 'c12 startstop ' + (';'.join('1,1,1,1' if p else 'N' for p in d['present']) or '_'),
                            'impl': _startstop_now(d['present'])})
                print('replay startstop', d['present'], '->', r)
                bad += bool(r)
                continue
        mm = v.get('first_mismatch')
        if mm:
            r = search(mm)
            print('replay', mm['op'][:120], '->', (r or {}).get('what'))
            bad += bool(r)
    return 1 if bad else 0


def _startstop_now(present):
    from qecsim.tensortools import mps as M
    mps = [np.ones((1, 1, 1, 1)) if p else None for p in present]
    try:
        return 'ok {},{}'.format(*M._mps_start_stop_indices(mps))
    except ValueError as ex:
        return err_name(ex)
