"""C06 — seeded runs are reproducible; decoding is pure and history-independent.

PROVED (Props/C06.lean, about Model/SeededRun.lean + Model/Memo.lean):
  run_deterministic, run_fuel_irrelevant, run_refines_scripted, run_prefix, stream_position, draws_layout,
  records_closed_form, memo_transparent, memo_history_independent, memo_capacity, memo_key_sufficiency_needed,
  memo_mutation_breaks.
TIED to the code on every run (exact correspondence, this module):
  (memo)   Model/Memo.lean against CPython's functools.lru_cache (answers, hit/miss pattern, currsize, eviction order,
           key-forgetting wrapper, aliasing mutation) — the semantics all qecsim caches rely on;
  (stream) Model/SeededRun.lean against the real app.run / app.run_ftp with the real SimpleErrorModel subclasses and a
           recording, syndrome-hash decoder: the model receives the uniforms of a twin default_rng(seed) (classified by
           the documented inverse CDF) and must reproduce every generated step error, every measurement flip, every
           per-run outcome, the aggregate, and the number of uniforms consumed (checked by bit_generator.state equality
           with the twin advanced by exactly n_run*T*(n+[q]m) doubles).  Beside the correspondence, the property is
           evaluated directly on the real code for each case (same seed twice, fresh objects, longer run extends the
           shorter one, other seed differs in the regime where a collision is impossible in practice).
EXPLORED, not proved (ctx.explored['history_differential'], oracle = the implementation itself in a fresh interpreter):
  random interleavings of decode / decode_ftp / run_once / run_once_ftp / run / run_ftp on SHARED decoder, code and
  error-model objects of all families, each call compared with the same call on fresh objects, all functools caches
  cleared, in a subprocess with another PYTHONHASHSEED and without the true error as context; caller arrays and
  code.stabilizers / logical_xs / logical_zs / logicals hashed before/after every call.
  Input classes of the histories: syndromes by class (random error, zero, single defect, two defects, random superset
  of the history's focus defect — zero / single-defect syndromes are what decoders special-case), PlanarYDecoder on all
  three gcd regimes of the size, random_seed as a value class (0, 1, 2^32-1, 2^63, 2^64, >128-bit ints; also in the
  stream part, run and run_ftp), error_model.generate as an op, verbatim repeats of earlier calls.
  Ownership: after EVERY call the caller flips in place bits of the arrays it was handed back as the result (recovery,
  DecodeResult fields, arrays of the run dict, generated error); decode / decode_ftp / generate are then repeated at once
  and must give the first answer; later calls are compared with fresh objects as before.  Identity: an array handed
  back never is / shares memory with one handed back earlier nor with any array reachable from a functools cache of
  qecsim (keys / results of the lru wrappers via gc referents) or from attributes of the code / decoder / error model.
  PROCESS-GLOBAL STATE is an input of every later call: mpmath precision, numpy errstate / print options / legacy global
  RNG, logging levels, os.environ, cwd, decimal context, warnings filters, recursion limit, gc, locale are recorded around
  EVERY call (c06_exec.global_state); a change is a lead, followed up by the differential: the remaining calls of that
  history and a battery of rounding-sensitive calls (below) right after the leaking call vs in a fresh process.  For the
  differential to mean what it says, every shared history and every fresh call runs in its OWN forked process (parent:
  qecsim imported, never called).
  Rounding-sensitive calls: syndromes whose two most probable cosets are EXACTLY tied (class 'tied': decided by rational
  arithmetic over the enumerated cosets; they exist on even-distance codes) for every tensor-network decoder in the modes
  c / r / a, exact and truncated — the answer then depends on the last bits of the arithmetic.
  USER SUBCLASSES: next to every code / decoder / error model class the histories use user subclasses of the SAME size
  and parameters (trivial; X/Z-swapped logical labels; logicals times a stabilizer), interleaved with the base class in
  both orders; the digests of the matrices the call's code object publishes after the call are part of the compared
  result (a subclass object is a different code: nothing it computes may be served to the base class or vice versa).
  PARAMETER EXTREMES (class 'extreme', `gen_extreme_history`): every decoder of the history pools with its constructor
  parameters at the ends of their documented domains — CMWPM factor in {0, 1e-300, 1e-200, 1, 1e200, 1e300, 1e308} x
  max_iterations {0..8} x every box shape / distance algorithm; MPS family chi in {1, 2, 3}, tol from 1e-300 to 1e300
  (tol >= 1 discards every singular value); SMWPM eta from 1e-300 to 1e300 / None — and error probabilities 1e-300 … 1e-8,
  0.5 ± 1e-12, 1 - 1e-9, 1 - 1e-16.  Only there do the decoders take their caught-and-logged exception paths (CMWPM:
  FloatingPointError inside `np.errstate(all='raise')`), and only at very low probabilities do later truncated MPS-family
  calls underflow silently, i.e. observe a numeric-error setting leaked by an earlier call; a planar station with CMWPM
  next to truncated MPS / RMPS decoders is part of every such history, and the probe battery of the global-state follow-up
  contains low-probability truncated decodes / runs of every tensor-network decoder (`lowp_probes`).
  IDENTICAL-CALL REPEATS (class 'y-repeat', `gen_y_history`): PlanarYDecoder's coin toss is documented for EXACTLY tied
  cosets only.  For Y-only errors (weight 0, 1, 2, light, typical, heavy) on sizes of all gcd regimes, p from 1e-300 to
  1 - 1e-16 incl. 0.5 ± 1e-12 / 2^-40 / 2^-30, the exact relative gap of the two coset sums is computed from the exact
  reference (c10_ybig.YRef, integers over the exact values of the floats); when it is >= 1e-40 the identical decode is
  repeated 8–16 times with the global `random` module seeded DIFFERENTLY each time and all answers must agree (note
  'NONDET', key nondeterministic:<decoder>:decode); exactly tied / nearer inputs are decoded once, pinned, as before.
  OBJECT LIFETIMES (classes 'sweep' and 'lifetime', spec key `life`): every argument object of a call is either KEPT (the
  caller's long-lived variable: the pool object of all other histories) or a TEMPORARY constructed for that call and
  released before the next temporary of its role is constructed — `dec.decode(code, s, error_model=Model(b), ...)` in a
  sweep loop.  A dead temporary's address (its id()) goes to a later object; the executor prefers, among up to 64 candidate
  constructions, one that lands on the address of a dead temporary of the same role and counts them (hist.life.objects).
  `gen_sweep_history`: what a parameter-sweep script does — code and decoder kept (round 0; later rounds: random / decoder /
  code / all temporaries; pattern x family grid over SMWPM rotated planar / rotated toric, planar MPS / RMPS / Y / (C)MWPM,
  rotated planar MPS / RMPS, colour MPS), the SAME <= 3 model-sensitive syndromes per code and op and the same 2 seeds at
  every sweep point, error model drawn per call from Y-biases over three decades x other axes x other model classes, eta
  unset and set.  `gen_lifetime_history`: general histories (all families / subclasses / syndrome classes) with the lifetime
  of each role drawn per call.  Differences are confirmed / replayed with up to 5 shared runs (address re-use is the
  allocator's decision).
  ARGUMENTS (c06_exec.execute): the caller's argument objects are built once per call spec — syndrome, `error`, the LISTS
  `step_errors` / `step_measurement_errors` of row arrays (as app.run_once_ftp builds them), probabilities — passed again
  by the immediate repeat, and compared DEEPLY before / after every decode / decode_ftp / generate / run* call (container
  type and length, identity of the elements, array contents / shape / dtype / writeable flag; repr() and label of the code,
  decoder and error-model objects): note 'ARG', key mutation:<decoder>:<op>.
  USER DECODERS THAT KEEP THEIR ANSWERS (class 'memo', `gen_memo_history`; c06_exec.subclass variants '~memo' / '~memo_s' /
  '~memo_lc' of Naive / planar + toric MWPM / planar MPS / rotated planar SMWPM / colour MPS): one DecodeResult per (code,
  syndrome, model, probability) — recovery only; recovery + success; recovery + logical_commutations — built once and handed
  out again whenever the key recurs.  6–10 simulations in a row on ONE such decoder object (seeded runs over 2 seeds x 3
  probabilities x 2 models x 1–2 codes, run_once, plain decodes), each compared with the same call on a fresh decoder; no
  caller modification there.  Monitor (note 'RESULT-OBJ', key mutation:<decoder>:<op>): after every call each DecodeResult
  the decoder keeps is compared deeply (attribute set, identity and state of every field) with what the decoder built.  The
  stream part checks the same for its recording decoder (`HashDec.touched`: success / None-ness of every field too).
Excluded / pinned (random or stateful by documented design): MPS/RMPS skip-truncate masks (stp is never set: the mask
  comes from an unseeded default_rng()), PlanarYDecoder's random.choice between exactly tied cosets (random.seed pinned
  before every call in both processes; for provably untied inputs it is NOT pinned: see repeats), FileErrorModel (cursor)
  is not used.
"""
import functools
import json
import os
import random as pyrandom
import subprocess
import sys
import time
from fractions import Fraction

import numpy as np

from qv import c06_exec as X
from qv import gens
from qv.core import ilist, mat, bits, TimeLimit, VERIF

LEVEL = 'proof'
REPLAY_RERUN = False  # the targeted replay re-evaluates the recorded input; no full re-run needed
RULE = ('memo: random call histories (<=40 calls, 15 keys, cap in {None,0,1,2,3,5,128}) against functools.lru_cache; '
        'stream: app.run/run_ftp on real codes (5-qubit, Steane, planar, toric, rotated planar/toric, colour, trivial) x '
        'all SimpleErrorModel subclasses x p in {0..1} x T<=3 x q in {None,0,.1,.5,1} x limits x 7 decoder answer '
        'kinds x random_seed value class (0, small, 2^32-1, 2^63, 2^64, up to 256-bit), uniforms from a twin generator; '
        'non-trivial = a run with >=1 failure or measurement noise or >=2 runs. '
        'history differential (shared objects vs fresh process per call; process-global state monitor; exactly tied '
        'syndromes for all TN decoders / modes; user subclasses interleaved with base classes; decoder parameters and '
        'probabilities at the ends of their domains; identical Y-decodes of provably untied cosets repeated 8-16 times '
        'under different `random` states; object lifetimes: kept v. temporary code / decoder / error-model objects along '
        'parameter sweeps with address re-use; deep before/after comparison of every argument container; user decoders '
        'that memoise and re-return their DecodeResult objects over several simulations, objects compared deeply): see '
        'coverage.explored')

HERE = os.path.dirname(os.path.abspath(__file__))
EXEC = os.path.join(os.path.dirname(HERE), 'c06_exec.py')
CALL_LIMIT = 15


class Exhausted(Exception):
    pass


# ------------------------------------------------------------------------------------------------ part: memo

def part_memo(ctx):
    rng = ctx.rng
    for _ in range(ctx.scale(400, 6000)):
        cap = rng.choice([None, 0, 1, 2, 3, 5, 128])
        args = [(rng.randrange(5), rng.randrange(3)) for _ in range(rng.choice([1, 3, 8, 20, 40]))]
        kind = rng.choice(['full', 'fst', 'ops'])
        if kind == 'full':
            @functools.lru_cache(maxsize=cap)
            def g(a, b):
                return 1000 * a + b
            call = g
        elif kind == 'fst':
            box = {}

            @functools.lru_cache(maxsize=cap)
            def g(a):  # keyed on `a` only although the value also depends on box['b']
                return 1000 * a + box['b']

            def call(a, b):
                box['b'] = b
                return g(a)
        if kind in ('full', 'fst'):
            out = []
            for a, b in args:
                h0 = g.cache_info().hits
                v = call(a, b)
                out.append('{}:{}'.format(v, g.cache_info().hits - h0))
            impl = '{} size={}'.format(','.join(out), g.cache_info().currsize)
            line = 'c06 memo {} {} {}'.format('N' if cap is None else cap, kind,
                                              ','.join('{}.{}'.format(a, b) for a, b in args))
            nt = len(set(args)) < len(args)
        else:
            @functools.lru_cache(maxsize=cap)
            def g(a, b):
                return [1000 * a + b]  # a mutable value returned by reference
            alias, out, ops = {}, [], []
            for a, b in args:
                if (a, b) in alias and rng.random() < 0.3:
                    alias[(a, b)][0] ^= 1
                    ops.append('m.{}.{}'.format(a, b))
                else:
                    alias[(a, b)] = g(a, b)
                    out.append(alias[(a, b)][0])
                    ops.append('c.{}.{}'.format(a, b))
            impl = '{} size={}'.format(ilist(out), g.cache_info().currsize)
            line = 'c06 memoops {} {}'.format('N' if cap is None else cap, ','.join(ops))
            nt = any(o.startswith('m') for o in ops)
        ctx.case(line, impl, nontrivial=nt, meta={'part': 'memo'})
        ctx.count('memo.kind', kind); ctx.count('memo.cap', cap)


# ------------------------------------------------------------------------------------------------ part: stream

STREAM_CODES = [['FiveQubitCode', []], ['SteaneCode', []], ['PlanarCode', [2, 2]], ['PlanarCode', [3, 3]],
                ['PlanarCode', [2, 4]], ['ToricCode', [2, 2]], ['ToricCode', [3, 3]], ['RotatedPlanarCode', [3, 3]],
                ['RotatedToricCode', [2, 2]], ['Color666Code', [3]], ['Trivial', [5, 1]], ['Trivial', [7, 2]]]
KINDS = ['bare', 'succ', 'full', 'rec_cv', 'none_sometimes', 'glitch', 'bare_sparse']


def rand_em(rng):
    k = rng.choice(['DepolarizingErrorModel', 'BitFlipErrorModel', 'PhaseFlipErrorModel', 'BitPhaseFlipErrorModel',
                    'BiasedDepolarizingErrorModel', 'BiasedYXErrorModel', 'CenterSliceErrorModel'])
    if k == 'BiasedDepolarizingErrorModel':
        return [k, [rng.choice([0.5, 3, 10, 100]), rng.choice('XYZ')]]
    if k == 'BiasedYXErrorModel':
        return [k, [rng.choice([0.5, 3, 10, 100])]]
    if k == 'CenterSliceErrorModel':
        lim = rng.choice([[0, 0, 1], [1, 0, 0], [0, 1, 0], [1, 1, 0], [0.5, 0, 1]])
        return [k, [lim, rng.choice([-1, -0.5, 0, 0.3, 1])]]
    return [k, []]


def make_code(spec):
    if spec[0] == 'Trivial':
        S, Lx, Lz = gens.trivial_code(*spec[1])
        return gens.MatCode(S, Lx, Lz, nkd=(spec[1][0], spec[1][1], None), label='trivial%d' % spec[1][0])
    return X._mk(X.CODES, spec[0], spec[1])


def make_em(spec):
    return X._mk(X.EMS, spec[0], spec[1])


def answer_for(kind, salt, synkey, n, nl):
    """deterministic function of the syndrome (and nothing else): wire answer for the model + builder for the code"""
    r = pyrandom.Random('{}|{}|{}'.format(salt, kind, synkey))
    rb = lambda k, d: [1 if r.random() < d else 0 for _ in range(k)]  # noqa: E731
    if kind == 'none_sometimes' and r.random() < 0.12:
        return 'none', None
    if kind in ('bare', 'none_sometimes'):
        v = rb(2 * n, 0.15); return 'bare:' + bits(v), ('bare', v)
    if kind == 'bare_sparse':
        v = rb(2 * n, 0.02); return 'bare:' + bits(v), ('bare', v)
    if kind == 'succ':
        s = r.random() < 0.6; return 'res:{}:N:N:N'.format(int(s)), ('res', s, None, None, None)
    if kind == 'full':
        s = r.random() < 0.5; lc = rb(nl, 0.4); cv = [r.randint(0, 3), r.randint(-2, 2)]
        return 'res:{}:{}:N:{}'.format(int(s), ilist(lc), ilist(cv)), ('res', s, lc, None, cv)
    if kind in ('rec_cv', 'glitch'):
        v = rb(2 * n, 0.05); cv = [r.randint(0, 5)]
        if kind == 'glitch' and r.random() < 0.15:
            cv = cv + [1]
        return 'res:N:N:{}:{}'.format(bits(v), ilist(cv)), ('res', None, None, v, cv)
    raise ValueError(kind)


def make_env():
    from qecsim.model import ErrorModel, Decoder, DecoderFTP, DecodeResult

    class RecEM(ErrorModel):
        """delegates to the real error model; records the generator object and every generated error"""

        def __init__(self, inner, max_calls):
            self.inner, self.max_calls = inner, max_calls
            self.errors, self.rngs, self.returned = [], [], []

        def generate(self, code, probability, rng=None):
            if len(self.errors) >= self.max_calls:
                raise Exhausted()
            self.rngs.append(rng)
            e = self.inner.generate(code, probability, rng)
            self.errors.append(np.array(e))
            self.returned.append(e)
            return e

        def probability_distribution(self, probability):
            return self.inner.probability_distribution(probability)

        @property
        def label(self):
            return self.inner.label

    class HashDec(Decoder, DecoderFTP):
        def __init__(self, kind, salt, n, nl):
            self.kind, self.salt, self.n, self.nl = kind, salt, n, nl
            self.table, self.calls, self.meas, self.ctx_ok = {}, 0, [], True
            self.memo = {}

        def _go(self, syndrome, kw):
            self.calls += 1
            synkey = mat(np.atleast_2d(syndrome))
            self.meas.extend(np.array(m) for m in kw.get('step_measurement_errors', []))
            if 'error' not in kw or 'step_errors' not in kw:
                self.ctx_ok = False
            wire, b = answer_for(self.kind, self.salt, synkey, self.n, self.nl)
            self.table[synkey] = wire
            if synkey in self.memo:  # the decoder's own cache: the very same objects are handed out again
                return self.memo[synkey]
            if b is None:
                return None
            if b[0] == 'bare':
                out = np.array(b[1], dtype=int)
            else:
                _, s, lc, v, cv = b
                A = lambda x: None if x is None else np.array(x, dtype=int)  # noqa: E731
                out = DecodeResult(success=s, logical_commutations=A(lc), recovery=A(v), custom_values=A(cv))
            self.memo[synkey] = out
            return out

        def touched(self):
            """answers handed out by this decoder that no longer hold what the decoder put into them"""
            bad = []
            for synkey, out in self.memo.items():
                _, b = answer_for(self.kind, self.salt, synkey, self.n, self.nl)
                if b[0] == 'bare':
                    pairs = [(out, b[1])]
                else:
                    # the DecodeResult is the decoder's object: every field still is what the decoder put there (a field
                    # it left None stays None: app resolves the unspecified outcomes for ITS run, not into the object)
                    pairs = [(out.success, b[1]), (out.logical_commutations, b[2]), (out.recovery, b[3]),
                             (out.custom_values, b[4])]
                    if sorted(vars(out)) != ['custom_values', 'logical_commutations', 'recovery', 'success']:
                        bad.append(synkey)
                for got, want in pairs:
                    if want is None or isinstance(want, bool):
                        if got is not want:
                            bad.append(synkey)
                    elif not np.array_equal(got, np.array(want, dtype=int)):
                        bad.append(synkey)
            return bad

        def decode(self, code, syndrome, **kw):
            return self._go(syndrome, kw)

        def decode_ftp(self, code, time_steps, syndrome, **kw):
            return self._go(syndrome, kw)

        label = 'hash-dec'
    return RecEM, HashDec


def fhex(x):
    return float(x).hex()


def real_run(rc, env, mr=None, mf='same', seed=None, fresh=True, objs=None):
    """one real app.run / run_ftp of the recipe; returns dict(impl=..., rec=..., dec=..., res=...)"""
    from qecsim import app
    from qecsim.error import QecsimError
    RecEM, HashDec = env
    code, inner = objs if objs else (make_code(rc['code']), make_em(rc['em']))
    n = code.n_k_d[0]
    S = np.atleast_2d(code.stabilizers); L = np.atleast_2d(code.logicals)
    T = rc['T']
    mr = rc['mr'] if mr is None else mr
    mf = rc['mf'] if mf == 'same' else mf
    seed = rc['seed'] if seed is None else seed
    em = RecEM(inner, rc['fuel'] * T)
    dec = HashDec(rc['kind'], rc['salt'], n, len(L))
    outs = []
    orig = app._run_once

    def spy(*a, **k):
        d = orig(*a, **k)
        outs.append('{}:{}:{}:{}'.format(int(d['error_weight']), int(bool(d['success'])),
                                         'N' if d['logical_commutations'] is None else ilist(d['logical_commutations']),
                                         'N' if d['custom_values'] is None else ilist(d['custom_values'])))
        return d
    app._run_once = spy
    res = None
    try:
        with TimeLimit(CALL_LIMIT):
            if rc['mode'] == 'ideal':
                res = app.run(code, em, dec, rc['p'], max_runs=mr, max_failures=mf, random_seed=seed)
            else:
                res = app.run_ftp(code, T, em, dec, rc['p'], rc['q'], max_runs=mr, max_failures=mf, random_seed=seed)
        status = 'ok'
    except QecsimError as ex:
        msg = str(ex)
        if 'Mismatch' in msg:
            status = 'QecsimError:{}:{}'.format('lc' if 'logical_commutations' in msg else 'cv', dec.calls)
        else:
            status = 'QecsimError:run:{}'.format(dec.calls)
    except Exhausted:
        status = 'fuel'
    finally:
        app._run_once = orig
    return {'status': status, 'res': res, 'em': em, 'dec': dec, 'outs': outs, 'n': n, 'S': S, 'L': L, 'code': code,
            'inner': inner}


def q_eff(rc):
    if rc['mode'] == 'ideal':
        return 0.0
    return (0.0 if rc['T'] == 1 else rc['p']) if rc['q'] is None else rc['q']


def cdf_classes(p, u):
    """numpy Generator.choice(a, size, p): cdf = p.cumsum(); cdf /= cdf[-1]; cdf.searchsorted(random(size), 'right')"""
    cdf = np.array(p, dtype=np.float64).cumsum()
    cdf /= cdf[-1]
    return cdf.searchsorted(u, side='right')


def consumed(rng_obj, seed, expect, upto):
    """number of doubles after which a twin default_rng(seed) has the state of rng_obj (None when not found)"""
    want = rng_obj.bit_generator.state
    tw = np.random.default_rng(seed)
    tw.random(expect)
    if tw.bit_generator.state == want:
        return expect
    tw = np.random.default_rng(seed)
    for c in range(upto + 1):
        if tw.bit_generator.state == want:
            return c
        tw.random()
    return None


def stream_case(rc, env):
    """(line, impl, post, nontrivial, aux) for one recipe"""
    r = real_run(rc, env)
    n, S, L, T = r['n'], r['S'], r['L'], rc['T']
    m = len(S)
    q = q_eff(rc)
    dps = n + (m if q else 0)
    total = rc['fuel'] * T * dps
    u = np.random.default_rng(rc['seed']).random(total)
    pauli = cdf_classes(r['inner'].probability_distribution(rc['p']), u)
    flip = cdf_classes((1 - q, q), u) if q else np.zeros(total, dtype=int)
    stream = ''.join(str(int(2 * a + b)) for a, b in zip(pauli.tolist(), flip.tolist())) or '_'
    table = '|'.join('{}={}'.format(k, v) for k, v in sorted(r['dec'].table.items())) or '.'
    line = 'c06 run {} {} {} {} {} {} {} {} {} {}'.format(
        n, T, int(bool(q)), 'N' if rc['mr'] is None else rc['mr'], 'N' if rc['mf'] is None else rc['mf'], rc['fuel'],
        mat(S), mat(L), stream, table)
    if r['status'] == 'ok':
        d = r['res']
        N = d['n_run']
        rng_objs = {id(o) for o in r['em'].rngs}
        pos = consumed(r['em'].rngs[0], rc['seed'], N * T * dps, total + 64) if len(rng_objs) == 1 else 'many-rngs'
        f = lambda v: 'N' if v is None else ilist(v)  # noqa: E731
        impl = 'ok {} {} {} {} {} {} {} {} {} pos={} errs={} meas={} outs={}'.format(
            N, d['n_success'], d['n_fail'], f(d['n_logical_commutations']), f(d['custom_totals']),
            d['error_weight_total'], fhex(d['error_weight_pvar']), fhex(d['logical_failure_rate']),
            fhex(d['physical_error_rate']), pos, mat(r['em'].errors), mat(r['dec'].meas), '|'.join(r['outs']) or '.')
        nt = d['n_fail'] > 0 or bool(q) or N >= 2
    else:
        impl = r['status']
        nt = True

    def post(reply, n=n, T=T):
        t = reply.split()
        if t[0] != 'ok':
            return reply
        nrun, nfail, tot = int(t[1]), int(t[3]), int(t[6])
        a, b = t[7].split('/')
        t[7] = fhex(float(Fraction(int(a), int(b)))); t[8] = fhex(nfail / nrun); t[9] = fhex(tot / n / T / nrun)
        return ' '.join(t)
    return line, impl, post, nt, r


def stream_monitors(rc, env, r0=None):
    """the property evaluated directly on the real code for this recipe; returns a description or None"""
    r0 = r0 or real_run(rc, env)
    t = r0['dec'].touched()
    if t:
        return {'what': 'the run modified an object returned by the decoder (an array in place, or a field of its '
                        'DecodeResult; the decoder hands out the same object for the same syndrome, so its later answers '
                        'change)', 'syndromes': t[:3]}
    if any(not np.array_equal(a, b) for a, b in zip(r0['em'].returned, r0['em'].errors)):
        return {'what': 'the run modified in place an error array returned by the error model'}
    canon = lambda r: (r['status'], None if r['res'] is None else X.canon_dict(r['res']),  # noqa: E731
                       mat(r['em'].errors), mat(r['dec'].meas), tuple(r['outs']))
    # same call again: fresh objects, then the very same code / error-model objects reused
    r1 = real_run(rc, env)
    if canon(r1) != canon(r0):
        return {'what': 'same arguments and random_seed, fresh objects: different result', 'first': canon(r0)[:2],
                'second': canon(r1)[:2]}
    r2 = real_run(rc, env, objs=(r0['code'], r0['inner']))
    if canon(r2) != canon(r0):
        return {'what': 'same arguments and random_seed, reused code/error-model objects: different result',
                'first': canon(r0)[:2], 'second': canon(r2)[:2]}
    if r0['status'] == 'ok':
        N = r0['res']['n_run']
        T = rc['T']
        # a longer run extends the shorter one (limits must not influence the stream)
        for extra in (1, 2):
            if N + extra > rc['fuel']:
                break
            rl = real_run(rc, env, mr=N + extra, mf=None)
            if rl['status'] == 'fuel':
                continue
            e0, el = r0['em'].errors, rl['em'].errors
            same = len(el) >= len(e0) and all(np.array_equal(a, b) for a, b in zip(e0, el))
            same = same and rl['outs'][:len(r0['outs'])] == r0['outs'] and \
                all(np.array_equal(a, b) for a, b in zip(r0['dec'].meas, rl['dec'].meas))
            if not same:
                return {'what': 'run with max_runs={} does not extend the run stopping after {} runs (same seed)'.format(
                    N + extra, N), 'short_errors': mat(e0), 'long_errors': mat(el), 'short_outs': r0['outs'],
                    'long_outs': rl['outs']}
            if rl['status'] == 'ok' and len(el) != (N + extra) * T and rl['res']['n_run'] == N + extra:
                return {'what': 'number of generate calls is not n_run*time_steps', 'calls': len(el)}
        # another seed gives other errors (only where a coincidence has probability < 2^-40)
        pd = r0['inner'].probability_distribution(rc['p'])
        if max(pd) <= 0.75 and len(r0['em'].errors) * r0['n'] >= 100:
            ro = real_run(rc, env, mr=N, mf=None, seed=rc['seed'] + 1)
            if mat(ro['em'].errors[:N * T]) == mat(r0['em'].errors):
                return {'what': 'a different random_seed generated the identical errors', 'errors': mat(r0['em'].errors)}
    return None


SEED_VALUES = [0, 0, 1, 2, 5, 2 ** 31 - 1, 2 ** 31, 2 ** 32 - 1, 2 ** 32, 2 ** 53 + 1, 2 ** 63 - 1, 2 ** 63, 2 ** 64 - 1,
               2 ** 64, 2 ** 64 + 1, 2 ** 96 + 12345, 2 ** 128 - 1, 2 ** 128, 10 ** 40 + 7, 2 ** 200 + 3]


def rand_seed(rng):
    """random_seed as a VALUE class: every non-negative int is a legal seed (SeedSequence takes arbitrary precision),
    so the extreme / falsy / word-boundary values are drawn as often as ordinary ones"""
    k = rng.random()
    if k < 0.45:
        return rng.choice(SEED_VALUES)
    if k < 0.55:
        return rng.randrange(2 ** rng.choice([1, 3, 8, 16]))  # small seeds incl. 0
    if k < 0.65:
        return rng.getrandbits(rng.choice([64, 65, 127, 128, 129, 256]))
    return rng.randrange(2 ** 32)


def gen_stream_recipe(rng):
    mode = rng.choice(['ideal', 'ftp', 'ftp'])
    T = 1 if mode == 'ideal' else rng.choice([1, 2, 3])
    return {'part': 'stream', 'code': rng.choice(STREAM_CODES), 'em': rand_em(rng),
            'p': rng.choice([0.0, 0.03, 0.1, 0.25, 0.5, 0.9, 1.0]), 'mode': mode, 'T': T,
            'q': None if mode == 'ideal' else rng.choice([None, 0.0, 0.1, 0.5, 1.0]),
            'mr': rng.choice([None, 1, 2, 3, 5, 8]), 'mf': rng.choice([None, None, 1, 2]), 'fuel': 8,
            'seed': rand_seed(rng), 'kind': rng.choice(KINDS), 'salt': rng.randrange(10 ** 6)}


def part_stream(ctx):
    env = make_env()
    rng = ctx.rng
    for it in range(ctx.scale(700, 10000)):
        rc = gen_stream_recipe(rng)
        line, impl, post, nt, r0 = stream_case(rc, env)
        ctx.case(line, impl, nontrivial=nt, post=post, meta={'part': 'stream', 'recipe': rc})
        bad = stream_monitors(rc, env, r0)
        if bad:
            bad['recipe'] = rc
            ctx.monitor_fail(bad['what'], bad, key='app.run:seeded:' + rc['em'][0])
        ctx.count('stream.mode', '{}/T{}'.format(rc['mode'], rc['T'])); ctx.count('stream.em', rc['em'][0])
        ctx.count('stream.code', rc['code'][0]); ctx.count('stream.status', impl.split()[0].split(':')[0])
        ctx.count('stream.kind', rc['kind']); ctx.count('stream.limits', '{}/{}'.format(rc['mr'], rc['mf']))
        ctx.count('stream.q', rc['q']); ctx.count('stream.seed', seed_class(rc['seed']))
        if impl.startswith('ok'):
            ctx.count('stream.n_run', impl.split()[1])
    # the seed is logged for reproducibility (app.py logs SeedSequence.entropy); informational only
    ctx.count('stream.seed_logged', seed_logged())


def seed_class(v):
    return '0' if v == 0 else ('<2^{}'.format(next(b for b in (8, 32, 63, 64, 128, 4096) if v < 2 ** b)))


def seed_logged():
    import logging
    from qecsim import app
    from qecsim.models.basic import FiveQubitCode
    from qecsim.models.generic import DepolarizingErrorModel, NaiveDecoder
    msgs = []

    class H(logging.Handler):
        def emit(self, record):
            msgs.append(record.getMessage())
    lg = logging.getLogger('qecsim.app')
    h, lvl, dis = H(), lg.level, logging.root.manager.disable
    logging.disable(logging.NOTSET); lg.addHandler(h); lg.setLevel(logging.INFO)
    try:
        app.run(FiveQubitCode(), DepolarizingErrorModel(), NaiveDecoder(), 0.1, max_runs=1, random_seed=424242)
    finally:
        lg.removeHandler(h); lg.setLevel(lvl); logging.disable(dis)
    return any('424242' in s for s in msgs)


# ------------------------------------------------------------------------------------------------ part: history

def fam_planar(rng):
    codes = [['PlanarCode', s] for s in rng.sample([[2, 2], [3, 3], [3, 4], [4, 4], [3, 5], [5, 3], [5, 5], [4, 6]], 2)]
    decs = rng.sample([['PlanarMWPMDecoder', {}], ['PlanarCMWPMDecoder', {}],
                       ['PlanarCMWPMDecoder', {'factor': 2, 'max_iterations': 2, 'box_shape': 'r', 'distance_algorithm': 2}],
                       ['PlanarMPSDecoder', {'chi': rng.choice([2, 4, 6])}],
                       ['PlanarMPSDecoder', {'chi': 8, 'mode': rng.choice('cra')}],
                       ['PlanarRMPSDecoder', {'chi': rng.choice([4, 6]), 'mode': rng.choice('cra')}],
                       ['PlanarRMPSDecoder', {'chi': 8}], ['PlanarYDecoder', {}]], 3)
    return codes, decs, None


def fam_planar_small(rng):
    codes = [['PlanarCode', s] for s in rng.sample([[2, 2], [2, 3], [3, 3], [3, 4], [4, 4]], 2)]
    decs = [['PlanarRMPSDecoder', {}], ['PlanarMPSDecoder', {'mode': rng.choice('cra')}], ['PlanarYDecoder', {}]]
    return codes, decs, None


def fam_planar_y(rng):
    """PlanarYDecoder has three regimes by the gcd structure of the size: co-prime (destabilizers), one side a multiple of
    the other (partial recoveries, no residual syndrome), gcd > 1 otherwise (partial recoveries + residual look-up)"""
    codes = [['PlanarCode', rng.choice([[4, 6], [6, 4]])], ['PlanarCode', rng.choice([[2, 3], [3, 4], [3, 5], [4, 5], [5, 3]])],
             ['PlanarCode', rng.choice([[2, 2], [2, 4], [3, 3], [4, 4], [4, 2]])]]
    return rng.sample(codes, 2), [['PlanarYDecoder', {}]], None


def fam_toric(rng):
    codes = [['ToricCode', s] for s in rng.sample([[2, 2], [3, 3], [4, 4], [3, 5], [5, 4], [6, 6]], 3)]
    return codes, [['ToricMWPMDecoder', {}]], None


def fam_rplanar(rng):
    codes = [['RotatedPlanarCode', s] for s in rng.sample([[3, 3], [3, 5], [5, 3], [5, 5], [4, 4], [4, 5]], 2)]
    decs = rng.sample([['RotatedPlanarMPSDecoder', {'chi': rng.choice([None, 4, 8])}],
                       ['RotatedPlanarMPSDecoder', {'chi': 6, 'mode': rng.choice('cra')}],
                       ['RotatedPlanarRMPSDecoder', {'chi': rng.choice([None, 4, 8]), 'mode': rng.choice('cra')}],
                       ['RotatedPlanarSMWPMDecoder', {}], ['RotatedPlanarSMWPMDecoder', {'eta': rng.choice([0.5, 10])}]],
                      3)
    return codes, decs, 'smwpm'


def fam_rplanar_big(rng):
    codes = [['RotatedPlanarCode', s] for s in rng.sample([[5, 7], [7, 7], [6, 6], [7, 5]], 2)]
    decs = rng.sample([['RotatedPlanarMPSDecoder', {'chi': rng.choice([4, 8])}],
                       ['RotatedPlanarRMPSDecoder', {'chi': rng.choice([4, 6]), 'mode': rng.choice('cra')}],
                       ['RotatedPlanarMPSDecoder', {'chi': 6, 'mode': 'a'}]], 2)
    return codes, decs, None  # SMWPM on 7x7 with T=3 needs > 15 s per call: kept to sizes <= 5x5 (fam_rplanar)


def fam_rtoric(rng):
    codes = [['RotatedToricCode', s] for s in rng.sample([[2, 2], [4, 4], [4, 6], [6, 4], [6, 6]], 3)]
    decs = [['RotatedToricSMWPMDecoder', {}], ['RotatedToricSMWPMDecoder', {'itp': True}],
            ['RotatedToricSMWPMDecoder', {'eta': rng.choice([0.5, 10])}]]
    return codes, rng.sample(decs, 2), 'smwpm'


def fam_color(rng):
    codes = [['Color666Code', [3]], ['Color666Code', [5]]]
    decs = [['Color666MPSDecoder', {'chi': rng.choice([None, 8])}], ['Color666MPSDecoder', {'chi': 4}]]
    return codes, decs, None


def fam_basic(rng):
    return [['FiveQubitCode', []], ['SteaneCode', []]], [['NaiveDecoder', {}]], None


def fam_basic_siblings(rng):
    """USER-DEFINED codes (BasicCode) that are SIBLINGS: equal in every constructor argument but one (another valid choice
    of logical Z, of logical X, of the stabilizer generators, another label, another n_k_d) - objects whose cached
    matrices must not be shared although almost everything about them is equal; used interleaved in one history"""
    s5 = ['XZZXI', 'IXZZX', 'XIXZZ', 'ZXIXZ']
    s5b = ['XZZXI', 'IXZZX', 'XIXZZ', 'YYZIZ']         # the same group, last generator times the first (XZZXI * ZXIXZ)
    s7 = ['IIIXXXX', 'IXXIIXX', 'XIXIXIX', 'IIIZZZZ', 'IZZIIZZ', 'ZIZIZIZ']
    base5 = [s5, ['XXXXX'], ['ZZZZZ'], [5, 1, 3], '5-qubit']
    sib5 = [[s5, ['XXXXX'], ['YYYYY'], [5, 1, 3], '5-qubit'],
            [s5, ['YYYYY'], ['ZZZZZ'], [5, 1, 3], '5-qubit'],
            [s5b, ['XXXXX'], ['ZZZZZ'], [5, 1, 3], '5-qubit'],
            [s5, ['XXXXX'], ['ZZZZZ'], [5, 1, 3], 'five'],
            [s5, ['XXXXX'], ['ZZZZZ'], [5, 1, None], '5-qubit']]
    base7 = [s7, ['XXXXXXX'], ['ZZZZZZZ'], [7, 1, 3], 'Steane']
    sib7 = [[s7, ['XXXXXXX'], ['YYYYYYY'], [7, 1, 3], 'Steane'], [s7, ['YYYYYYY'], ['ZZZZZZZ'], [7, 1, 3], 'Steane'],
            [s7, ['XXXXXXX'], ['ZZZZZZZ'], [7, 1, 3], 'steane']]
    if rng.random() < 0.6:
        chosen = [base5] + rng.sample(sib5, rng.choice([1, 2, 3]))
    else:
        chosen = [base7] + rng.sample(sib7, rng.choice([1, 2]))
    rng.shuffle(chosen)
    return [['BasicCode', c] for c in chosen], [['NaiveDecoder', {}]], None


TN_MODES = 'cra'


def fam_planar_even(rng):
    """EVEN-distance planar codes (exactly tied cosets exist: syndrome class 'tied') x every tensor-network decoder in
    every mode (c / r / a: the averaged mode adds two nearly equal numbers, the most rounding-sensitive comparison),
    exact and truncated, next to the decoders that work with process-global numeric state (PlanarYDecoder: mpmath)"""
    codes = [['PlanarCode', s] for s in rng.sample([[2, 2], [2, 3], [3, 2], [2, 4], [4, 2], [2, 5], [4, 4]], 3)]
    decs = [['PlanarMPSDecoder', {'mode': m}] for m in TN_MODES] + \
           [['PlanarRMPSDecoder', {'mode': m}] for m in TN_MODES] + \
           [['PlanarMPSDecoder', {'chi': rng.choice([2, 4]), 'mode': rng.choice(TN_MODES)}],
            ['PlanarRMPSDecoder', {'chi': rng.choice([2, 4]), 'mode': rng.choice(TN_MODES)}]]
    return codes, rng.sample(decs, 3) + [['PlanarYDecoder', {}]], None


def fam_rplanar_even(rng):
    codes = [['RotatedPlanarCode', s] for s in rng.sample([[4, 4], [3, 4], [4, 3], [4, 5], [4, 6]], 2)]
    decs = [['RotatedPlanarMPSDecoder', {'mode': m}] for m in TN_MODES] + \
           [['RotatedPlanarRMPSDecoder', {'mode': m}] for m in TN_MODES] + \
           [['RotatedPlanarMPSDecoder', {'chi': 4, 'mode': rng.choice(TN_MODES)}],
            ['RotatedPlanarRMPSDecoder', {'chi': 4, 'mode': rng.choice(TN_MODES)}]]
    return codes, rng.sample(decs, 3), None


FAMS = [fam_planar, fam_planar, fam_planar_small, fam_planar_y, fam_toric, fam_rplanar, fam_rplanar, fam_rplanar_big, fam_rtoric, fam_color,
        fam_basic, fam_basic_siblings, fam_basic_siblings, fam_planar_even, fam_planar_even, fam_rplanar_even]

# USER SUBCLASSES (c06_exec.subclass): a trivial subclass, the X/Z-swapped logical labelling, logicals times a stabilizer
CODE_VARIANTS = ['plain', 'swap', 'swap', 'stab']


def with_subclasses(rng, codes, decs, ems):
    """adds user subclasses of the SAME size / parameters next to their base classes, so that base and subclass objects
    are interleaved (both orders) in one history"""
    codes, decs, ems = list(codes), list(decs), list(ems)
    for c in rng.sample(codes, min(len(codes), rng.choice([1, 1, 2]))):
        codes.append([c[0] + '~' + rng.choice(CODE_VARIANTS), c[1]])
    if rng.random() < 0.4:
        d = rng.choice(decs)
        decs.append([d[0] + '~plain', d[1]])
    if rng.random() < 0.4:
        e = rng.choice(ems)
        ems.append([e[0] + '~plain', e[1]])
    return codes, decs, ems


def smwpm_ems(rng):
    """error models inside the SMWPM decoders' domain: finite positive bias (bias-0 and infinite-bias models excluded)"""
    pool = [['DepolarizingErrorModel', []], ['BiasedDepolarizingErrorModel', [rng.choice([0.5, 3, 10, 100]), 'Y']],
            ['BiasedDepolarizingErrorModel', [rng.choice([1, 30]), 'Y']], ['BiasedDepolarizingErrorModel', [3, 'X']]]
    return rng.sample(pool, 2)


def general_ems(rng):
    pool = [['DepolarizingErrorModel', []], ['BitFlipErrorModel', []], ['PhaseFlipErrorModel', []],
            ['BitPhaseFlipErrorModel', []], ['BiasedDepolarizingErrorModel', [rng.choice([0.5, 10, 100]), rng.choice('XYZ')]],
            ['BiasedYXErrorModel', [rng.choice([0.5, 10])]],
            ['CenterSliceErrorModel', [rng.choice([[0, 0, 1], [1, 0, 0], [0.5, 0, 1], [0, 1, 1]]), rng.choice([-1, 0, 0.4, 1])]]]
    return rng.sample(pool, 2)


def is_ftp(dec):
    return X.base_name(dec[0]) in ('RotatedPlanarSMWPMDecoder', 'RotatedToricSMWPMDecoder')


def is_tn(dec):
    return 'MPSDecoder' in dec[0]


def gf2_rank(M):
    M = (np.array(M, dtype=np.uint8) % 2).copy()
    r = 0
    for c in range(M.shape[1]):
        piv = next((i for i in range(r, M.shape[0]) if M[i, c]), None)
        if piv is None:
            continue
        M[[r, piv]] = M[[piv, r]]
        for i in range(M.shape[0]):
            if i != r and M[i, c]:
                M[i] ^= M[r]
        r += 1
        if r == M.shape[0]:
            break
    return r


_CODE_INFO = {}


def code_info(code):
    """(code object, stabilizers, swapped stabilizers for the syndrome map, stabilizers independent?)"""
    k = json.dumps(code)
    if k not in _CODE_INFO:
        c = make_code(code)
        S = np.array(c.stabilizers)
        n = S.shape[1] // 2
        _CODE_INFO[k] = (c, S, np.hstack((S[:, n:], S[:, :n])), gf2_rank(S) == len(S))
    return _CODE_INFO[k]


def single_qubit_error(n, qubit, pauli):
    e = np.zeros(2 * n, dtype=int)
    if pauli in 'XY':
        e[qubit % n] = 1
    if pauli in 'ZY':
        e[n + qubit % n] = 1
    return e


_SPAN, _TIES = {}, {}
TIE_MAX_GENERATORS = 16


def stabilizer_group(code):
    """all 2^m elements of the stabilizer group as a bit matrix (None when too large or k != 1)"""
    k = json.dumps(code)
    if k not in _SPAN:
        c, S, _, indep = code_info(code)
        G = None
        if indep and len(S) <= TIE_MAX_GENERATORS and c.n_k_d[1] == 1:
            G = np.zeros((1, S.shape[1]), dtype=np.uint8)
            for r in S.astype(np.uint8):
                G = np.vstack((G, G ^ r))
        _SPAN[k] = G
    return _SPAN[k]


def coset_enumerators(G, e, L):
    """for each of the four logical cosets of e: Counter (#X, #Y, #Z) -> number of coset elements"""
    import collections
    n = G.shape[1] // 2
    out = []
    for l in L:
        E = G ^ ((e + l) % 2).astype(np.uint8)
        x, z = E[:, :n], E[:, n:]
        y = x & z
        key = (x.sum(1) - y.sum(1)).astype(np.int64) * 10000 + y.sum(1) * 100 + (z.sum(1) - y.sum(1))
        u, c = np.unique(key, return_counts=True)
        out.append(collections.Counter({(int(a) // 10000, int(a) // 100 % 100, int(a) % 100): int(b) for a, b in zip(u, c)}))
    return out


def exactly_tied(G, e, L, pd):
    """are the two most probable logical cosets of the syndrome of e EXACTLY equally probable (rational arithmetic on
    the float probability distribution)?"""
    n = G.shape[1] // 2
    en = coset_enumerators(G, e, L)
    fl = [sum(c * pd[1] ** a * pd[2] ** b * pd[3] ** cc * pd[0] ** (n - a - b - cc) for (a, b, cc), c in cn.items())
          for cn in en]
    order = sorted(range(4), key=lambda i: -fl[i])
    if fl[order[0]] <= 0 or abs(fl[order[0]] - fl[order[1]]) > 1e-9 * fl[order[0]]:
        return False
    pI, pX, pY, pZ = (Fraction(float(x)) for x in pd)
    diff = dict(en[order[0]])
    for t, c in en[order[1]].items():
        diff[t] = diff.get(t, 0) - c
    return sum(c * pX ** a * pY ** b * pZ ** cc * pI ** (n - a - b - cc) for (a, b, cc), c in diff.items() if c) == 0


def tied_errors(code, em, p, want=4, tries=40):
    """errors (as the error model generates them) whose syndrome has exactly tied best cosets; cached per (code, em, p)"""
    k = json.dumps([code, em, p])
    if k not in _TIES:
        out = []
        G = stabilizer_group([X.base_name(code[0]), code[1]])
        if G is not None:
            c, S, Ssw, _ = code_info([X.base_name(code[0]), code[1]])
            e_m = make_em([X.base_name(em[0]), em[1]])
            pd = e_m.probability_distribution(p)
            lx, lz = np.array(c.logical_xs[0]), np.array(c.logical_zs[0])
            L = [np.zeros_like(lx), lx, (lx + lz) % 2, lz]
            grng = np.random.default_rng(int.from_bytes(k.encode(), 'little') % 2 ** 63)
            seen = set()
            for _ in range(tries):
                e = np.array(e_m.generate(c, p, grng))
                syn = bits((e @ Ssw.T) % 2)
                if syn in seen:
                    continue
                seen.add(syn)
                if exactly_tied(G, e, L, pd):
                    out.append(e)
                    if len(out) >= want:
                        break
        _TIES[k] = out
    return _TIES[k]


SYN_CLASSES = ['random', 'random', 'random', 'zero', 'single', 'single', 'double', 'super', 'super']


def gen_syndrome(rng, code, em, op, focus, p=0.1, tie_ok=False, classes=None, pes=(0.05, 0.1, 0.2, 0.3)):
    """syndrome argument of a decode / decode_ftp spec, by CLASS: random error (as the runs produce), zero, single defect
    (one stabilizer bit where the stabilizers are independent, else the defects of one single-qubit error), two defects,
    a random syndrome containing the focus defect, and — on small codes, for the tensor-network decoders — a syndrome whose
    two most probable cosets are EXACTLY tied (the decision then rests on the last bits of the arithmetic).  The zero and single-defect syndromes are the inputs decoders
    special-case (empty matching, no accumulation); `focus` (a stabilizer index and a qubit per history and code) makes
    the structured syndromes of one history hit the same per-defect cache entries again and again."""
    c, S, Ssw, indep = code_info([X.base_name(code[0]), code[1]])  # subclass variants share the base lattice
    n, m = S.shape[1] // 2, len(S)
    e_m = make_em([X.base_name(em[0]), em[1]])
    T = 1 if op == 'decode' else rng.choice([1, 2, 3])
    grng = np.random.default_rng(rng.randrange(2 ** 32))
    pe = rng.choice(list(pes))
    cls = rng.choice(classes or SYN_CLASSES)
    if op == 'decode' and tie_ok and rng.random() < 0.5:
        cls = 'tied'
    fs, fq, fp = focus
    unit = np.zeros(m, dtype=int)  # defects placed directly (only where every syndrome is reachable)
    zero_e = np.zeros(2 * n, dtype=int)
    rand_e = lambda: np.array(e_m.generate(c, pe, grng))  # noqa: E731
    if cls == 'tied':
        pool = tied_errors(code, em, p)
        if pool:
            es = [np.array(rng.choice(pool))]
        else:
            cls = 'random'
    if cls == 'tied':
        pass
    elif cls == 'random':
        es = [rand_e() for _ in range(T)]
    elif cls == 'zero':
        es = [zero_e.copy() for _ in range(T)]
    else:
        use_unit = indep and rng.random() < 0.7
        first = zero_e.copy() if use_unit else single_qubit_error(n, fq, fp)
        if use_unit:
            unit[fs % m] = 1
        if cls == 'double':
            if use_unit:
                unit[rng.choice([(fs + 1) % m, rng.randrange(m)])] ^= 1
                if not unit.any():
                    unit[fs % m] = 1
            else:
                first = first ^ single_qubit_error(n, rng.randrange(n), rng.choice('XYZ'))
        elif cls == 'super':
            first = first ^ rand_e()
        es = [first] + [(rand_e() if cls == 'super' else zero_e.copy()) for _ in range(T - 1)]
    ss = [(np.array(e) @ Ssw.T) % 2 for e in es]
    ss[0] = ss[0] ^ unit
    out = {'syn_class': cls}
    if op == 'decode':
        out['syn'] = bits(ss[0])
        if not unit.any():
            out['err'] = bits(es[0])
    else:
        q = rng.choice([0.0, 0.05, 0.2]) if cls in ('random', 'super') else 0.0
        ms = [(grng.random(m) < q).astype(int) for _ in range(T)]
        out['syn'] = '/'.join(bits(ms[t - 1] ^ ss[t] ^ ms[t]) for t in range(T))
        if not unit.any():
            out['err'] = bits(np.bitwise_xor.reduce(es))
            out['errs'] = '/'.join(bits(e) for e in es)
        out['T'] = T; out['q'] = q
        out['meas'] = '/'.join(bits(x) for x in ms)
    return out


def gen_history(rng, length):
    """one history: call specs over a small set of shared codes / decoders / error models / probabilities; after every
    call the caller modifies in place what it was handed back ('mut'); earlier calls are repeated verbatim later on"""
    stations = []
    for fam in rng.sample(FAMS, rng.choice([1, 1, 2])):
        codes, decs, dom = fam(rng)
        ems = smwpm_ems(rng) if dom == 'smwpm' else general_ems(rng)
        ps = rng.sample([0.02, 0.05, 0.1, 0.15, 0.2, 0.3, 0.45], 2)
        if rng.random() < 0.5:
            codes, decs, ems = with_subclasses(rng, codes, decs, ems)
        stations.append((codes, decs, ems, ps))
    return history_from_stations(rng, stations, length)


def history_from_stations(rng, stations, length, tie_p=lambda p: True):
    focus = {}
    specs = []
    for _ in range(length):
        if specs and rng.random() < 0.2:
            spec = json.loads(json.dumps(rng.choice(specs)))  # the very same call once more (it must give the same answer)
            spec['mut'] = rng.randrange(2 ** 16); spec['again'] = True
            specs.append(spec)
            continue
        codes, decs, ems, ps = rng.choice(stations)
        code, dec, em, p = rng.choice(codes), rng.choice(decs), rng.choice(ems), rng.choice(ps)
        ops = ['decode', 'decode', 'decode', 'decode', 'run_once', 'run', 'generate']
        if is_ftp(dec):
            ops += ['decode_ftp', 'decode_ftp', 'run_once_ftp', 'run_ftp']
        op = rng.choice(ops)
        spec = {'op': op, 'code': code, 'dec': dec, 'em': em, 'p': p, 'mut': rng.randrange(2 ** 16)}
        if op in ('decode', 'decode_ftp'):
            fk = json.dumps(code)
            if fk not in focus:
                focus[fk] = (rng.randrange(10 ** 6), rng.randrange(10 ** 6), rng.choice('XYZ'))
            spec.update(gen_syndrome(rng, code, em, op, focus[fk], p=p, tie_ok=is_tn(dec) and tie_p(p)))
        else:
            spec['seed'] = rand_seed(rng)
            if op in ('run_once_ftp', 'run_ftp'):
                spec['T'] = rng.choice([1, 2, 3]); spec['q'] = rng.choice([None, 0.0, 0.1])
            if op in ('run', 'run_ftp'):
                spec['max_runs'] = rng.choice([1, 2, 3, 4]); spec['max_failures'] = rng.choice([None, None, 1, 2])
        specs.append(spec)
    return specs


# ---- parameter EXTREMES: every constructor parameter / probability at the ends of its documented domain.  The caught-and-
# logged exception paths of the decoders (CMWPM: FloatingPointError for huge / tiny `factor`; MPS family: zero state after
# truncation, tol discarding every singular value; SMWPM: weights at the ends of the float range) are only reachable there.

CMWPM_FACTORS = [0, 1e-300, 1e-200, 1, 1e200, 1e300, 1e308]
TN_TOLS = [1e-300, 1e-100, 1e-16, 1e-8, 0.1, 0.5, 0.999, 1.0, 1.5, 1e3, 1e300]
SMWPM_ETAS = [None, 1e-300, 1e-9, 0.5, 1, 1e9, 1e300]
LOW_PS = [1e-300, 1e-200, 1e-100, 1e-50, 1e-20, 1e-8]
EXTREME_PS = LOW_PS + [0.5 - 1e-12, 0.5 + 1e-12, 1 - 1e-9, 1 - 1e-16]
NORMAL_PS = [0.02, 0.05, 0.1, 0.15, 0.2, 0.3, 0.45]


def x_cmwpm(rng):
    return ['PlanarCMWPMDecoder', {'factor': rng.choice(CMWPM_FACTORS), 'max_iterations': rng.choice([0, 1, 2, 4, 4, 8]),
                                   'box_shape': rng.choice('trfl'), 'distance_algorithm': rng.choice([1, 2, 4])}]


def x_tn(rng, name, mode=True):
    kw = {'chi': rng.choice([1, 2, 2, 3])}
    if rng.random() < 0.5:
        kw['tol'] = rng.choice(TN_TOLS)
    if mode:
        kw['mode'] = rng.choice('cra')
    return [name, kw]


def xfam_planar(rng):
    codes = [['PlanarCode', s] for s in rng.sample([[2, 2], [3, 3], [3, 4], [4, 4], [3, 5], [5, 3], [5, 5]], 2)]
    decs = [x_cmwpm(rng), x_cmwpm(rng), x_tn(rng, 'PlanarMPSDecoder'), x_tn(rng, 'PlanarRMPSDecoder'),
            rng.choice([['PlanarMWPMDecoder', {}], ['PlanarYDecoder', {}], x_cmwpm(rng)])]
    return codes, decs, general_ems(rng)


def xfam_rplanar(rng):
    codes = [['RotatedPlanarCode', s] for s in rng.sample([[3, 3], [3, 5], [5, 3], [5, 5], [4, 4], [4, 5]], 2)]
    decs = [x_tn(rng, 'RotatedPlanarMPSDecoder'), x_tn(rng, 'RotatedPlanarRMPSDecoder'),
            ['RotatedPlanarSMWPMDecoder', {'eta': rng.choice(SMWPM_ETAS)}],
            ['RotatedPlanarSMWPMDecoder', {'eta': rng.choice(SMWPM_ETAS)}]]
    return codes, decs, smwpm_ems(rng)


def xfam_rtoric(rng):
    codes = [['RotatedToricCode', s] for s in rng.sample([[2, 2], [4, 4], [4, 6], [6, 4]], 2)]
    decs = [['RotatedToricSMWPMDecoder', {'eta': rng.choice(SMWPM_ETAS), 'itp': rng.random() < 0.3}] for _ in range(3)]
    return codes, decs, smwpm_ems(rng)


def xfam_color(rng):
    codes = [['Color666Code', [3]], ['Color666Code', [5]]]
    decs = [x_tn(rng, 'Color666MPSDecoder', mode=False), x_tn(rng, 'Color666MPSDecoder', mode=False)]
    return codes, decs, general_ems(rng)


XFAMS = [xfam_planar, xfam_planar, xfam_planar, xfam_rplanar, xfam_rtoric, xfam_color]


def gen_extreme_history(rng, length, k):
    """a history over decoders with parameters at the ENDS of their domains and error probabilities from 1e-300 to
    1 - 1e-16; a planar station (CMWPM with extreme factors next to truncated MPS decoders) is always present, so that
    calls taking a caught-exception path are followed by calls at very low probabilities on other objects"""
    fams = [xfam_planar] + ([rng.choice(XFAMS)] if k % 2 else [])
    stations = []
    for fam in fams:
        codes, decs, ems = fam(rng)
        ps = rng.sample(LOW_PS, 2) + [rng.choice(EXTREME_PS), rng.choice(NORMAL_PS)]
        stations.append((codes, decs, ems, ps))
    h = history_from_stations(rng, stations, length, tie_p=lambda p: 1e-3 < p < 0.999)
    for sp in h:
        sp['class'] = 'extreme'
    return h


# ---- identical-call REPEATS for the decoder with documented randomness: PlanarYDecoder tosses a coin between EXACTLY tied
# cosets and only then.  Whether the two cosets are exactly tied is decided by the exact reference (c10_ybig.YRef: GF(2)
# kernel of the Y-syndrome map, integer coset sums over the exact values of the floats); for every decode that is NOT
# exactly tied, N >= 8 identical calls with the global `random` module in N different states must agree.

Y_PS = [1e-300, 1e-200, 1e-100, 1e-20, 1e-6, 0.01, 0.1, 0.3, 0.5 - 1e-12, 0.5 + 1e-12, 0.5 - 2.0 ** -40, 0.5 + 2.0 ** -30,
        0.5, 0.7, 1 - 1e-9, 1 - 1e-16]
Y_CODES = [[2, 2], [3, 3], [4, 4], [2, 4], [4, 2], [3, 6], [2, 3], [3, 4], [4, 5], [5, 4], [3, 5], [5, 6], [4, 6], [6, 4],
           [6, 9]]
Y_EMS = [['BitPhaseFlipErrorModel', []], ['BitPhaseFlipErrorModel', []], ['DepolarizingErrorModel', []],
         ['BiasedDepolarizingErrorModel', [10, 'Y']], ['BiasedDepolarizingErrorModel', [0.5, 'Y']],
         ['BiasedYXErrorModel', [3]]]
Y_MIN_GAP = Fraction(1, 10 ** 40)  # the decoder compares 50-digit sums of positive terms
_YREF = {}


def y_gap(code, em, p, ex):
    """exact relative gap |P(coset 1) - P(coset 2)| / max of the two Y-only coset sums of the Y-only error with x-half `ex`
    (Fraction; 0 = exactly tied)"""
    from qv import c10_ybig as YB
    k = json.dumps(code)
    if k not in _YREF:
        _YREF[k] = YB.YRef(make_code(code))
    ref = _YREF[k]
    pd = make_em(em).probability_distribution(p)
    pI, pY = Fraction(float(pd[0])), Fraction(float(pd[2]))
    D = max(pI.denominator, pY.denominator)  # powers of two
    sums = YB.exact_sums(ref.classes(np.asarray(ex, dtype=np.uint8)), ref.n, int(pI * D), int(pY * D))
    best = max(sums)
    return Fraction(0) if best == 0 else Fraction(abs(sums[0] - sums[1]), best)


def gen_y_history(rng, length):
    codes = [['PlanarCode', s] for s in rng.sample(Y_CODES, 3)]
    if rng.random() < 0.3:
        codes.append([codes[0][0] + '~plain', codes[0][1]])
    dec = ['PlanarYDecoder', {}]
    specs = []
    for _ in range(length):
        if specs and rng.random() < 0.15:
            spec = json.loads(json.dumps(rng.choice(specs)))
            spec['mut'] = rng.randrange(2 ** 16); spec['again'] = True
            specs.append(spec)
            continue
        code, em, p = rng.choice(codes), rng.choice(Y_EMS), rng.choice(Y_PS)
        if rng.random() < 0.12:
            specs.append({'op': 'run', 'code': code, 'dec': dec, 'em': ['BitPhaseFlipErrorModel', []],
                          'p': rng.choice([0.05, 0.1, 0.3]), 'mut': rng.randrange(2 ** 16), 'seed': rand_seed(rng),
                          'max_runs': rng.choice([1, 2, 4]), 'max_failures': None, 'class': 'y-repeat'})
            continue
        base = [code[0].split('~')[0], code[1]]
        n = code_info(base)[1].shape[1] // 2
        kind = rng.choice(['none', 'one', 'two', 'two', 'light', 'typical', 'heavy'])
        w = {'none': 0, 'one': 1, 'two': 2, 'light': rng.randint(2, 4), 'heavy': rng.randint(n // 3, n // 2 + 1)}.get(kind)
        ex = np.zeros(n, dtype=np.uint8)
        if w is None:
            ex = (np.array([rng.random() for _ in range(n)]) < rng.choice([0.05, 0.1, 0.2])).astype(np.uint8)
        else:
            ex[rng.sample(range(n), min(w, n))] = 1
        gap = y_gap(base, em, p, ex)
        ref = _YREF[json.dumps(base)]
        spec = {'op': 'decode', 'code': code, 'dec': dec, 'em': em, 'p': p, 'mut': rng.randrange(2 ** 16),
                'syn': bits(ref.syndrome(ex)), 'err': bits(np.concatenate((ex, ex))), 'class': 'y-repeat'}
        if gap >= Y_MIN_GAP:
            spec['syn_class'] = 'y-untied'
            spec['repeats'] = rng.choice([8, 12, 16])
            spec['gap'] = '{:.3e}'.format(float(gap)) if gap > Fraction(1, 10 ** 300) else 'below 1e-300, not 0'
        else:
            spec['syn_class'] = 'y-tied' if gap == 0 else 'y-near-tied'
        specs.append(spec)
    return specs


# ---- OBJECT LIFETIMES: which of the argument objects of a call are long-lived ('kept': the caller's variable) and which are
# TEMPORARIES constructed in the call expression and dropped after it (`dec.decode(code, s, error_model=Model(b), ...)` in
# a sweep loop).  A temporary's address — its id() — is handed to later objects, so anything qecsim remembers about an
# argument by identity (or through a reference that does not keep it alive) is served to ANOTHER object later on.  The
# sweep histories are what parameter-sweep scripts do: code and decoder kept, the SAME few syndromes / seeds decoded along
# a sweep over error-model parameters (bias values over three decades, every axis, other model classes) and probabilities.

SWEEP_BIASES = [0.5, 1, 3, 10, 30, 100, 300, 1000]
LIFE_PATTERNS = ['em-temp', 'em-temp', 'em-temp', 'random', 'random', 'dec-temp', 'code-temp', 'all-temp']
SWEEP_ROUNDS = ['em-temp', 'random', 'dec-temp', 'em-temp', 'code-temp', 'all-temp', 'random']  # pattern x family grid


def sweep_ems(rng, dom):
    ys = [['BiasedDepolarizingErrorModel', [b, 'Y']] for b in rng.sample(SWEEP_BIASES, 5)]
    if dom == 'smwpm':  # finite positive derived bias only
        return ys + [['DepolarizingErrorModel', []], ['BiasedDepolarizingErrorModel', [rng.choice([3, 10]), rng.choice('XZ')]]]
    return ys[:3] + [['BiasedDepolarizingErrorModel', [b, a]] for b in rng.sample(SWEEP_BIASES, 2) for a in 'XZ'] + \
        [['BiasedYXErrorModel', [b]] for b in rng.sample(SWEEP_BIASES, 2)] + \
        [['DepolarizingErrorModel', []], ['BitFlipErrorModel', []], ['PhaseFlipErrorModel', []], ['BitPhaseFlipErrorModel', []]]


def sfam_rplanar(rng):
    codes = [['RotatedPlanarCode', s] for s in rng.sample([[3, 3], [3, 5], [5, 3], [5, 5], [4, 4], [4, 5]], 2)]
    decs = [['RotatedPlanarSMWPMDecoder', {}], rng.choice([['RotatedPlanarSMWPMDecoder', {'eta': rng.choice([0.5, 10])}],
                                                            ['RotatedPlanarSMWPMDecoder', {}]])]
    return codes, decs, 'smwpm'


def sfam_rtoric(rng):
    codes = [['RotatedToricCode', s] for s in rng.sample([[2, 2], [4, 4], [4, 6], [6, 4]], 2)]
    decs = [['RotatedToricSMWPMDecoder', {}], rng.choice([['RotatedToricSMWPMDecoder', {'itp': True}],
                                                          ['RotatedToricSMWPMDecoder', {}]])]
    return codes, decs, 'smwpm'


def sfam_planar(rng):
    codes = [['PlanarCode', s] for s in rng.sample([[2, 2], [3, 3], [3, 4], [4, 4], [2, 4]], 2)]
    decs = rng.sample([['PlanarMPSDecoder', {'chi': rng.choice([None, 4])}], ['PlanarRMPSDecoder', {'mode': rng.choice('cra')}],
                       ['PlanarYDecoder', {}], ['PlanarCMWPMDecoder', {}], ['PlanarMWPMDecoder', {}]], 2)
    return codes, decs, None


def sfam_rplanar_tn(rng):
    codes = [['RotatedPlanarCode', s] for s in rng.sample([[3, 3], [3, 5], [4, 4], [5, 5]], 2)]
    decs = [['RotatedPlanarMPSDecoder', {'chi': rng.choice([None, 4])}], ['RotatedPlanarRMPSDecoder', {'chi': rng.choice([None, 4])}]]
    return codes, decs, None


def sfam_color(rng):
    return [['Color666Code', [3]], ['Color666Code', [5]]], [['Color666MPSDecoder', {'chi': rng.choice([None, 4, 8])}]], None


SFAMS = [sfam_rplanar, sfam_rplanar, sfam_rtoric, sfam_rtoric, sfam_planar, sfam_rplanar_tn, sfam_color]


def draw_life(rng, pattern):
    if pattern == 'random':
        return {r: rng.choice(['kept', 'temp']) for r in ('code', 'dec', 'em')}
    temp = {'em-temp': ['em'], 'dec-temp': ['dec'], 'code-temp': ['code'], 'all-temp': ['code', 'dec', 'em']}[pattern]
    return {r: ('temp' if r in temp else 'kept') for r in ('code', 'dec', 'em')}


def gen_sweep_history(rng, length, k):
    """one parameter sweep: a station of one family, the same few syndromes (per code and op) and seeds re-used at every
    sweep point, the error model / probability varying from call to call; object lifetimes by pattern"""
    codes, decs, dom = SFAMS[k % len(SFAMS)](rng)
    ems = sweep_ems(rng, dom)
    ps = rng.sample([0.05, 0.1, 0.2, 0.3], 2)
    pattern = SWEEP_ROUNDS[(k // len(SFAMS)) % len(SWEEP_ROUNDS)]  # round r: every family under pattern r
    focus = (rng.randrange(10 ** 6), rng.randrange(10 ** 6), rng.choice('XYZ'))
    syn_pool, seeds = {}, [rand_seed(rng) for _ in range(2)]
    specs = []
    for _ in range(length):
        if specs and rng.random() < 0.1:
            spec = json.loads(json.dumps(rng.choice(specs)))
            spec['mut'] = rng.randrange(2 ** 16); spec['again'] = True
            specs.append(spec)
            continue
        code, dec, em, p = rng.choice(codes), rng.choice(decs), rng.choice(ems), rng.choice(ps)
        ops = ['decode'] * 6 + ['run_once', 'run', 'generate']
        if is_ftp(dec):
            ops += ['decode_ftp', 'decode_ftp', 'decode_ftp', 'run_once_ftp', 'run_ftp']
        op = rng.choice(ops)
        spec = {'op': op, 'code': code, 'dec': dec, 'em': em, 'p': p, 'mut': rng.randrange(2 ** 16),
                'life': draw_life(rng, pattern), 'class': 'sweep', 'life_pattern': pattern}
        if op in ('decode', 'decode_ftp'):
            pk = json.dumps([code, op])
            pool = syn_pool.setdefault(pk, [])
            if len(pool) < 3:
                # syndromes of typical-to-heavy errors: the ones whose decoding depends on the assumed noise model
                g = gen_syndrome(rng, code, ['DepolarizingErrorModel', []], op, focus, p=p,
                                 classes=['random', 'random', 'random', 'super', 'double'], pes=(0.15, 0.2, 0.3))
                pool.append(g)
            spec.update(rng.choice(pool))
        else:
            spec['seed'] = rng.choice(seeds)
            if op in ('run_once_ftp', 'run_ftp'):
                spec['T'] = rng.choice([1, 2, 3]); spec['q'] = rng.choice([None, 0.0, 0.1])
            if op in ('run', 'run_ftp'):
                spec['max_runs'] = rng.choice([1, 2, 3]); spec['max_failures'] = rng.choice([None, None, 1])
        specs.append(spec)
    return specs


def gen_lifetime_history(rng, length):
    """a general history (all families, subclasses, syndrome classes) whose calls draw the lifetime of each argument object"""
    h = gen_history(rng, length)
    pattern = rng.choice(LIFE_PATTERNS)
    for sp in h:
        if not sp.get('again'):
            sp['life'] = draw_life(rng, pattern)
        sp['class'] = 'lifetime'; sp['life_pattern'] = pattern
    return h


# ---- USER DECODERS THAT KEEP THEIR ANSWERS (class 'memo'): decoding is a function of (code, syndrome, model, probability), so a
# user decoder may build one DecodeResult per key and hand the very same object out again (c06_exec.subclass variants
# '~memo' recovery only, '~memo_s' recovery + success, '~memo_lc' recovery + logical_commutations).  The decoder OBJECT then
# carries the history of all earlier simulations; a seeded run on it must still give the data of a fresh decoder object.

MEMO_STATIONS = [
    ([['FiveQubitCode', []]], ['NaiveDecoder', {}]), ([['SteaneCode', []]], ['NaiveDecoder', {}]),
    ([['FiveQubitCode', []], ['PlanarCode', [2, 2]]], ['NaiveDecoder', {}]),
    ([['PlanarCode', [3, 3]], ['PlanarCode', [2, 4]]], ['PlanarMWPMDecoder', {}]),
    ([['ToricCode', [2, 2]], ['ToricCode', [3, 3]]], ['ToricMWPMDecoder', {}]),
    ([['PlanarCode', [3, 3]]], ['PlanarMPSDecoder', {'chi': 4}]),
    ([['RotatedPlanarCode', [3, 3]]], ['RotatedPlanarSMWPMDecoder', {}]),
    ([['Color666Code', [3]]], ['Color666MPSDecoder', {}]),
]


def gen_memo_history(rng, length, k):
    """simulations, one after the other, on ONE memoising user decoder object: seeded runs over a few seeds x error
    probabilities x error models (so that the same seeded run recurs after other simulations, and syndromes recur with
    errors of different logical cosets), run_once and plain decodes in between.  No caller modification of the results:
    what such a decoder hands back stays the decoder's."""
    codes, (dname, dargs) = MEMO_STATIONS[k % len(MEMO_STATIONS)]
    variant = X.MEMO_VARIANTS[(k // len(MEMO_STATIONS) + k % len(MEMO_STATIONS)) % len(X.MEMO_VARIANTS)]
    dec = ['{}~{}'.format(dname, variant), dargs]
    ems = smwpm_ems(rng)[:2] if 'SMWPM' in dname else rng.sample(
        [['DepolarizingErrorModel', []], ['BitFlipErrorModel', []], ['BitPhaseFlipErrorModel', []],
         ['BiasedDepolarizingErrorModel', [10, 'Z']]], 2)
    ps = rng.sample([0.05, 0.1, 0.2, 0.3, 0.4], 3)
    seeds = [rand_seed(rng) for _ in range(2)]
    light = dname in ('NaiveDecoder', 'PlanarMWPMDecoder', 'ToricMWPMDecoder')
    specs, focus = [], {}
    for j in range(length):
        code, em, p = rng.choice(codes), rng.choice(ems), rng.choice(ps)
        op = 'run' if j < 2 else rng.choice(['run', 'run', 'run', 'run_once', 'decode'])
        spec = {'op': op, 'code': code, 'dec': dec, 'em': em, 'p': p, 'class': 'memo'}
        if op == 'decode':
            fk = json.dumps(code)
            focus.setdefault(fk, (rng.randrange(10 ** 6), rng.randrange(10 ** 6), rng.choice('XYZ')))
            spec.update(gen_syndrome(rng, code, em, op, focus[fk], p=p))
        else:
            spec['seed'] = rng.choice(seeds)
            if op == 'run':
                spec['max_runs'] = rng.choice([30, 60, 100] if light else [15, 30])
                spec['max_failures'] = rng.choice([None, None, None, 5])
        specs.append(spec)
    return specs


def spawn(job, hashseed):
    env = dict(os.environ)
    env['PYTHONHASHSEED'] = str(hashseed)
    for k in ('OPENBLAS_NUM_THREADS', 'OMP_NUM_THREADS', 'MKL_NUM_THREADS'):
        env[k] = '1'
    env['PYTHONPATH'] = os.pathsep.join([os.path.join(X_REPO(), 'src')] + [p for p in env.get('PYTHONPATH', '').split(os.pathsep) if p])
    p = subprocess.Popen([sys.executable, '-W', 'ignore', EXEC], stdin=subprocess.PIPE, stdout=subprocess.PIPE,
                         stderr=subprocess.PIPE, env=env, text=True)
    p.stdin.write(json.dumps(job)); p.stdin.close()
    return p


def X_REPO():
    from qv import core
    return core.REPO


def collect(p, timeout):
    try:
        out = p.stdout.read()
        p.wait(timeout=timeout)
    except subprocess.TimeoutExpired:
        p.kill()
        return None
    if p.returncode != 0:
        return None
    try:
        return json.loads(out)
    except ValueError:
        return None


def strip_err(spec):
    return {k: v for k, v in spec.items() if k not in ('err', 'errs')}


def run_job(calls, mode, hashseed, timeout=600):
    """`calls` as ONE history in a fresh interpreter (mode 'shared': one process, shared objects; 'fresh': every call in
    its own forked process on fresh objects)"""
    r = collect(spawn({'mode': mode, 'calls': calls, 'limit': CALL_LIMIT}, hashseed), timeout)
    return None if r is None else [x['res'] for x in r['results']]


LIFE_RETRIES = 5


def has_life(h):
    return any('temp' in (sp.get('life') or {}).values() for sp in h)


def run_shared(h, hashseed, fresh_last=None, index=-1):
    """`h` as one shared history.  Whether a temporary lands on the address of a dead one is decided by CPython's
    allocator (the executor only prefers such constructions): histories with temporaries are run up to LIFE_RETRIES times,
    until call `index` differs from `fresh_last`"""
    sh = None
    for _ in range(LIFE_RETRIES if has_life(h) and fresh_last is not None else 1):
        sh = run_job(h, 'shared', hashseed)
        if sh is None or sh[index] == 'TIMEOUT' or sh[index] != fresh_last:
            break
    return sh


def confirm(history, i, hs_a, hs_b):
    """re-establish a difference seen at call i of `history` in clean interpreters; returns a finding or None"""
    target = history[i]
    fa = run_job([strip_err(target)], 'fresh', hs_a)
    fb = run_job([strip_err(target)], 'fresh', hs_b)
    if fa is None or fb is None or 'TIMEOUT' in (fa[0], fb[0]):
        return None
    if fa[0] != fb[0]:
        fa2 = run_job([strip_err(target)], 'fresh', hs_a)
        if fa2 is not None and fa2[0] != fa[0] and fa2[0] != 'TIMEOUT':
            return {'what': 'the same call (same arguments, same seed) on fresh objects in two fresh interpreters with the '
                            'same PYTHONHASHSEED gives different results: not reproducible',
                    'history': [strip_err(target)], 'index': 0, 'hashseeds': [hs_a, hs_b], 'results': [fa[0], fa2[0]],
                    'mode': 'unrepeatable'}
        return {'what': 'the same call on fresh objects gives different results in interpreters with different '
                        'PYTHONHASHSEED (or memory layout: identity hashes)', 'history': [strip_err(target)], 'index': 0, 'hashseeds': [hs_a, hs_b],
                'results': [fa[0], fb[0]], 'mode': 'hashseed'}
    # single predecessor + target, then the whole prefix
    cands = [[history[j], target] for j in range(i - 1, -1, -1)][:12] + [history[:i + 1]]
    for h in cands:
        sh = run_shared(h, hs_a, fa[0])
        if sh is None or sh[-1] == 'TIMEOUT':
            continue
        if sh[-1] != fa[0]:
            # (with temporaries the address re-use is up to the allocator: a single agreeing run without the context
            # would say nothing, so the attribution to the context is not attempted there)
            wo = None if has_life(h) else run_job([strip_err(s) for s in h], 'shared', hs_a)
            only_code = sh[-1].split(' code=')[0] == fa[0].split(' code=')[0]
            return {'what': ('after the calls made before it in the same process, the code object of the last call publishes '
                             'stabilizers / logical_xs / logical_zs / logicals (digests after `code=`) that differ from '
                             'those the same code has in a fresh process' if only_code else
                             'result of the last call depends on the calls made before it on the shared objects')
                            + ('' if wo is None or wo[-1] != fa[0] else ' (through the true error passed as context)'),
                    'history': h, 'index': len(h) - 1, 'hashseeds': [hs_a, hs_b],
                    'results': {'after_history': sh[-1], 'fresh': fa[0]}, 'mode': 'history'}
    alone = run_job([target], 'shared', hs_a)
    if alone is not None and alone[0] != fa[0] and alone[0] != 'TIMEOUT':
        return {'what': 'decoding depends on the true error passed as context', 'history': [target], 'index': 0,
                'hashseeds': [hs_a, hs_b], 'results': {'with_error_context': alone[0], 'without': fa[0]},
                'mode': 'history'}
    return None


def probe_battery(rng, size):
    """calls whose answer depends on the last bits of the arithmetic (exactly tied syndromes on even-distance codes, every
    tensor-network decoder, modes c / r / a, exact and truncated) plus a seeded run per decoder family: the later calls
    that a leaked process-global numeric setting would change"""
    out = []
    pl = [['PlanarCode', s] for s in ([2, 2], [2, 3], [3, 2], [2, 4], [4, 2], [2, 5])]
    rp = [['RotatedPlanarCode', s] for s in ([4, 4], [3, 4], [4, 3])]
    ems = [['DepolarizingErrorModel', []], ['BiasedDepolarizingErrorModel', [10, 'Y']], ['BitFlipErrorModel', []],
           ['BiasedDepolarizingErrorModel', [3, 'X']], ['PhaseFlipErrorModel', []]]
    tries = 0
    while len(out) < size and tries < 20 * size:
        tries += 1
        planar = rng.random() < 0.65
        code = rng.choice(pl if planar else rp)
        name = rng.choice(['PlanarMPSDecoder', 'PlanarRMPSDecoder'] if planar else
                          ['RotatedPlanarMPSDecoder', 'RotatedPlanarRMPSDecoder'])
        dec = [name, {'mode': rng.choice('craa')}]
        if rng.random() < 0.3:
            dec[1]['chi'] = rng.choice([2, 4])
        em, p = rng.choice(ems), rng.choice([0.05, 0.1, 0.2, 0.3])
        pool = tied_errors(code, em, p)
        if not pool:
            continue
        e = np.array(rng.choice(pool))
        _, S, Ssw, _ = code_info(code)
        out.append({'op': 'decode', 'code': code, 'dec': dec, 'em': em, 'p': p, 'syn': bits((e @ Ssw.T) % 2),
                    'syn_class': 'tied'})
    out += lowp_probes(rng, max(30, size // 3))
    for code, dec in ([['PlanarCode', [4, 2]], ['PlanarMPSDecoder', {'mode': 'a'}]],
                      [['PlanarCode', [2, 4]], ['PlanarRMPSDecoder', {'mode': 'a'}]],
                      [['PlanarCode', [3, 3]], ['PlanarYDecoder', {}]], [['PlanarCode', [4, 4]], ['PlanarMWPMDecoder', {}]],
                      [['RotatedPlanarCode', [4, 4]], ['RotatedPlanarMPSDecoder', {'mode': 'a'}]],
                      [['Color666Code', [3]], ['Color666MPSDecoder', {}]], [['ToricCode', [2, 2]], ['ToricMWPMDecoder', {}]],
                      [['SteaneCode', []], ['NaiveDecoder', {}]]):
        out.append({'op': 'run', 'code': code, 'dec': dec, 'em': ['DepolarizingErrorModel', []], 'p': 0.1,
                    'seed': rng.randrange(2 ** 16), 'max_runs': 40, 'max_failures': None})
    return out


def lowp_probes(rng, size):
    """calls that are sensitive to process-global NUMERIC ERROR HANDLING (numpy errstate, warnings turned into errors):
    truncated tensor-network decodes and seeded runs at very low error probabilities, where products underflow silently
    by default — the later calls that a leaked `raise` setting would change"""
    out = []
    cfgs = [('PlanarCode', [[3, 3], [4, 4], [5, 5], [3, 5]], ['PlanarMPSDecoder', 'PlanarRMPSDecoder'], True),
            ('RotatedPlanarCode', [[3, 3], [5, 5], [4, 5]], ['RotatedPlanarMPSDecoder', 'RotatedPlanarRMPSDecoder'], True),
            ('Color666Code', [[5]], ['Color666MPSDecoder'], False)]
    ems = [['DepolarizingErrorModel', []], ['BitFlipErrorModel', []], ['BiasedDepolarizingErrorModel', [10, 'Y']]]
    while len(out) < size:
        cname, sizes, names, mode = rng.choice(cfgs)
        code = [cname, rng.choice(sizes)]
        dec = [rng.choice(names), {'chi': rng.choice([1, 2, 4])}]
        if mode:
            dec[1]['mode'] = rng.choice('cra')
        em, p = rng.choice(ems), rng.choice(LOW_PS)
        if rng.random() < 0.2:
            out.append({'op': 'run', 'code': code, 'dec': dec, 'em': em, 'p': p, 'seed': rng.randrange(2 ** 16),
                        'max_runs': 3, 'max_failures': None})
            continue
        c, S, Ssw, _ = code_info(code)
        e = np.array(make_em(em).generate(c, 0.1, np.random.default_rng(rng.randrange(2 ** 32))))
        out.append({'op': 'decode', 'code': code, 'dec': dec, 'em': em, 'p': p, 'syn': bits((e @ Ssw.T) % 2),
                    'syn_class': 'low-p'})
    return out


def lead_kind(note):
    return note.split('process-global state ')[1].split(':')[0] if 'process-global state ' in note else note[:40]


def global_followup(ctx, histories, leads, hs_a, hs_b):
    """a call changed process-global state (lead).  Confirmed by the differential: the same LATER call (the remaining
    calls of that history and the probe battery) right after the leaking call vs in a fresh process."""
    kinds = {}
    for h, i, nt in leads:
        sp = histories[h][i]
        kinds.setdefault((lead_kind(nt).split('.')[0], X.base_name(sp['em'][0] if sp['op'] == 'generate' else sp['dec'][0])),
                         []).append((h, i, nt))
    summary = {'leads': len(leads), 'kinds': sorted('{} by {}'.format(*k) for k in kinds), 'confirmed': [],
               'probes_per_kind': 0}
    battery = None
    for (state, who), cands in sorted(kinds.items())[:3]:
        if battery is None:
            battery = probe_battery(ctx.rng, ctx.scale(120, 400))
            summary['probes_per_kind'] = len(battery)
        # the cheapest leaking calls first (smallest code, plain decode before runs)
        cands = sorted(cands, key=lambda x: (histories[x[0]][x[1]]['op'] not in ('decode', 'generate'),
                                             sum(histories[x[0]][x[1]]['code'][1] or [0])))[:3]
        after = fresh = None
        for h, i, nt in cands:
            leak = histories[h][i]
            probes = [strip_err(s) for s in histories[h][i + 1:i + 7]] + battery
            after = run_job([leak] + probes, 'shared', hs_a, timeout=1800)
            if after is not None and after[0] != 'TIMEOUT':
                break
            after = None
        if after is None:
            continue
        fresh = run_job(probes, 'fresh', hs_b, timeout=1800)
        if fresh is None:
            continue
        hit = None
        for k, pr in enumerate(probes):
            a, b = after[k + 1], fresh[k]
            if 'TIMEOUT' in (a, b) or a == b:
                continue
            pair = run_job([leak, pr], 'shared', hs_a)
            alone = run_job([pr], 'fresh', hs_a)
            if pair is None or alone is None or 'TIMEOUT' in (pair[-1], alone[0]) or pair[-1] == alone[0]:
                continue
            hit = {'what': 'result of the last call depends on a call made before it in the same process, on other objects: '
                           'the earlier call changes process-global state ({})'.format(nt.split('state ')[-1]),
                   'history': [leak, pr], 'index': 1, 'hashseeds': [hs_a, hs_b], 'part': 'history', 'mode': 'history',
                   'results': {'after_history': pair[-1], 'fresh': alone[0]}, 'global_state_changed': nt}
            break
        if hit:
            summary['confirmed'].append('{} by {}'.format(state, who))
            ctx.monitor_fail(hit['what'], hit, key='global-state:{}:{}'.format(state, who))
    return summary


def part_history(ctx):
    rng = ctx.rng
    n_hist = ctx.scale(100, 1800)
    histories = [gen_history(rng, rng.choice([8, 12, 16, 20])) for _ in range(n_hist)]
    # parameter EXTREMES and identical-call REPEATS (generated after the general histories: their draw is unchanged)
    histories += [gen_extreme_history(rng, rng.choice([10, 14, 18]), k) for k in range(ctx.scale(14, 220))]
    histories += [gen_y_history(rng, rng.choice([10, 14])) for _ in range(ctx.scale(6, 90))]
    # object LIFETIMES (temporaries v. kept-alive argument objects): parameter sweeps and general histories
    histories += [gen_sweep_history(rng, rng.choice([16, 20, 24]), k) for k in range(ctx.scale(21, 105))]
    histories += [gen_lifetime_history(rng, rng.choice([8, 12, 16])) for _ in range(ctx.scale(6, 50))]
    # USER DECODERS that memoise and re-return their DecodeResult objects, used for several simulations in a row
    histories += [gen_memo_history(rng, rng.choice([6, 8, 10]), k) for k in range(ctx.scale(12, 96))]
    n_hist = len(histories)
    flat = [(h, i) for h in range(n_hist) for i in range(len(histories[h]))]
    n_workers = ctx.scale(3, 5)
    hs = [rng.randrange(1, 2 ** 31) for _ in range(2 * n_workers)]
    chunks = [flat[k::n_workers] for k in range(n_workers)]
    hchunks = [list(range(n_hist))[k::n_workers] for k in range(n_workers)]
    t0 = time.time()
    procs = [spawn({'mode': 'fresh', 'calls': [strip_err(histories[h][i]) for h, i in ch], 'limit': CALL_LIMIT}, s)
             for ch, s in zip(chunks, hs[:n_workers])]
    sprocs = [spawn({'mode': 'shared', 'histories': [histories[h] for h in hc], 'limit': CALL_LIMIT}, s)
              for hc, s in zip(hchunks, hs[n_workers:])]
    shared_res, fresh_res, mutated = {}, {}, []
    from qv.core import Infra
    try:
        for hc, p in zip(hchunks, sprocs):
            r = collect(p, 3600)
            if r is None:
                raise Infra('C06 shared-history worker failed: ' + (p.stderr.read()[-500:] if p.stderr else ''))
            for h, rh in zip(hc, r['histories']):
                for i, x in enumerate(rh):
                    shared_res[(h, i)] = x['res']
                    for ik, iv in (x.get('info') or {}).items():
                        ctx.hist['hist.life.objects'][ik] += iv
                    for nt in x['notes']:
                        mutated.append((h, i, nt))
        for ch, p in zip(chunks, procs):
            r = collect(p, 3600)
            if r is None:
                raise Infra('C06 fresh-call worker failed: ' + (p.stderr.read()[-500:] if p.stderr else ''))
            for (h, i), x in zip(ch, r['results']):
                fresh_res[(h, i)] = x['res']
                for nt in x['notes']:
                    mutated.append((h, i, nt + ' (fresh objects)'))
    finally:
        for p in procs + sprocs:
            if p.poll() is None:
                p.kill()
    for (h, i) in flat:
        spec, res = histories[h][i], shared_res[(h, i)]
        ctx.count('hist.op', spec['op']); ctx.count('hist.decoder', spec['dec'][0])
        ctx.count('hist.code', spec['code'][0]); ctx.count('hist.em', spec['em'][0])
        ctx.count('hist.syn_class', spec.get('syn_class', '-')); ctx.count('hist.again', bool(spec.get('again')))
        ctx.count('hist.class', spec.get('class', 'general'))
        if spec.get('class') == 'extreme':
            ctx.count('hist.extreme.p', spec['p'])
            for pk, pv in sorted(spec['dec'][1].items()):
                if pk in ('factor', 'tol', 'eta', 'chi', 'max_iterations'):
                    ctx.count('hist.extreme.' + pk, pv)
        if spec.get('repeats'):
            ctx.count('hist.y_repeat.p', spec['p'])
        if spec.get('life'):
            ctx.count('hist.life', '/'.join('{}:{}'.format(r, spec['life'][r]) for r in ('code', 'dec', 'em')))
        if 'seed' in spec:
            ctx.count('hist.seed', seed_class(spec['seed']))
        ctx.count('hist.result', 'EXC' if res.startswith('EXC') else ('TIMEOUT' if res == 'TIMEOUT' else 'value'))
    compared = differing = unconfirmed = 0
    reported = set()
    for (h, i) in flat:
        a, b = shared_res[(h, i)], fresh_res[(h, i)]
        if 'TIMEOUT' in (a, b):
            sp = histories[h][i]
            ctx.count('hist.skipped', 'timeout:{}{}:{}{}:{}'.format(sp['dec'][0], json.dumps(sp['dec'][1]), sp['code'][0],
                                                                    sp['code'][1], sp['op']))
            continue
        compared += 1
        if a != b:
            differing += 1
            if h in reported or len(reported) >= 3:
                continue
            f = confirm(histories[h], i, hs[0], hs[-1])
            if f:
                reported.add(h)
                f['part'] = 'history'
                sp = histories[h][i]
                ctx.monitor_fail(f['what'], f, key='history:{}:{}'.format(sp['dec'][0], sp['op']))
            else:
                unconfirmed += 1
    # notes of the workers: REPEAT (same call after the caller modified its result differs), ALIAS (result array is /
    # shares memory with an earlier result or a cached array), ARG / CODE (arguments or code matrices modified) are
    # failures of the property as stated; CACHE-WRITE (a cached array changed in place during a call) is a lead only:
    # it is followed up by the differential itself (later calls of the history, repeats) and counted below
    prio = {'NONDET': 0, 'REPEAT': 0, 'ALIAS': 1, 'ARG': 2, 'CODE': 3}
    leads = [x for x in mutated if x[2].startswith('CACHE-WRITE')]
    gleads = [x for x in mutated if x[2].startswith('GLOBAL')]
    gsummary = global_followup(ctx, histories, gleads, hs[0], hs[-1]) if gleads else {'leads': 0}
    hard = sorted((x for x in mutated if not x[2].startswith(('CACHE-WRITE', 'GLOBAL'))),
                  key=lambda x: (prio.get(x[2].split(':')[0], 9), len(histories[x[0]][:x[1] + 1])))
    seen_keys = set()
    for h, i, nt in hard:
        sp = histories[h][i]
        k = '{}:{}:{}'.format('nondeterministic' if nt.startswith('NONDET') else 'mutation',
                              sp['em'][0] if sp['op'] == 'generate' else sp['dec'][0], sp['op'])
        if k in seen_keys or len(seen_keys) >= 3:
            continue
        seen_keys.add(k)
        hist = [histories[h][i]] if nt.startswith('NONDET') else histories[h][:i + 1]
        ctx.monitor_fail(nt, {'part': 'history', 'mode': 'mutation', 'history': hist, 'index': len(hist) - 1,
                              'what': nt}, key=k)
    # pristine matrices: the shared code objects still show the matrices a fresh interpreter computes
    ctx.explored['history_differential'] = {
        'evaluations': compared, 'histories': n_hist, 'differing_calls': differing,
        'differences_not_reproduced_in_clean_interpreters': unconfirmed,
        'mutation_checks': len(flat), 'exhaustive': False,
        'global_state': gsummary,
        'cache_write_leads': len(leads), 'cache_write_lead_sample': [
            {'call': strip_err(histories[h][i]), 'note': nt} for h, i, nt in leads[:2]],
        'rule': 'each call of a random interleaving on shared objects (caches cleared only at the start of a history) '
                'vs the same call on fresh objects with all functools caches cleared, in interpreters with '
                'PYTHONHASHSEED in {}; canonical result = recovery bits / DecodeResult fields / run dict without '
                'wall_time (floats as hex) / exception type; argument arrays and code matrices hashed around every '
                'call; after every call the caller flips bits of the result arrays in place (decode/generate repeated '
                'at once); result arrays checked for identity / shared memory with earlier results and cached '
                'arrays; the digests of the matrices the call\'s code object publishes after the call are part of the '
                'compared result; process-global state (mpmath precision, numpy errstate / print options / global RNG, '
                'logging, environ, cwd, decimal context, warnings filters, …) recorded around every call, a change is '
                'followed up by the differential on the later calls and a battery of tie-sensitive decodes; every '
                'history (shared) / every call (fresh) runs in its own forked process; user subclasses of codes / '
                'decoders / error models are interleaved with their base classes; histories of class extreme (decoder '
                'parameters / probabilities at the ends of their domains) and y-repeat (identical untied Y-decodes under '
                'different `random` states), sweep / lifetime (argument objects kept v. temporaries whose address is '
                're-used by later objects); argument containers (lists of per-step arrays) compared deeply around every '
                'call; class memo: user decoders that keep and re-return one DecodeResult per syndrome (recovery only / + '
                'success / + logical_commutations) over several simulations, the kept objects compared deeply with what '
                'the decoder built after every call'.format(hs),
        'wall_s': round(time.time() - t0, 1)}
    ctx.evaluations += compared


# ------------------------------------------------------------------------------------------------ entry points

def run(ctx):
    t = time.time()
    part_memo(ctx)
    t1 = time.time()
    part_stream(ctx)
    t2 = time.time()
    part_history(ctx)
    ctx.extra['part_wall_s'] = {'memo': round(t1 - t, 1), 'stream': round(t2 - t1, 1), 'history': round(time.time() - t2, 1)}
    if os.environ.get('QV_DEBUG'):
        print('[c06]', dict(ctx.hist.get('hist.skipped', {})), ctx.extra['part_wall_s'], {k: v for k, v in ctx.explored.get('history_differential', {}).items()
                                                   if k != 'rule'})
    ctx.assumptions = [
        'PCG64 / numpy Generator.random and Generator.choice(p=…) = inverse CDF over Generator.random (the twin '
        'generator is the oracle for the uniforms; choice is re-implemented by cdf.searchsorted in the harness)',
        'CPython functools.lru_cache (its semantics are tied to Model/Memo.lean by the memo cases of this run)',
        'history differential: the oracle is the implementation itself in a fresh interpreter (code-vs-code); '
        'LAPACK / networkx results are assumed to be a function of their inputs within one machine',
    ]
    return ctx.finish(RULE, search=search, explanation=(
        'theorems cover the seeded loop and the memo table; which keys the real caches use and whether cached arrays '
        'are mutated is explored by the history differential (coverage.explored), not proved'))


def search(m):
    """a correspondence break in the stream part: evaluate the property itself on the real code for that recipe"""
    meta = m.get('meta') or {}
    if meta.get('part') != 'stream':
        return None
    env = make_env()
    rc = meta['recipe']
    for variant in [rc] + [dict(rc, seed=rc['seed'] + k, mr=mr, mf=None) for k in (1, 2) for mr in (2, 4)]:
        bad = stream_monitors(variant, env)
        if bad:
            bad['recipe'] = variant
            return bad
    return None


def replay(ctx, path):
    body = json.load(open(path))
    bad = 0
    env = make_env()
    for v in body.get('violations', []):
        ce = v.get('counterexample') or {}
        inp = ce.get('input') or ce
        if inp.get('recipe'):
            r = stream_monitors(inp['recipe'], env)
            print('replay stream recipe', json.dumps(inp['recipe']), '->', r and r['what'])
            bad += bool(r)
        elif inp.get('part') == 'history':
            hist, i = inp['history'], inp['index']
            hs_a, hs_b = (inp.get('hashseeds') or [11, 12])[:2]
            if inp.get('mode') == 'hashseed':
                a, b = run_job(hist, 'fresh', hs_a), run_job(hist, 'fresh', hs_b)
                still = a is not None and b is not None and a[i] != b[i]
            elif inp.get('mode') == 'unrepeatable':
                a, b = run_job(hist, 'fresh', hs_a), run_job(hist, 'fresh', hs_a)
                still = a is not None and b is not None and a[i] != b[i]
            elif inp.get('mode') == 'mutation':
                r = collect(spawn({'mode': 'shared', 'calls': hist, 'limit': CALL_LIMIT}, hs_a), 600)
                still = r is not None and any(not nt.startswith(('GLOBAL', 'CACHE-WRITE')) for x in r['results'] for nt in x['notes'])
            else:
                b = run_job([strip_err(hist[i])], 'fresh', hs_a)
                a = run_shared(hist, hs_a, None if b is None else b[0], index=i)
                still = a is not None and b is not None and a[i] != b[0] and 'TIMEOUT' not in (a[i], b[0])
            print('replay history ({} calls, mode {}) -> {}'.format(len(hist), inp.get('mode'),
                                                                    'still differs' if still else 'agrees'))
            bad += bool(still)
        mm = v.get('first_mismatch')
        if mm and not ce:
            r = search(mm); print('replay mismatch', mm['op'][:120], '->', r and r['what']); bad += bool(r)
    return 1 if bad else 0
