"""C05 — merge is a lossless, order- and partition-insensitive fold (qecsim.app.merge against Model/Merge.lean)"""
import copy
import json
import math
import os
import shutil
import subprocess
import sys
import tempfile
from fractions import Fraction

from qv.core import ilist, rat

RULE = ('record multisets drawn from pools of groups that differ in exactly one key field (code, n_k_d incl. d=None, '
        'error_model, decoder, error_probability, time_steps, measurement_error_probability), with/without arrays, '
        'tuple/list encoded, current/legacy field sets, random partitions into argument lists, plus closure (outputs of '
        'earlier merges fed back) and planted array mismatches / n_run=0 groups; arrays are absent (legacy) / None / '
        'present-but-EMPTY (zero-length tuple or list) / non-empty, in every position of a group; key VALUES are an input '
        'class: clusters of adjacent doubles (x, nextafter(x) up and down), decimal-looking values computed in different '
        'ways (0.1+0.2 / 0.3, 0.1*0.7 / 0.07, 3*0.1 ...), the smallest subnormal, 1e-300, 1-2^-53, and ints vs equal '
        'floats (0 / 0.0, 1 / 1.0: one group, as Python equality says) in both probability fields (the model keys on the '
        'exact rational value); the output key value must be bit-for-bit (repr) one of the group\'s input values; '
        'single-call equivalence with the '
        'model incl. output order; inputs deep-copied and compared after the call (immutability); metamorphic '
        'permutation/partition/nesting/JSON checks on the real merge. wall_time values are dyadic so float sums are '
        'exact. non-trivial = at least two records share a group. LEGACY FIELD SETS are a class: each of the four '
        'optional fields (time_steps, measurement_error_probability, n_logical_commutations, custom_totals) is present '
        'or absent INDEPENDENTLY (all 16 subsets), the present ones with non-default values (pools crossing time_steps '
        '1/2/3 with measurement_error_probability 0 / = error_probability / other), so that a legacy record shares its '
        'documented-default group with explicit records. CLI MERGE (`qecsim merge`, in-process click runner plus real '
        'subprocesses; stdout and -o file): record lists written to files, ARGUMENT LISTS as a class (distinct files, '
        'the same path repeated 2-4 times, the same file through different spellings ./x, absolute, sub/../x, d//x, '
        'symbolic and hard links, overlapping-glob style sorted list + sub-list again, many files, empty files); the '
        'CLI output goes through the same model case as app.merge on the loaded lists, must equal app.merge on the '
        'loaded lists and is judged directly against the property (grouping, conservation over ALL named files).')


def hexs(s):
    return s.encode().hex() or '00'


CV_SCALE = 1024   # custom_totals may be floats: dyadic multiples of 1/1024 (exact float sums) go to the model as integers


def cvlist(v):
    """custom totals scaled by CV_SCALE; an entry that is not an exact multiple of 1/CV_SCALE is shown as a fraction"""
    out = []
    for x in v:
        f = Fraction(x) * CV_SCALE if not isinstance(x, bool) else Fraction(int(x)) * CV_SCALE
        out.append(str(f.numerator) if f.denominator == 1 else '{}/{}'.format(f.numerator, f.denominator))
    return ','.join(out) if out else '_'


def rec_wire(r):
    def arr(k):
        if k not in r:
            return 'A'
        v = r[k]
        if v is None:
            return 'N'
        return ('l' if isinstance(v, list) else 't') + (cvlist(v) if k == 'custom_totals' else ilist(v))
    nkd = r['n_k_d']
    return ';'.join([
        hexs(r['code']), ','.join('N' if x is None else str(x) for x in nkd) if len(nkd) else '_',
        '1' if isinstance(nkd, list) else '0', hexs(r['error_model']), hexs(r['decoder']),
        rat(Fraction(r['error_probability'])),
        'N' if 'time_steps' not in r else str(r['time_steps']),
        'N' if 'measurement_error_probability' not in r else rat(Fraction(r['measurement_error_probability'])),
        str(r['n_run']), str(r['n_success']), str(r['n_fail']), str(r['error_weight_total']),
        rat(Fraction(r['wall_time'])), arr('n_logical_commutations'), arr('custom_totals')])


def fhex(x):
    return float(x).hex()


def group_wire(g):
    f = lambda v: 'N' if v is None else ilist(v)  # noqa: E731
    nkd = g['n_k_d']
    return ';'.join([
        hexs(g['code']), ','.join('N' if x is None else str(x) for x in nkd) if len(nkd) else '_',
        hexs(g['error_model']), hexs(g['decoder']), rat(Fraction(g['error_probability'])), str(g['time_steps']),
        rat(Fraction(g['measurement_error_probability'])), str(g['n_run']), str(g['n_success']), str(g['n_fail']),
        str(g['error_weight_total']), rat(Fraction(g['wall_time'])), f(g['n_logical_commutations']),
        'N' if g['custom_totals'] is None else cvlist(g['custom_totals']), fhex(g['logical_failure_rate']), fhex(g['physical_error_rate'])])


def post(reply):
    """model gives exact rational rates; the documented float expressions are evaluated on the model's sums"""
    if not reply.startswith('ok ') or reply == 'ok .':
        return reply
    out = []
    for g in reply[3:].split('|'):
        t = g.split(';')
        n = int(t[1].split(',')[0]); T = int(t[5]); nrun = int(t[7]); nfail = int(t[9]); ew = int(t[10])
        t[14] = fhex(nfail / nrun); t[15] = fhex(ew / n / T / nrun)
        out.append(';'.join(t))
    return 'ok ' + '|'.join(out)


def impl_merge(lists):
    from qecsim import app
    try:
        res = app.merge(*lists)
        return 'ok ' + ('|'.join(group_wire(g) for g in res) if res else '.'), res
    except ValueError:
        return 'ValueError', None
    except ZeroDivisionError:
        return 'ZeroDivisionError', None
    except Exception as ex:
        return type(ex).__name__, None


def base_record(rng):
    return {'code': 'Planar 3x3', 'n_k_d': (13, 1, 3), 'error_model': 'Depolarizing', 'decoder': 'Planar MWPM',
            'error_probability': 0.125, 'time_steps': 1, 'measurement_error_probability': 0.0}


def _near(x):
    return [x, math.nextafter(x, 0.0), math.nextafter(x, 2.0), math.nextafter(math.nextafter(x, 2.0), 2.0)]


# clusters of key values that are pairwise DIFFERENT doubles (different groups) although they look alike
CLUSTERS = [
    [0.3, 0.1 + 0.2] + _near(0.3)[1:3], [0.07, 0.1 * 0.7, 7 / 100, 0.7 / 10], [0.3, 3 * 0.1, 0.1 * 3, 1 - 0.7],
    [0.15, 0.1 + 0.05, 0.3 / 2, 0.45 / 3], _near(0.125), _near(0.5), _near(0.01), [1.0, 1 - 2.0 ** -53, 1 - 2.0 ** -52],
    [5e-324, 1e-323, 0.0], [1e-300, math.nextafter(1e-300, 1.0), 1e-300 * (1 + 2.0 ** -40)],
    [2.2250738585072014e-308, math.nextafter(2.2250738585072014e-308, 0.0)], [1 / 3, 0.1 / 0.3, 1 - 2 / 3],
    [0.6, 0.2 * 3, 0.2 + 0.4, 1.2 / 2], [1e-05, 0.1 ** 5, 1 / 100000, 10.0 ** -5],
]


VARIANTS = [
    ('code', 'Planar 3x5'), ('n_k_d', (13, 1, None)), ('n_k_d', (15, 1, 3)), ('error_model', 'Bit-flip'),
    ('decoder', 'Planar MPS (chi=6)'), ('error_probability', 0.25), ('error_probability', 0), ('time_steps', 3),
    ('measurement_error_probability', 0.125), ('measurement_error_probability', 1), ('code', ''),
]


def make_pool(rng):
    """group prototypes: base + single-field variants; each prototype fixes its array shape"""
    base = base_record(rng)
    protos = [base]
    for k, v in rng.sample(VARIANTS, rng.randint(1, 5)):
        p = dict(base); p[k] = v; protos.append(p)
    if rng.random() < 0.5:  # near-equal key values: every distinct double is its own group
        k = rng.choice(['error_probability', 'error_probability', 'measurement_error_probability'])
        vals = sorted(set(rng.choice(CLUSTERS)))
        for v in rng.sample(vals, rng.randint(2, len(vals))):
            p = dict(base); p[k] = v; protos.append(p)
    if rng.random() < 0.35:  # legacy class: time_steps x measurement_error_probability crossed, incl. mep == p
        pe = rng.choice([base['error_probability'], 0.25, 0.5])
        cross = [(ts, mep) for ts in (1, 2, 3) for mep in (0.0, pe, 0.0625)]
        for ts, mep in rng.sample(cross, rng.randint(2, 5)):
            p = dict(base); p['error_probability'] = pe; p['time_steps'] = ts
            p['measurement_error_probability'] = mep; protos.append(p)
    shaped = []
    for p in protos:
        shaped.append((p, rng.choice([None, 0, 2, 2, 4]), rng.choice([None, None, 0, 1, 3])))
    return shaped


# the newer (optional) fields with their documented defaults
OPTIONAL = (('time_steps', 1), ('measurement_error_probability', 0.0), ('n_logical_commutations', None),
            ('custom_totals', None))


def make_record(rng, proto, lcl, cvl, allow_legacy=True, zero=False):
    r = dict(proto)
    n_run = 0 if zero else rng.randint(1, 50)
    n_fail = rng.randint(0, n_run)
    r.update({'n_run': n_run, 'n_fail': n_fail, 'n_success': n_run - n_fail,
              'error_weight_total': rng.randint(0, 200), 'wall_time': rng.randint(0, 4096) / 1024.0,
              'n_logical_commutations': None if lcl is None else tuple(rng.randint(0, n_run) for _ in range(lcl)),
              # custom values are arbitrary numbers: integers, or floats with a fractional part (dyadic, so that float
              # sums are exact), mixed within one vector
              'custom_totals': None if cvl is None else tuple(
                  rng.randint(-9, 99) if rng.random() < 0.6 else rng.randint(-4096, 99 * 1024) / 1024.0 for _ in range(cvl)),
              'error_weight_pvar': 0.5, 'logical_failure_rate': 0.25, 'physical_error_rate': 0.125})
    for k in ('error_probability', 'measurement_error_probability'):  # ints vs equal floats: the same group
        if r[k] == int(r[k]) and rng.random() < 0.4:
            r[k] = rng.choice([int(r[k]), float(r[k])])
    enc = rng.random()
    if enc < 0.3:  # JSON form: lists for tuples
        r['n_k_d'] = list(r['n_k_d'])
        for k in ('n_logical_commutations', 'custom_totals'):
            if r[k] is not None: r[k] = list(r[k])
    if allow_legacy and rng.random() < 0.5:
        # legacy field SETS: every optional field absent independently; a field holding its documented default can
        # always be dropped (same group as the explicit records), a non-default one rarely (the record then moves to
        # the default's group - the model decides)
        for k, dflt in OPTIONAL:
            if rng.random() < 0.5:
                at_default = r[k] is None if dflt is None else (r[k] == dflt)
                if at_default or rng.random() < 0.04:
                    del r[k]
    return r


def partition(rng, recs):
    k = rng.randint(1, max(1, min(4, len(recs) + 1)))
    lists = [[] for _ in range(k)]
    for r in recs:
        lists[rng.randrange(k)].append(r)
    return lists


def canon(res):
    """canonical, order-free form of a merge result for metamorphic comparison on the real code"""
    if res is None:
        return None
    return sorted(group_wire(g) for g in res)


def run(ctx):
    rng = ctx.rng
    fed_back = []
    for it in range(ctx.scale(2500, 50000)):
        pool = make_pool(rng)
        recs = []
        kind = 'plain'
        for _ in range(rng.choice([0, 1, 2, 3, 5, 8, 12])):
            proto, lcl, cvl = rng.choice(pool)
            recs.append(make_record(rng, proto, lcl, cvl))
        r = rng.random()
        if r < 0.15 and recs:  # planted mismatch
            proto, lcl, cvl = rng.choice(pool)
            bad = make_record(rng, proto, rng.choice([None, 0, 1, 3]), rng.choice([None, 0, 2]))
            recs.insert(rng.randrange(len(recs) + 1), bad); kind = 'maybe-mismatch'
        elif r < 0.2 and recs:
            proto, lcl, cvl = rng.choice(pool)
            recs.append(make_record(rng, proto, lcl, cvl, zero=True)); kind = 'zero-run'
        elif r < 0.4 and fed_back:  # closure: feed earlier outputs back
            recs.extend(copy.deepcopy(rng.choice(fed_back))); kind = 'closure'
        rng.shuffle(recs)
        lists = partition(rng, recs)
        before = copy.deepcopy(lists)
        impl, res = impl_merge(lists)
        if lists != before:
            ctx.monitor_fail('merge mutated its inputs', {'lists': before})
        if res is not None:
            bad_key = key_value_check([x for l in before for x in l], res)
            if bad_key:
                ctx.monitor_fail(bad_key[0], dict(bad_key[1], lists=before))
        line = 'c05 merge ' + ' '.join('|'.join(rec_wire(x) for x in l) if l else '.' for l in lists)
        keys = [norm_key(x) for x in recs]
        shared = len(set(keys)) < len(keys)
        ctx.case(line, impl, nontrivial=shared, post=post, meta={'kind': kind})
        ctx.count('kind', kind); ctx.count('n_records', len(recs)); ctx.count('n_lists', len(lists))
        ctx.count('outcome', impl.split()[0])
        if res:
            ctx.count('n_groups', len(res))
            if len(fed_back) < 50 or rng.random() < 0.1:
                fed_back.append(res)
                if len(fed_back) > 60: fed_back.pop(0)
        # metamorphic checks on the real code (the property itself; these are the failing-input oracle)
        if it % 4 == 0:
            flat = [x for l in lists for x in l]
            c0 = canon(res)
            perm = flat[:]; rng.shuffle(perm)
            alt = [('perm', [perm]), ('partition', partition(rng, flat)), ('json', json.loads(json.dumps(lists)))]
            if res is not None and len(flat) >= 2:
                cut = rng.randrange(len(flat) + 1)
                a = impl_merge([flat[:cut]])[1]; b = impl_merge([flat[cut:]])[1]
                if a is not None and b is not None:
                    alt.append(('nested', [a, b]))
                alt.append(('idempotent', [res]))
            for name, ls in alt:
                i2, r2 = impl_merge(copy.deepcopy(ls))
                ctx.evaluations += 1
                if (r2 is None) != (res is None) or (res is None and i2 != impl) or canon(r2) != c0:
                    ctx.monitor_fail('merge result changes under ' + name,
                                     {'lists': before, 'variant': ls, 'base': impl[:300], 'variant_result': i2[:300]})
    part_cli(ctx)
    return ctx.finish(RULE, search=search)


KEYF = lambda r: (r['code'], tuple(r['n_k_d']), r['error_model'], r['decoder'], r['error_probability'],  # noqa: E731
                  r.get('time_steps', 1), r.get('measurement_error_probability', 0.0))


def key_value_check(flat, res):
    """losslessness of the key itself: every output group's numeric key values are, bit for bit (repr), values that
    occur in the input records of that group (grouping by Python equality of the seven key fields)"""
    groups = {}
    for r in flat:
        groups.setdefault(KEYF(r), []).append(r)
    for g in res:
        rs = groups.get(KEYF(g))
        if rs is None:
            return ('output group key is not the key of any input record', {'output_key': repr(KEYF(g))})
        for f, dflt in (('error_probability', None), ('time_steps', 1), ('measurement_error_probability', 0.0)):
            have = {repr(r.get(f, dflt)) for r in rs}
            if repr(g[f]) not in have:
                return ('output key value of {} is not bit-for-bit an input value of its group'.format(f),
                        {'got': repr(g[f]), 'input_values': sorted(have)})
    return None


def parse_rec(w):
    t = w.split(';')
    U = lambda h: bytes.fromhex(h).decode() if h != '00' else ''  # noqa: E731
    F = lambda s: float(Fraction(s))  # noqa: E731
    nkd = [None if x == 'N' else int(x) for x in t[1].split(',')] if t[1] != '_' else []
    r = {'code': U(t[0]), 'n_k_d': nkd if t[2] == '1' else tuple(nkd), 'error_model': U(t[3]), 'decoder': U(t[4]),
         'error_probability': F(t[5]), 'n_run': int(t[8]), 'n_success': int(t[9]), 'n_fail': int(t[10]),
         'error_weight_total': int(t[11]), 'wall_time': F(t[12])}
    if t[6] != 'N': r['time_steps'] = int(t[6])
    if t[7] != 'N': r['measurement_error_probability'] = F(t[7])
    for k, w_ in (('n_logical_commutations', t[13]), ('custom_totals', t[14])):
        if w_ == 'A':
            continue
        if w_ == 'N':
            r[k] = None
        else:
            v = [] if w_[1:] == '_' else [int(x) for x in w_[1:].split(',')]
            if k == 'custom_totals':
                v = [x // CV_SCALE if x % CV_SCALE == 0 else x / CV_SCALE for x in v]
            r[k] = v if w_[0] == 'l' else tuple(v)
    return r


def search(m):
    """direct evaluation of the property on the real merge for the disagreeing input: conservation, grouping,
    order/partition/nesting invariance"""
    meta = m.get('meta') or {}
    if meta.get('kind') == 'cli':
        return cli_judge(meta['spec'])
    toks = m['op'].split()[2:]
    lists = [[parse_rec(w) for w in l.split('|')] if l != '.' else [] for l in toks]
    impl, res = impl_merge(copy.deepcopy(lists))
    return judge(lists, impl, res)


def judge(lists, impl, res):
    """the property evaluated directly on one merge answer (res: list of groups, or None when merge raised `impl`)
    for the argument lists `lists`; returns a failure description or None"""
    flat = [x for l in lists for x in l]
    keyf = lambda r: (r['code'], tuple(r['n_k_d']), r['error_model'], r['decoder'], r['error_probability'],  # noqa
                      r.get('time_steps', 1), r.get('measurement_error_probability', 0.0))
    groups = {}
    for r in flat:
        groups.setdefault(keyf(r), []).append(r)
    shape = lambda v: None if v is None else len(v)  # noqa: E731
    inconsistent = any(len({(shape(r.get('n_logical_commutations')), shape(r.get('custom_totals'))) for r in g}) > 1
                       for g in groups.values())
    if inconsistent:
        if res is not None:
            return {'what': 'records with inconsistent arrays were merged instead of rejected', 'lists': lists}
        return None
    if any(sum(r['n_run'] for r in g) == 0 for g in groups.values()):
        return None
    if res is None:
        return {'what': 'merge raised on consistent records', 'lists': lists, 'impl': impl}
    if len(res) != len(groups):
        return {'what': 'records are not grouped by exactly the seven key fields', 'lists': lists,
                'n_groups': len(res), 'expected': len(groups),
                'input_keys': sorted(repr(k[4:]) for k in groups), 'output_keys': sorted(repr(keyf(g)[4:]) for g in res)}
    for g in res:
        k = keyf(g)
        if k not in groups:
            return {'what': 'output group key not among input keys', 'lists': lists, 'key': repr(k)}
        rs = groups[k]
        for f in ('n_run', 'n_success', 'n_fail', 'error_weight_total', 'wall_time'):
            if g[f] != sum(r[f] for r in rs):
                return {'what': 'totals not conserved: ' + f, 'lists': lists, 'got': g[f],
                        'expected': sum(r[f] for r in rs)}
        for f in ('n_logical_commutations', 'custom_totals'):
            vs = [r.get(f) for r in rs]
            e = None if vs[0] is None else tuple(sum(c) for c in zip(*vs))
            if (None if g[f] is None else tuple(g[f])) != e:
                return {'what': 'array totals not conserved: ' + f, 'lists': lists, 'got': g[f], 'expected': e}
        if g['logical_failure_rate'] != g['n_fail'] / g['n_run'] or \
                g['physical_error_rate'] != g['error_weight_total'] / g['n_k_d'][0] / g['time_steps'] / g['n_run']:
            return {'what': 'rates not recomputed from the sums', 'lists': lists}
    return None


# ------------------------------------------------------------------------------------------ `qecsim merge` (CLI)
# spec (JSON-able): {'files': {name: [records]}, 'links': {name: [kind, target]}, 'dirs': [..], 'args': [path spellings],
#                    'arg_files': [name of the file each argument denotes], 'out': None | file name, 'proc': bool}

def cli_setup(spec):
    d = tempfile.mkdtemp(prefix='qv_c05_')
    for sub in spec.get('dirs', []):
        os.makedirs(os.path.join(d, sub), exist_ok=True)
    for name, recs in spec['files'].items():
        with open(os.path.join(d, name), 'w') as f:
            json.dump(recs, f)
    for name, (kind, target) in spec.get('links', {}).items():
        (os.symlink if kind == 'sym' else os.link)(os.path.join(d, target), os.path.join(d, name))
    return d


def sub_env():
    env = dict(os.environ)
    src = os.path.join(os.environ.get('QECSIM_REPO', '/repo'), 'src')
    env['PYTHONPATH'] = src + (os.pathsep + env['PYTHONPATH'] if env.get('PYTHONPATH') else '')
    return env


def cli_argv(spec, d):
    args = [a.replace('{ABS}', d).replace('{BASE}', os.path.basename(d)) for a in spec['args']]
    return ['merge'] + (['-o', spec['out']] if spec.get('out') else []) + args


def cli_finish(spec, d, code, exc_name, stdout):
    """wire form of the CLI answer (same as impl_merge) + parsed groups"""
    if code == 0 and exc_name is None:
        try:
            if spec.get('out'):
                with open(os.path.join(d, spec['out'])) as f:
                    res = json.load(f)
            else:
                res = json.loads(stdout)
            return 'ok ' + ('|'.join(group_wire(g) for g in res) if res else '.'), res
        except Exception as ex:
            return 'cli-output-unreadable:{}'.format(type(ex).__name__), None
    return exc_name or 'cli-exit-{}'.format(code), None


def cli_eval(spec):
    """run `qecsim merge` as described by spec: (impl wire, groups or None, loaded argument lists)"""
    d = cli_setup(spec)
    try:
        argv = cli_argv(spec, d)
        if spec.get('proc'):
            p = subprocess.run([sys.executable, '-m', 'qecsim'] + argv, cwd=d, env=sub_env(), stdout=subprocess.PIPE,
                               stderr=subprocess.PIPE, text=True, timeout=300)
            last = p.stderr.strip().splitlines()[-1:] or ['']
            exc = None if p.returncode == 0 else (last[0].split(':')[0] if 'Error' in last[0].split(':')[0] else None)
            impl, res = cli_finish(spec, d, p.returncode, exc, p.stdout)
        else:
            import warnings
            from click.testing import CliRunner
            with warnings.catch_warnings():
                warnings.simplefilter('ignore')
                from qecsim import cli
            try:
                runner = CliRunner(mix_stderr=False)
            except TypeError:  # click >= 8.2
                runner = CliRunner()
            old = os.getcwd(); os.chdir(d)
            try:
                r = runner.invoke(cli.cli, argv)
            finally:
                os.chdir(old)
            exc = None
            if r.exception is not None and not isinstance(r.exception, SystemExit):
                exc = type(r.exception).__name__
            impl, res = cli_finish(spec, d, r.exit_code, exc, r.stdout)
        loaded = [json.loads(json.dumps(spec['files'][n])) for n in spec['arg_files']]
        return impl, res, loaded
    finally:
        shutil.rmtree(d, ignore_errors=True)


def cli_judge(spec):
    impl, res, loaded = cli_eval(spec)
    bad = judge(loaded, impl, res)
    if bad is None:
        i2, r2 = impl_merge(copy.deepcopy(loaded))
        if (impl, json.loads(json.dumps(r2))) != (i2, res):
            bad = {'what': '`qecsim merge` differs from app.merge on the loaded lists', 'cli': impl[:300],
                   'api': i2[:300]}
    if bad:
        bad = dict(bad); bad.pop('lists', None)
        bad['what'] = '`qecsim merge` ' + ' '.join(spec['args']) + ': ' + bad['what']
        bad['cli'] = spec
    return bad


SPELL = ['{n}', './{n}', '{ABS}/{n}', 'sub/../{n}', './/{n}', 'sub/./../{n}', '{ABS}//{n}', '../{BASE}/{n}']


def cli_spec(rng, kind, big):
    """one CLI merge input of argument-list class `kind`"""
    pool = make_pool(rng)
    nfiles = {'many': rng.randint(20, 60 if not big else 300)}.get(kind, rng.randint(1, 4))
    files = {}
    for i in range(nfiles):
        recs = []
        for _ in range(rng.choice([0, 1, 1, 2, 3, 5]) if kind != 'many' else rng.choice([0, 1, 2])):
            proto, lcl, cvl = rng.choice(pool)
            recs.append(make_record(rng, proto, lcl, cvl))
        files['data_{}.json'.format(i)] = json.loads(json.dumps(recs))
    names = sorted(files)
    spec = {'files': files, 'links': {}, 'dirs': ['sub'], 'out': rng.choice([None, None, 'merged.json']), 'proc': False}
    pairs = [(n, n) for n in names]  # (spelling, file)
    if kind == 'repeat':  # the same path string several times
        n = rng.choice(names)
        for _ in range(rng.randint(1, 3)):
            pairs.insert(rng.randrange(len(pairs) + 1), (n, n))
    elif kind == 'spellings':  # the same file through different path spellings / links
        n = rng.choice(names)
        for j in range(rng.randint(1, 3)):
            if rng.random() < 0.3:
                ln = 'link_{}.json'.format(j)
                spec['links'][ln] = [rng.choice(['sym', 'hard']), n]
                pairs.insert(rng.randrange(len(pairs) + 1), (ln, n))
            else:
                pairs.insert(rng.randrange(len(pairs) + 1), (rng.choice(SPELL[1:]).replace('{n}', n), n))
    elif kind == 'globs':  # overlapping shell globs: sorted list followed by a sorted sub-list (maybe twice)
        for _ in range(rng.randint(1, 2)):
            pairs += [(n, n) for n in names if rng.random() < 0.6] or [(names[0], names[0])]
    elif kind == 'many':
        if rng.random() < 0.5:
            pairs += [(n, n) for n in rng.sample(names, rng.randint(1, 5))]
        rng.shuffle(pairs)
    else:  # distinct files, any order
        rng.shuffle(pairs)
    spec['args'] = [a for a, _ in pairs]
    spec['arg_files'] = [n for _, n in pairs]
    return spec


CLI_KINDS = ['repeat', 'repeat', 'spellings', 'spellings', 'globs', 'many', 'distinct']


def part_cli(ctx):
    rng = ctx.rng
    n_cases = ctx.scale(260, 2500)
    n_proc = ctx.scale(3, 12)
    for it in range(n_cases + n_proc):
        kind = CLI_KINDS[it % len(CLI_KINDS)]
        spec = cli_spec(rng, kind, big=not ctx.quick() and it % 50 == 0)
        if it >= n_cases:
            spec['proc'] = True
        impl, res, loaded = cli_eval(spec)
        line = 'c05 merge ' + ' '.join('|'.join(rec_wire(x) for x in l) if l else '.' for l in loaded)
        keys = [norm_key(x) for l in loaded for x in l]
        ctx.case(line, impl, nontrivial=len(set(keys)) < len(keys), post=post, meta={'kind': 'cli', 'spec': spec})
        ctx.count('cli-args', kind + (' (subprocess)' if spec['proc'] else ''))
        ctx.count('cli-outcome', impl.split()[0]); ctx.count('cli-n-args', min(len(spec['args']), 20))
        bad = judge(loaded, impl, res)
        if bad is None:
            i2, r2 = impl_merge(copy.deepcopy(loaded))
            ctx.evaluations += 1
            if (impl, res) != (i2, json.loads(json.dumps(r2))):
                bad = {'what': '`qecsim merge` differs from app.merge on the loaded lists', 'cli': impl[:300],
                       'api': i2[:300]}
        if bad:
            bad = dict(bad); bad.pop('lists', None)
            what = '`qecsim merge` ' + ' '.join(spec['args'][:8]) + ': ' + bad.pop('what')
            ctx.monitor_fail(what, dict(bad, cli=spec))


def norm_key(r):
    """group key of a record as Python equality sees it (legacy defaults applied)"""
    return (r['code'], tuple(r['n_k_d']), r['error_model'], r['decoder'], r['error_probability'],
            r.get('time_steps', 1), r.get('measurement_error_probability', 0.0))


def replay(ctx, path):
    body = json.load(open(path)); bad = 0
    for v in body.get('violations', []):
        mm = v.get('first_mismatch')
        if mm:
            r = search(mm); print('replay', mm['op'][:160], '->', r); bad += bool(r)
        ce = v.get('counterexample') or {}
        spec = (ce.get('input') or {}).get('cli') if isinstance(ce.get('input'), dict) else None
        if spec:
            r = cli_judge(spec); print('replay qecsim merge', spec['args'], '->', r); bad += bool(r)
    return 1 if bad else 0
