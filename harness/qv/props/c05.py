"""C05 — merge is a lossless, order- and partition-insensitive fold (qecsim.app.merge against Model/Merge.lean)"""
import copy
import json
import math
from fractions import Fraction

from qv.core import ilist, rat

RULE = ('record multisets drawn from pools of groups that differ in exactly one key field (code, n_k_d incl. d=None, '
        'error_model, decoder, error_probability, time_steps, measurement_error_probability), with/without arrays, '
        'tuple/list encoded, current/legacy field sets, random partitions into argument lists, plus closure (outputs of '
        'earlier merges fed back) and planted array mismatches / n_run=0 groups; arrays are absent (legacy) / None / '
        'present-but-EMPTY (zero-length tuple or list) / non-empty, in every position of a group; key VALUES are an input '
        'class: clusters of adjacent doubles (x, nextafter(x) up and down), decimal-looking values computed in different '
        'ways (0.1+0.2 / 0.3, 0.1*0.7 / 0.07, 3*0.1 ...), the smallest subnormal, 1e-300, 1-2^-53, and ints vs equal '
        'floats (0 / 0.0, 1 / 1.0: one group, as Python equality says) in both probability fields (the model keys on the '
        'exact rational value); the output key value must be bit-for-bit (repr) one of the group\'s input values; '
        'single-call equivalence with the '
        'model incl. output order; inputs deep-copied and compared after the call (immutability); metamorphic '
        'permutation/partition/nesting/JSON checks on the real merge. wall_time values are dyadic so float sums are '
        'exact. non-trivial = at least two records share a group')


def hexs(s):
    return s.encode().hex() or '00'


def rec_wire(r):
    def arr(k):
        if k not in r:
            return 'A'
        v = r[k]
        if v is None:
            return 'N'
        return ('l' if isinstance(v, list) else 't') + ilist(v)
    nkd = r['n_k_d']
    return ';'.join([
        hexs(r['code']), ','.join('N' if x is None else str(x) for x in nkd) if len(nkd) else '_',
        '1' if isinstance(nkd, list) else '0', hexs(r['error_model']), hexs(r['decoder']),
        rat(Fraction(r['error_probability'])),
        'N' if 'time_steps' not in r else str(r['time_steps']),
        'N' if 'measurement_error_probability' not in r else rat(Fraction(r['measurement_error_probability'])),
        str(r['n_run']), str(r['n_success']), str(r['n_fail']), str(r['error_weight_total']),
        rat(Fraction(r['wall_time'])), arr('n_logical_commutations'), arr('custom_totals')])


def fhex(x):
    return float(x).hex()


def group_wire(g):
    f = lambda v: 'N' if v is None else ilist(v)  # noqa: E731
    nkd = g['n_k_d']
    return ';'.join([
        hexs(g['code']), ','.join('N' if x is None else str(x) for x in nkd) if len(nkd) else '_',
        hexs(g['error_model']), hexs(g['decoder']), rat(Fraction(g['error_probability'])), str(g['time_steps']),
        rat(Fraction(g['measurement_error_probability'])), str(g['n_run']), str(g['n_success']), str(g['n_fail']),
        str(g['error_weight_total']), rat(Fraction(g['wall_time'])), f(g['n_logical_commutations']),
        f(g['custom_totals']), fhex(g['logical_failure_rate']), fhex(g['physical_error_rate'])])


def post(reply):
    """model gives exact rational rates; the documented float expressions are evaluated on the model's sums"""
    if not reply.startswith('ok ') or reply == 'ok .':
        return reply
    out = []
    for g in reply[3:].split('|'):
        t = g.split(';')
        n = int(t[1].split(',')[0]); T = int(t[5]); nrun = int(t[7]); nfail = int(t[9]); ew = int(t[10])
        t[14] = fhex(nfail / nrun); t[15] = fhex(ew / n / T / nrun)
        out.append(';'.join(t))
    return 'ok ' + '|'.join(out)


def impl_merge(lists):
    from qecsim import app
    try:
        res = app.merge(*lists)
        return 'ok ' + ('|'.join(group_wire(g) for g in res) if res else '.'), res
    except ValueError:
        return 'ValueError', None
    except ZeroDivisionError:
        return 'ZeroDivisionError', None
    except Exception as ex:
        return type(ex).__name__, None


def base_record(rng):
    return {'code': 'Planar 3x3', 'n_k_d': (13, 1, 3), 'error_model': 'Depolarizing', 'decoder': 'Planar MWPM',
            'error_probability': 0.125, 'time_steps': 1, 'measurement_error_probability': 0.0}


def _near(x):
    return [x, math.nextafter(x, 0.0), math.nextafter(x, 2.0), math.nextafter(math.nextafter(x, 2.0), 2.0)]


# clusters of key values that are pairwise DIFFERENT doubles (different groups) although they look alike
CLUSTERS = [
    [0.3, 0.1 + 0.2] + _near(0.3)[1:3], [0.07, 0.1 * 0.7, 7 / 100, 0.7 / 10], [0.3, 3 * 0.1, 0.1 * 3, 1 - 0.7],
    [0.15, 0.1 + 0.05, 0.3 / 2, 0.45 / 3], _near(0.125), _near(0.5), _near(0.01), [1.0, 1 - 2.0 ** -53, 1 - 2.0 ** -52],
    [5e-324, 1e-323, 0.0], [1e-300, math.nextafter(1e-300, 1.0), 1e-300 * (1 + 2.0 ** -40)],
    [2.2250738585072014e-308, math.nextafter(2.2250738585072014e-308, 0.0)], [1 / 3, 0.1 / 0.3, 1 - 2 / 3],
    [0.6, 0.2 * 3, 0.2 + 0.4, 1.2 / 2], [1e-05, 0.1 ** 5, 1 / 100000, 10.0 ** -5],
]


VARIANTS = [
    ('code', 'Planar 3x5'), ('n_k_d', (13, 1, None)), ('n_k_d', (15, 1, 3)), ('error_model', 'Bit-flip'),
    ('decoder', 'Planar MPS (chi=6)'), ('error_probability', 0.25), ('error_probability', 0), ('time_steps', 3),
    ('measurement_error_probability', 0.125), ('measurement_error_probability', 1), ('code', ''),
]


def make_pool(rng):
    """group prototypes: base + single-field variants; each prototype fixes its array shape"""
    base = base_record(rng)
    protos = [base]
    for k, v in rng.sample(VARIANTS, rng.randint(1, 5)):
        p = dict(base); p[k] = v; protos.append(p)
    if rng.random() < 0.5:  # near-equal key values: every distinct double is its own group
        k = rng.choice(['error_probability', 'error_probability', 'measurement_error_probability'])
        vals = sorted(set(rng.choice(CLUSTERS)))
        for v in rng.sample(vals, rng.randint(2, len(vals))):
            p = dict(base); p[k] = v; protos.append(p)
    shaped = []
    for p in protos:
        shaped.append((p, rng.choice([None, 0, 2, 2, 4]), rng.choice([None, None, 0, 1, 3])))
    return shaped


def make_record(rng, proto, lcl, cvl, allow_legacy=True, zero=False):
    r = dict(proto)
    n_run = 0 if zero else rng.randint(1, 50)
    n_fail = rng.randint(0, n_run)
    r.update({'n_run': n_run, 'n_fail': n_fail, 'n_success': n_run - n_fail,
              'error_weight_total': rng.randint(0, 200), 'wall_time': rng.randint(0, 4096) / 1024.0,
              'n_logical_commutations': None if lcl is None else tuple(rng.randint(0, n_run) for _ in range(lcl)),
              'custom_totals': None if cvl is None else tuple(rng.randint(-9, 99) for _ in range(cvl)),
              'error_weight_pvar': 0.5, 'logical_failure_rate': 0.25, 'physical_error_rate': 0.125})
    for k in ('error_probability', 'measurement_error_probability'):  # ints vs equal floats: the same group
        if r[k] == int(r[k]) and rng.random() < 0.4:
            r[k] = rng.choice([int(r[k]), float(r[k])])
    enc = rng.random()
    if enc < 0.3:  # JSON form: lists for tuples
        r['n_k_d'] = list(r['n_k_d'])
        for k in ('n_logical_commutations', 'custom_totals'):
            if r[k] is not None: r[k] = list(r[k])
    if allow_legacy:
        if r['time_steps'] == 1 and r['measurement_error_probability'] == 0 and rng.random() < 0.3:
            del r['time_steps']; del r['measurement_error_probability']
        if r.get('n_logical_commutations') is None and r.get('custom_totals') is None and rng.random() < 0.3:
            del r['n_logical_commutations']; del r['custom_totals']
    return r


def partition(rng, recs):
    k = rng.randint(1, max(1, min(4, len(recs) + 1)))
    lists = [[] for _ in range(k)]
    for r in recs:
        lists[rng.randrange(k)].append(r)
    return lists


def canon(res):
    """canonical, order-free form of a merge result for metamorphic comparison on the real code"""
    if res is None:
        return None
    return sorted(group_wire(g) for g in res)


def run(ctx):
    rng = ctx.rng
    fed_back = []
    for it in range(ctx.scale(2500, 50000)):
        pool = make_pool(rng)
        recs = []
        kind = 'plain'
        for _ in range(rng.choice([0, 1, 2, 3, 5, 8, 12])):
            proto, lcl, cvl = rng.choice(pool)
            recs.append(make_record(rng, proto, lcl, cvl))
        r = rng.random()
        if r < 0.15 and recs:  # planted mismatch
            proto, lcl, cvl = rng.choice(pool)
            bad = make_record(rng, proto, rng.choice([None, 0, 1, 3]), rng.choice([None, 0, 2]))
            recs.insert(rng.randrange(len(recs) + 1), bad); kind = 'maybe-mismatch'
        elif r < 0.2 and recs:
            proto, lcl, cvl = rng.choice(pool)
            recs.append(make_record(rng, proto, lcl, cvl, zero=True)); kind = 'zero-run'
        elif r < 0.4 and fed_back:  # closure: feed earlier outputs back
            recs.extend(copy.deepcopy(rng.choice(fed_back))); kind = 'closure'
        rng.shuffle(recs)
        lists = partition(rng, recs)
        before = copy.deepcopy(lists)
        impl, res = impl_merge(lists)
        if lists != before:
            ctx.monitor_fail('merge mutated its inputs', {'lists': before})
        if res is not None:
            bad_key = key_value_check([x for l in before for x in l], res)
            if bad_key:
                ctx.monitor_fail(bad_key[0], dict(bad_key[1], lists=before))
        line = 'c05 merge ' + ' '.join('|'.join(rec_wire(x) for x in l) if l else '.' for l in lists)
        keys = [rec_wire(x).split(';')[:8] for x in recs]
        shared = len({tuple(k[:2] + k[3:]) for k in keys}) < len(keys)
        ctx.case(line, impl, nontrivial=shared, post=post, meta={'kind': kind})
        ctx.count('kind', kind); ctx.count('n_records', len(recs)); ctx.count('n_lists', len(lists))
        ctx.count('outcome', impl.split()[0])
        if res:
            ctx.count('n_groups', len(res))
            if len(fed_back) < 50 or rng.random() < 0.1:
                fed_back.append(res)
                if len(fed_back) > 60: fed_back.pop(0)
        # metamorphic checks on the real code (the property itself; these are the failing-input oracle)
        if it % 4 == 0:
            flat = [x for l in lists for x in l]
            c0 = canon(res)
            perm = flat[:]; rng.shuffle(perm)
            alt = [('perm', [perm]), ('partition', partition(rng, flat)), ('json', json.loads(json.dumps(lists)))]
            if res is not None and len(flat) >= 2:
                cut = rng.randrange(len(flat) + 1)
                a = impl_merge([flat[:cut]])[1]; b = impl_merge([flat[cut:]])[1]
                if a is not None and b is not None:
                    alt.append(('nested', [a, b]))
                alt.append(('idempotent', [res]))
            for name, ls in alt:
                i2, r2 = impl_merge(copy.deepcopy(ls))
                ctx.evaluations += 1
                if (r2 is None) != (res is None) or (res is None and i2 != impl) or canon(r2) != c0:
                    ctx.monitor_fail('merge result changes under ' + name,
                                     {'lists': before, 'variant': ls, 'base': impl[:300], 'variant_result': i2[:300]})
    return ctx.finish(RULE, search=search)


KEYF = lambda r: (r['code'], tuple(r['n_k_d']), r['error_model'], r['decoder'], r['error_probability'],  # noqa: E731
                  r.get('time_steps', 1), r.get('measurement_error_probability', 0.0))


def key_value_check(flat, res):
    """losslessness of the key itself: every output group's numeric key values are, bit for bit (repr), values that
    occur in the input records of that group (grouping by Python equality of the seven key fields)"""
    groups = {}
    for r in flat:
        groups.setdefault(KEYF(r), []).append(r)
    for g in res:
        rs = groups.get(KEYF(g))
        if rs is None:
            return ('output group key is not the key of any input record', {'output_key': repr(KEYF(g))})
        for f, dflt in (('error_probability', None), ('time_steps', 1), ('measurement_error_probability', 0.0)):
            have = {repr(r.get(f, dflt)) for r in rs}
            if repr(g[f]) not in have:
                return ('output key value of {} is not bit-for-bit an input value of its group'.format(f),
                        {'got': repr(g[f]), 'input_values': sorted(have)})
    return None


def parse_rec(w):
    t = w.split(';')
    U = lambda h: bytes.fromhex(h).decode() if h != '00' else ''  # noqa: E731
    F = lambda s: float(Fraction(s))  # noqa: E731
    nkd = [None if x == 'N' else int(x) for x in t[1].split(',')] if t[1] != '_' else []
    r = {'code': U(t[0]), 'n_k_d': nkd if t[2] == '1' else tuple(nkd), 'error_model': U(t[3]), 'decoder': U(t[4]),
         'error_probability': F(t[5]), 'n_run': int(t[8]), 'n_success': int(t[9]), 'n_fail': int(t[10]),
         'error_weight_total': int(t[11]), 'wall_time': F(t[12])}
    if t[6] != 'N': r['time_steps'] = int(t[6])
    if t[7] != 'N': r['measurement_error_probability'] = F(t[7])
    for k, w_ in (('n_logical_commutations', t[13]), ('custom_totals', t[14])):
        if w_ == 'A':
            continue
        if w_ == 'N':
            r[k] = None
        else:
            v = [] if w_[1:] == '_' else [int(x) for x in w_[1:].split(',')]
            r[k] = v if w_[0] == 'l' else tuple(v)
    return r


def search(m):
    """direct evaluation of the property on the real merge for the disagreeing input: conservation, grouping,
    order/partition/nesting invariance"""
    toks = m['op'].split()[2:]
    lists = [[parse_rec(w) for w in l.split('|')] if l != '.' else [] for l in toks]
    flat = [x for l in lists for x in l]
    impl, res = impl_merge(copy.deepcopy(lists))
    keyf = lambda r: (r['code'], tuple(r['n_k_d']), r['error_model'], r['decoder'], r['error_probability'],  # noqa
                      r.get('time_steps', 1), r.get('measurement_error_probability', 0.0))
    groups = {}
    for r in flat:
        groups.setdefault(keyf(r), []).append(r)
    shape = lambda v: None if v is None else len(v)  # noqa: E731
    inconsistent = any(len({(shape(r.get('n_logical_commutations')), shape(r.get('custom_totals'))) for r in g}) > 1
                       for g in groups.values())
    if inconsistent:
        if res is not None:
            return {'what': 'records with inconsistent arrays were merged instead of rejected', 'lists': lists}
        return None
    if any(sum(r['n_run'] for r in g) == 0 for g in groups.values()):
        return None
    if res is None:
        return {'what': 'merge raised on consistent records', 'lists': lists, 'impl': impl}
    if len(res) != len(groups):
        return {'what': 'records are not grouped by exactly the seven key fields', 'lists': lists,
                'n_groups': len(res), 'expected': len(groups),
                'input_keys': sorted(repr(k[4:]) for k in groups), 'output_keys': sorted(repr(keyf(g)[4:]) for g in res)}
    for g in res:
        k = keyf(g)
        if k not in groups:
            return {'what': 'output group key not among input keys', 'lists': lists, 'key': repr(k)}
        rs = groups[k]
        for f in ('n_run', 'n_success', 'n_fail', 'error_weight_total', 'wall_time'):
            if g[f] != sum(r[f] for r in rs):
                return {'what': 'totals not conserved: ' + f, 'lists': lists, 'got': g[f],
                        'expected': sum(r[f] for r in rs)}
        for f in ('n_logical_commutations', 'custom_totals'):
            vs = [r.get(f) for r in rs]
            e = None if vs[0] is None else tuple(sum(c) for c in zip(*vs))
            if g[f] != e:
                return {'what': 'array totals not conserved: ' + f, 'lists': lists, 'got': g[f], 'expected': e}
        if g['logical_failure_rate'] != g['n_fail'] / g['n_run'] or \
                g['physical_error_rate'] != g['error_weight_total'] / g['n_k_d'][0] / g['time_steps'] / g['n_run']:
            return {'what': 'rates not recomputed from the sums', 'lists': lists}
    return None


def replay(ctx, path):
    body = json.load(open(path)); bad = 0
    for v in body.get('violations', []):
        mm = v.get('first_mismatch')
        if mm:
            r = search(mm); print('replay', mm['op'][:160], '->', r); bad += bool(r)
    return 1 if bad else 0
