"""C18 — the file error model replays the recorded errors faithfully
   (qecsim.models.generic.FileErrorModel against Model/FileEM.lean)"""
import json
import os
import shutil
import tempfile
from fractions import Fraction

import numpy as np

from qv.core import bits, rat

RULE = ('generated error files: random bodies (n in 1..40, 0..30 errors), header keys split over 1..4 objects in '
        'random order, extra attributes (valid / invalid names / shadowing names), comment and blank lines anywhere '
        '(ASCII whitespace variants), plus a malformed stream (missing/repeated required keys, header after body, bad '
        'JSON, non-list body values, non-numeric probability, bad start); the real FileErrorModel is driven through a '
        'random call sequence (generate with right/wrong probability and qubit count, probability_distribution, label '
        'and extra attributes) up to and past EOF; outcome sequence compared exactly. The repo fixture files are '
        'replayed too. Record LENGTHS as a class relative to the asked code: files holding one record of every length '
        '0..4n+2 bits (n in 1..13; 2n-1, 2n+1 and the odd lengths included) asked with the fixed qubit count n, or '
        'with the qubit counts around len/2 - served iff the length is exactly 2n. DECLARED length against RECORDED data '
        'as a class (truncated / hand-edited records): the declared bit count L (mostly 2n of the asked code, also '
        '2n-2..2n+9, 8b, 0) and the number b of hex bytes (0..ceil(L/8)+2; random / all-ones / zero / sparse contents, '
        'non-zero padding bits, upper-case hex) vary independently; such a record records min(L, 8b) bits and is served '
        'iff that is exactly 2n - never padded up to the declared length. HISTORIES over files with REPEATED '
        'identical records (pool of 1..3 errors, identity included), the same file (or a byte-identical second file) '
        'open in 1..3 models with their own start offsets, calls interleaved; between the calls the caller modifies '
        'served errors in place (zero / flip / xor with an earlier one / fill), calls paulitools.unpack itself on a '
        'recorded value and modifies that: every model\'s outcome sequence must still be the one its file dictates '
        '(model asked per FileErrorModel), served arrays must not share memory with anything the caller holds, held '
        'arrays must not change. Recorded values are decoded by the harness from the file text (not by paulitools). '
        'Header STRING contents as a class: labels and extra attributes (plain, nested in lists / objects, as inner '
        'keys; json.dumps and hand-written escape spellings) holding //, #, /* */, quotes, backslashes, braces, brackets, '
        'commas, colons, leading / trailing blanks, \\u escapes, next to comment lines with the same contents - such '
        'files are well-formed and must open, expose label / extras unchanged and replay the body; JSON followed by // '
        'on the same line and #, /* */, -- comments are malformed. Requested PROBABILITY values as a class: the header '
        'value, ints / bools / numpy.float64 equal to it, the adjacent doubles, relative and absolute offsets 1e-16..1e-6, '
        '2**-50..2**-40, the same decimal number computed differently (0.1+0.2 against 0.3, x*3/3, 1-(1-x), 15/12/9 '
        'digit prints, float32 rounding) for generate and probability_distribution: served iff equal as numbers. '
        'The file TEXT as a class (the model receives the text as code points and splits it into lines itself: \\n, \\r\\n, '
        'lone \\r and nothing else): well-formed files whose comments (after //), blank lines, whitespace before //, label '
        'and extra header strings (raw where JSON allows, escaped otherwise; nested) hold characters that are legal where '
        'they stand - VT, FF, FS/GS/RS/US, NUL, ESC, DEL, C1 controls, NEL, NBSP, Unicode spaces, U+2028/U+2029, zero-width '
        'and bidi controls, inner BOM, noncharacters, non-BMP - with terminators \\n / \\r\\n / \\r / mixed and a last line '
        'with or without one, written in the reader\'s encoding: they must open, expose label / extras unchanged and replay '
        'the body; BOM at the start, \\r inside a comment, non-JSON whitespace next to JSON, raw controls in a JSON string are '
        'compared with the model only. Comment rule whitespace swept code point by code point; line splitting of the io '
        'layer compared with the model on random texts. '
        'non-trivial = file with a body or a malformed construct')

WS = [' ', '\t', '  ', ' \t ']   # JSON whitespace only before JSON values; no \r (newline translation is the OS layer)


def hexs(s):
    """opaque injective rendering of a string: latin-1 hex; strings with code points above U+00FF: 'U' + utf-8 hex"""
    try:
        return s.encode('latin-1').hex() or '-'
    except UnicodeEncodeError:
        return 'U' + s.encode('utf-8', 'surrogatepass').hex()


def text3(s):
    """a text as code points for the model: six hex digits per character"""
    return ''.join('%06x' % ord(c) for c in s) or '-'


def usplit(text):
    """the lines of a text file (the format is newline-delimited; files are opened in text mode with universal
    newlines): a line ends at \\n, \\r\\n or a lone \\r and at NOTHING else; written by the harness itself (neither
    str.splitlines nor the io layer)"""
    out, cur, i = [], [], 0
    while i < len(text):
        c = text[i]
        if c == '\n' or c == '\r':
            out.append(''.join(cur)); cur = []
            if c == '\r' and i + 1 < len(text) and text[i + 1] == '\n':
                i += 1
        else:
            cur.append(c)
        i += 1
    if cur:
        out.append(''.join(cur))
    return out


def pack_bits(v):
    """the documented record format [hex of the bits packed big-endian and zero-padded to whole bytes, bit count],
    written by the harness itself (independent of paulitools)"""
    v = [int(x) for x in v]
    by = bytearray()
    for i in range(0, len(v), 8):
        chunk = v[i:i + 8]
        chunk = chunk + [0] * (8 - len(chunk))
        by.append(int(''.join(map(str, chunk)), 2))
    return [by.hex(), len(v)]


def unpack_bits(rec):
    """what a record [hex, length] of the file text records, decoded by the harness itself"""
    h, length = rec
    out = []
    for b in bytes.fromhex(h):
        out += [(b >> (7 - k)) & 1 for k in range(8)]
    return out[:length]


def hval(v):
    if v is None:
        return 'n'
    if isinstance(v, bool):
        return 'r' + rat(Fraction(int(v)))
    if isinstance(v, (int, float)):
        return 'r' + rat(Fraction(v))
    if isinstance(v, str):
        return 's' + hexs(v)
    return 'o' + hexs(json.dumps(v, sort_keys=True, separators=(',', ':')))


def prob_hval(v):
    """probability goes through float(): numeric strings and bools are numbers"""
    if isinstance(v, str):
        try:
            return 'r' + rat(Fraction(float(v)))
        except ValueError:
            return 's' + hexs(v)
    return hval(v)


def tok_of(line_text):
    """classify a non-comment line the way the model expects, using json.loads (external to the model)"""
    try:
        o = json.loads(line_text)
    except ValueError:
        return 'I'
    if isinstance(o, dict):
        return 'O' + ';'.join('{}={}'.format(hexs(k), prob_hval(v) if k == 'probability' else hval(v))
                              for k, v in o.items())
    if isinstance(o, list) and len(o) == 2 and isinstance(o[0], str) and isinstance(o[1], int) \
            and not isinstance(o[1], bool) and o[1] >= 0:
        try:
            bytes.fromhex(o[0])
        except ValueError:
            return 'B'
        h = o[0].replace(' ', '').lower()
        return 'E{},{}'.format(h or '-', o[1])
    return 'B'


def canon_val(kind_src, v):
    return hval(v)


# extra header keys as a class: ordinary names, Python keywords / soft keywords / constants / builtins (legal attribute
# names for setattr / getattr: `^[a-zA-Z]\w*$` and not already an attribute), near misses of those, long names
EXTRA_POOL = ['bias', 'decoder', 'seed', 'a1', 'X_y', 'code', 'n_run',
              'lambda', 'in', 'is', 'as', 'from', 'class', 'def', 'del', 'None', 'True', 'import', 'match', 'type', 'self',
              'print', 'len', 'Lambda', 'lambda_', 'a__b', 'Z9', 'x' * 40, 'filename', 'start']


def gen_file(rng, malformed):
    """returns (lines (text without newline), info)"""
    n = rng.choice([1, 2, 3, 5, 8, 13, 25, 40])
    m = rng.choice([0, 1, 2, 3, 5, 8, 13, 30])
    p = rng.choice([0.1, 0.25, 0.0, 1, 0.5, '0.125'])
    body = []
    for _ in range(m):
        body.append(pack_bits([1 if rng.random() < 0.3 else 0 for _ in range(2 * n)]))
    header = {'probability': p, 'label': rng.choice(['Biased', 'x y', '', 'lbl-1'])}
    if rng.random() < 0.6:
        header['probability_distribution'] = rng.choice([[0.9, 0.05, 0.03, 0.02], [1, 0, 0, 0], [], None])
    for _ in range(rng.choice([0, 0, 1, 2, 3])):
        header[rng.choice(EXTRA_POOL)] = rng.choice(
            [1, 2.5, 'txt', [1, 2], {'a': 1}, None, True])
    kind = 'wellformed'
    items = list(header.items())
    rng.shuffle(items)
    objs = []
    while items:
        k = rng.randint(1, len(items))
        objs.append(dict(items[:k])); items = items[k:]
    if rng.random() < 0.1:
        objs.insert(rng.randrange(len(objs) + 1), {})
    body_lines = [json.dumps(b) for b in body]
    if malformed:
        kind = rng.choice(['missing-key', 'repeated-key', 'header-after-body', 'bad-json', 'bad-body', 'bad-attr',
                           'shadow-attr', 'bad-probability', 'short-entry', 'leading-digit-attr',
                           'trailing-comment', 'foreign-comment'])
        if kind == 'missing-key':
            k = rng.choice(['probability', 'label'])
            for o in objs:
                o.pop(k, None)
        elif kind == 'repeated-key':
            k = rng.choice(list(header.keys()))
            objs.insert(rng.randrange(len(objs) + 1), {k: header[k]})
        elif kind == 'header-after-body' and body_lines:
            body_lines.insert(rng.randrange(1, len(body_lines) + 1), json.dumps({'late': 1}))
        elif kind == 'bad-json':
            where = rng.choice(['header', 'body'])
            junk = rng.choice(['{"a": ', '[1, 2', 'nope', '{"a": 1}}', "['00', 2]"])
            if where == 'header' or not body_lines:
                objs.insert(rng.randrange(len(objs) + 1), junk)
            else:
                body_lines.insert(rng.randrange(len(body_lines) + 1), junk)
        elif kind == 'bad-body':
            body_lines.insert(rng.randrange(len(body_lines) + 1),
                              rng.choice(['17', '"abc"', '[1, 2, 3]', '["zz", 4]', '[4, "00"]', 'null', 'true',
                                          '["00"]', '["00", -1]', '["00", 2.0]']))
        elif kind == 'bad-attr':
            objs[-1][rng.choice(['_private', '1abc', 'a-b', 'a b', '', 'é'])] = 1
        elif kind == 'shadow-attr':
            objs[-1][rng.choice(['generate'])] = 1
        elif kind == 'bad-probability':
            for o in objs:
                if 'probability' in o:
                    o['probability'] = rng.choice([None, 'abc', [0.1], {'p': 1}])
        elif kind == 'short-entry' and body_lines:
            i = rng.randrange(len(body_lines))
            b = json.loads(body_lines[i])
            if isinstance(b, list):
                b[1] = rng.choice([0, 1, 2 * n - 1, 2 * n + 8, 10 ** 6]); body_lines[i] = json.dumps(b)
        elif kind == 'leading-digit-attr':
            objs[-1]['9lives'] = 1
        elif kind == 'trailing-comment':
            # the comment rule is "whitespace then // at the START of a line": JSON followed by // on the same line is bad JSON
            i = rng.randrange(len(objs))
            objs[i] = json.dumps(objs[i]) + rng.choice([' // note', '// note', ' //', '\t// {"a": 1}', ' // ["00", 2]'])
        elif kind == 'foreign-comment':
            # only // starts a comment: other comment syntaxes are bad JSON
            objs.insert(rng.randrange(len(objs) + 1), rng.choice(['# comment', ' # {"a": 1}', '/* comment */', '/ / comment',
                                                                  '-- comment', '; comment', '<!-- c -->', '\\\\ comment']))
    lines = [o if isinstance(o, str) else json.dumps(o) for o in objs] + body_lines
    # decorate with comments / blank lines / leading whitespace
    out = []
    for l in lines:
        while rng.random() < 0.25:
            out.append(rng.choice(['', ' ', '\t', '// comment', '  // {"probability": 0.5}', '//', ' \t//x',
                                   '\x0b', '\x0c// form feed']))
        if rng.random() < 0.15 and not l.startswith("['"):
            l = rng.choice(WS) + l
        out.append(l)
    while rng.random() < 0.3:
        out.append(rng.choice(['', '// trailing', ' ']))
    if rng.random() < 0.05:
        out.insert(0, '/ not a comment')  # single slash: not a comment → invalid JSON
        kind += '+single-slash'
    return out, {'n': n, 'm': m, 'p': p, 'kind': kind, 'header': header}


def decorate(rng, lines):
    out = []
    for l in lines:
        while rng.random() < 0.15:
            out.append(rng.choice(['', ' ', '// comment', '  // ["00", 2]', '//', '\t']))
        out.append(l)
    return out


def gen_length_file(rng, n):
    """record LENGTHS as a class relative to the asked code: one record of every length 0..4n+2 bits (random
    contents), in ascending or random order, optionally with matching (2n-bit) records in between.  The qubit count
    asked per call is n (fixed code) or, per record, one of the counts around len/2 (so that for every length both
    the matching count - if there is one - and the nearest non-matching counts are asked)."""
    lengths = list(range(0, 4 * n + 3))
    if rng.random() < 0.5:
        rng.shuffle(lengths)
    if rng.random() < 0.5:
        k = rng.randint(1, 4)
        for _ in range(k):
            lengths.insert(rng.randrange(len(lengths) + 1), 2 * n)
    p = rng.choice([0.1, 0.25, 0.5])
    header = {'probability': p, 'label': 'lengths'}
    body = [pack_bits([rng.randint(0, 1) for _ in range(L)]) for L in lengths]
    mode = rng.choice(['fixed-n', 'fixed-n', 'around-half'])
    calls = []
    for L in lengths:
        if mode == 'fixed-n':
            calls.append(('g', n, p))
        else:
            calls.append(('g', rng.choice([L // 2, L // 2, (L + 1) // 2, L // 2 + 1, max(L // 2 - 1, 0), L, n]), p))
    calls.append(('g', n, p))      # past the end
    lines = decorate(rng, [json.dumps(header)] + [json.dumps(b) for b in body])
    return lines, {'n': n, 'm': len(body), 'p': p, 'kind': 'wellformed', 'cls': 'lengths:' + mode, 'header': header,
                   'calls': calls, 'start': 0}


def gen_declared_file(rng, n):
    """DECLARED length against RECORDED data as a class (truncated / hand-edited / foreign-writer records): the bit
    count L a record declares and the number of bytes b its hex holds vary independently - b in 0..ceil(L/8)+2, so the
    data holds fewer bits than declared (8b < L: whole bytes missing, down to no data at all), exactly the bytes needed
    (with zero or NON-zero padding bits after bit L) or more bytes than needed; L is 2n for most records (so that the
    declared length agrees with the asked code and only the recorded data decides) and 2n-2..2n+9 / 8b / 0 for the
    others.  What such a record records is the first L of its 8b bits - min(L, 8b) bits: served iff that is exactly 2n
    bits, never padded up to the declared length."""
    p = rng.choice([0.1, 0.25, 0.5])
    header = {'probability': p, 'label': 'declared'}
    need = (2 * n + 7) // 8
    recs, calls = [], []
    combos = [(2 * n, b) for b in range(0, need + 3)] * 2
    for _ in range(rng.randint(2, 6)):
        b = rng.randint(0, need + 2)
        combos.append((rng.choice([2 * n - 2, 2 * n - 1, 2 * n + 1, 2 * n + 2, 2 * n + 8, 2 * n + 9, 8 * b, 8 * b + 1,
                                   0, 16 * n]), b))
    combos = [(max(L, 0), b) for L, b in combos]
    rng.shuffle(combos)
    fill = rng.choice(['random', 'random', 'ones', 'zeros', 'sparse'])
    for L, b in combos:
        if fill == 'random':
            by = bytes(rng.randrange(256) for _ in range(b))
        elif fill == 'ones':
            by = b'\xff' * b
        elif fill == 'zeros':
            by = bytes(b)
        else:
            by = bytes(rng.choice([0, 0, 1, 0x80, 0x10, 0x41]) for _ in range(b))
        h = by.hex()
        if rng.random() < 0.15:
            h = h.upper()
        recs.append([h, L])
        have = min(L, 8 * b)        # bits the record really records
        calls.append(('g', rng.choice([n, n, n, have // 2, (L + 1) // 2]), p))
    calls.append(('g', n, p))      # past the end
    lines = decorate(rng, [json.dumps(header)] + [json.dumps(r) for r in recs])
    return lines, {'n': n, 'm': len(recs), 'p': p, 'kind': 'wellformed', 'cls': 'declared:' + fill, 'header': header,
                   'calls': calls, 'start': 0}


# ---- header STRING contents as a class ---------------------------------------------------------------------------------
# The comment rule is "optional whitespace, then // at the START of the line".  Inside a JSON string anything may occur:
# //, #, /* */, quotes, backslashes, braces, brackets, commas, colons, leading / trailing blanks, escapes.  Such files are
# well-formed: they must open, expose label and extras unchanged and replay the body.
TRICKY = ['batch 3//7', 'https://example.org/a//b?x=1', '// not a comment', ' // lead', '//', 'a // b // c', '#hash',
          '# x // y', '/* block */', '/', '///', 'say "hi"', '"', 'back\\slash', 'c:\\dir\\//x', '\\', '\\//', '{"a": 1}',
          '{', '}', '[1, 2]', ']', ',', 'a,b', 'k: v', ' lead', 'trail ', '  ', '\ttab', 'new\nline // x', "it's",
          '{"probability": 0.5} // c', '["00", 2]', 'caf\xe9 // bar', '\x7f', 'null', 'true', '0.1']
# (raw JSON text as it stands in the file, decoded value): spellings json.dumps does not produce
RAW_STRINGS = [('"a\\u002f\\u002fb"', 'a//b'), ('"\\/\\/ c"', '// c'), ('"\\u0023 x // y"', '# x // y'),
               ('"x\\u0020//\\u0020y"', 'x // y'), ('"q\\"//\\"q"', 'q"//"q'), ('"b\\\\//"', 'b\\//'),
               ('"\\u00e9//\\u00E9"', '\xe9//\xe9'), ('"\\t// tab"', '\t// tab'), ('"//\\n//"', '//\n//')]
EXTRA_NAMES = ['url', 'note', 'src', 'a1', 'X_y', 'batch', 'path', 'bias', 'decoder']
TRICKY_COMMENTS = ['// see https://example.org//x', '  // "quoted" # { [', '//{"label": "x"}', '\t//["00", 2]', '// // //',
                   '//"', '// \\', ' //#']


def gen_string_file(rng):
    """well-formed file whose label / extra attributes hold strings with comment-like and JSON-structural contents
    (directly, or nested in lists / objects, as values and as inner keys), in json.dumps and in hand-written spellings"""
    n = rng.choice([1, 2, 3, 5])
    m = rng.choice([0, 1, 1, 2, 3, 5])
    p = rng.choice([0.1, 0.25, 0.5])

    def string():
        if rng.random() < 0.25:
            return rng.choice(RAW_STRINGS)
        v = rng.choice(TRICKY)
        return json.dumps(v), v

    def value():
        raw, v = string()
        shape = rng.choice(['s', 's', 's', 'list', 'obj', 'key', 'deep'])
        if shape == 's':
            return raw, v
        raw2, v2 = string()
        if shape == 'list':
            return '[{}, 1, {}]'.format(raw, raw2), [v, 1, v2]
        if shape == 'obj':
            return '{{"k": {}}}'.format(raw), {'k': v}
        if shape == 'key':
            return '{{{}: 1}}'.format(raw), {v: 1}
        return '[{{"u": [{}]}}, {}]'.format(raw, raw2), [{'u': [v]}, v2]
    items = [('probability', json.dumps(p), p)]
    raw, v = string()
    items.append(('label', raw, v))
    if rng.random() < 0.4:
        items.append(('probability_distribution', '[0.9, 0.05, 0.03, 0.02]', [0.9, 0.05, 0.03, 0.02]))
    for k in rng.sample(EXTRA_NAMES, rng.choice([1, 1, 2, 3])):
        raw, v = value()
        items.append((k, raw, v))
    header = {k: v for k, _, v in items}
    rng.shuffle(items)
    lines = []
    while items:
        k = rng.randint(1, len(items))
        sep = rng.choice([', ', ',', ' , '])
        lines.append('{' + sep.join('{}:{}{}'.format(json.dumps(key), rng.choice(['', ' ']), raw)
                                    for key, raw, _ in items[:k]) + '}')
        items = items[k:]
    body = [pack_bits([1 if rng.random() < 0.3 else 0 for _ in range(2 * n)]) for _ in range(m)]
    lines += [json.dumps(b) for b in body]
    out = []
    for l in lines:
        while rng.random() < 0.2:
            out.append(rng.choice(TRICKY_COMMENTS + ['', ' ']))
        out.append((rng.choice(WS) if rng.random() < 0.15 else '') + l)
    start = rng.choice([0, 0, 0, 1, m]) if m else 0
    start = min(start, m)
    calls = [('l',)] + [('x', k) for k in header if k not in ('probability', 'label', 'probability_distribution')]
    calls += [('x', 'nope'), ('d', p)]
    calls += [('g', n, p)] * (m - start + 1)
    rng.shuffle(calls)
    return out, {'n': n, 'm': m, 'p': p, 'kind': 'wellformed', 'cls': 'header-strings', 'header': header,
                 'calls': calls, 'start': start}


# ---- file TEXT as a class: characters that are legal where they stand, line terminators -------------------------------
# The format is newline-delimited JSON + // comments, opened in text mode (locale encoding, universal newlines): a line ends
# at \n, \r\n or a lone \r and nowhere else.  Inside a comment ANY other character is legal; inside a JSON string any
# character >= U+0020 except " and \ may stand raw (controls as \uXXXX / \f / \b escapes).  So form feed, vertical tab,
# FS/GS/RS/US, NUL, ESC, DEL, C1 controls, NEL (U+0085), NBSP, the Unicode spaces, LINE / PARAGRAPH SEPARATOR (U+2028/9),
# zero-width characters, a BOM that is not at the start of the file, bidi controls, non-BMP characters are ordinary contents
# of comments and strings, and whitespace in the sense of the comment rule (\s of a str pattern) may precede //.
def _enc():
    import locale
    return locale.getpreferredencoding(False)      # what open(filename) of the reader uses


def _encodable(ch):
    try:
        ch.encode(_enc())
        return True
    except (UnicodeEncodeError, LookupError):
        return False


LINE_BOUNDARY_ONLY_FOR_SPLITLINES = ['\x0b', '\x0c', '\x1c', '\x1d', '\x1e', '\x85', '\u2028', '\u2029']
PY_SPACES = ['\t', '\x0b', '\x0c', '\x1c', '\x1d', '\x1e', '\x1f', ' ', '\x85', '\xa0', '\u1680', '\u2000', '\u2003',
             '\u2009', '\u200a', '\u2028', '\u2029', '\u202f', '\u205f', '\u3000']
OTHER_CONTROLS = ['\x00', '\x01', '\x07', '\x08', '\x0e', '\x1a', '\x1b', '\x7f', '\x80', '\x8d', '\x9f', '\xad', '\u200b',
                  '\u200d', '\u200e', '\u202e', '\u2060', '\ufeff', '\ufffe', '\uffff', '\u180e', '\ue000']
PLAIN_NON_ASCII = ['\xe9', '\xdf', '\u03c0', '\u4e2d', '\u0301', '\U0001f600', '\U0010ffff', '\xb5', '\u2264']
TEXT_PIECES = ['page 1', 'page 2', 'x', '', 'Biased (bias=10)', '{"a": 1}', '// c', '["00", 2]', 'col', ' ', 'a b', '{',
               '"', '\\', 'n', '//', '{"label": "x"}', '0.25', 'null']


def _exotic(rng, in_json_string):
    """a text with 1..3 exotic-but-legal characters between ordinary pieces; (text, classes used)"""
    out, used = [rng.choice(TEXT_PIECES)], []
    for _ in range(rng.choice([1, 1, 1, 2, 3])):
        grp = rng.choice(['boundary', 'boundary', 'boundary', 'space', 'control', 'plain'])
        ch = rng.choice({'boundary': LINE_BOUNDARY_ONLY_FOR_SPLITLINES, 'space': PY_SPACES, 'control': OTHER_CONTROLS,
                         'plain': PLAIN_NON_ASCII}[grp])
        if not _encodable(ch):
            ch = rng.choice(['\x0b', '\x0c', '\x1c', '\x1d', '\x1e', '\x1f', '\x7f', '\x00'])
        used.append(grp)
        out += [ch * rng.choice([1, 1, 2]), rng.choice(TEXT_PIECES)]
    return ''.join(out), used


def gen_text_file(rng):
    """the file TEXT as a class: exotic-but-legal characters in comments (after // and, as far as they are whitespace of
    the comment rule, before it), in blank lines, in the label and in extra header strings (raw where JSON allows it,
    escaped otherwise; directly or nested); line terminators \n / \r\n / \r / mixed, last line with or without one.
    Variants that are NOT well-formed (model agreement only, no claim): BOM at the start of the file, a \r in the middle
    of a comment (it ends the line), non-JSON whitespace next to a JSON value, raw control characters in a JSON string."""
    n = rng.choice([1, 2, 3, 5])
    m = rng.choice([0, 1, 2, 3, 5, 8])
    p = rng.choice([0.1, 0.25, 0.5])
    variant = rng.choice(['wellformed'] * 7 + ['bom', 'cr-inside', 'non-json-space', 'raw-control-in-string'])

    def string():
        v, used = _exotic(rng, True)
        raw = json.dumps(v, ensure_ascii=rng.random() < 0.35)      # raw where JSON allows it / all escaped
        return raw, v

    def value():
        raw, v = string()
        shape = rng.choice(['s', 's', 's', 's', 'list', 'obj', 'key'])
        if shape == 's':
            return raw, v
        if shape == 'list':
            raw2, v2 = string()
            return '[{}, 1, {}]'.format(raw, raw2), [v, 1, v2]
        if shape == 'obj':
            return '{{"k": {}}}'.format(raw), {'k': v}
        return '{{{}: 1}}'.format(raw), {v: 1}
    items = [('probability', json.dumps(p), p)]
    raw, v = string()
    items.append(('label', raw, v))
    if rng.random() < 0.4:
        items.append(('probability_distribution', '[0.9, 0.05, 0.03, 0.02]', [0.9, 0.05, 0.03, 0.02]))
    for k in rng.sample(EXTRA_NAMES, rng.choice([0, 1, 1, 2, 3])):
        raw, v = value()
        items.append((k, raw, v))
    header = {k: v for k, _, v in items}
    rng.shuffle(items)
    lines = []
    while items:
        k = rng.randint(1, len(items))
        lines.append('{' + ', '.join('{}: {}'.format(json.dumps(key), raw) for key, raw, _ in items[:k]) + '}')
        items = items[k:]
    body = [pack_bits([1 if rng.random() < 0.3 else 0 for _ in range(2 * n)]) for _ in range(m)]
    lines += [json.dumps(b) for b in body]

    def space():
        return ''.join(c for c in (rng.choice(PY_SPACES) for _ in range(rng.choice([0, 0, 1, 1, 2, 3]))) if _encodable(c))

    def filler():
        r = rng.random()
        if r < 0.2:
            return space()                                           # blank line (whitespace of the comment rule)
        return space() + '//' + _exotic(rng, False)[0]               # comment line
    out = []
    for l in lines:
        while rng.random() < 0.4:
            out.append(filler())
        out.append((rng.choice(WS) if rng.random() < 0.15 else '') + l + (rng.choice(WS) if rng.random() < 0.15 else ''))
    while rng.random() < 0.4:
        out.append(filler())
    if not any('//' in l and not l.lstrip(' \t').startswith(('{', '[')) for l in out):
        out.insert(rng.randrange(len(out) + 1), filler())
    kind = 'wellformed'
    if variant == 'cr-inside':
        i = rng.randrange(len(out)); j = rng.randrange(len(out[i]) + 1)
        out[i] = out[i][:j] + '\r' + out[i][j:]; kind = 'exotic:cr-inside'
    elif variant == 'non-json-space':
        i = rng.choice([k for k, l in enumerate(out) if l in lines or l.strip(' \t') in lines])
        sp = rng.choice([c for c in PY_SPACES if c not in ' \t' and _encodable(c)])
        out[i] = (sp + out[i]) if rng.random() < 0.5 else (out[i] + sp); kind = 'exotic:non-json-space'
    elif variant == 'raw-control-in-string':
        i = rng.choice([k for k, l in enumerate(out) if '"label"' in l and l.lstrip(' \t').startswith('{')])
        out[i] = out[i].replace('"label": "', '"label": "' + rng.choice(['\x0c', '\x0b', '\t', '\x1c', '\x00', '\x1f']), 1)
        kind = 'exotic:raw-control-in-string'
    term = rng.choice(['\n', '\n', '\r\n', '\r', 'mixed'])
    text = ''.join(l + (rng.choice(['\n', '\r\n', '\r']) if term == 'mixed' else term) for l in out)
    if rng.random() < 0.2:                                           # last line without a terminator
        text = text[:-2] if text.endswith('\r\n') else text[:-1]
    if variant == 'bom' and _encodable('\ufeff'):
        text = '\ufeff' + text; kind = 'exotic:bom'
    start = min(rng.choice([0, 0, 0, 1, m]) if m else 0, m)
    calls = [('l',)] + [('x', k) for k in header if k not in ('probability', 'label', 'probability_distribution')]
    calls += [('x', 'nope'), ('d', p)]
    calls += [('g', n, p)] * (m - start + 1)
    rng.shuffle(calls)
    return usplit(text), {'n': n, 'm': m, 'p': p, 'kind': kind, 'cls': 'file-text', 'header': header, 'calls': calls,
                          'start': start, 'text': text, 'terminator': repr(term)}


# ---- requested PROBABILITY values as a class ---------------------------------------------------------------------------
# "refuses a probability … that disagrees with the file": only a requested value EQUAL (==, as numbers) to the header value
# may be served; a value one ulp away, a differently rounded decimal computation, a tiny relative offset all disagree.
def near_values(rng, f):
    """requested values around the header probability f (a float): (value, how it was obtained)"""
    import math
    out = [(f, 'the header value'), (f, 'the header value')]
    if f == int(f):
        out += [(int(f), 'int equal to the header value'), (bool(f), 'bool equal to the header value')] if f in (0.0, 1.0) \
            else [(int(f), 'int equal to the header value')]
    up = math.nextafter(f, math.inf); dn = math.nextafter(f, -math.inf)
    out += [(up, 'next double above'), (dn, 'next double below'),
            (math.nextafter(up, math.inf), 'two doubles above'), (math.nextafter(dn, -math.inf), 'two doubles below')]
    for e in (16, 15, 14, 13, 12, 11, 10, 9, 8, 7, 6):
        k = 10.0 ** -e
        out += [(f * (1 + k), 'header * (1 + 1e-{})'.format(e)), (f * (1 - k), 'header * (1 - 1e-{})'.format(e)),
                (f + k, 'header + 1e-{}'.format(e)), (f - k, 'header - 1e-{}'.format(e))]
    for i in (40, 45, 50):
        out.append((f * (1 + 2.0 ** -i), 'header * (1 + 2**-{})'.format(i)))
    # the same decimal number computed differently
    out += [(f * 3 / 3, 'header * 3 / 3'), ((f + 1) - 1, '(header + 1) - 1'), (f / 7 * 7, 'header / 7 * 7'),
            (1 - (1 - f), '1 - (1 - header)'), (f / 10 * 10, 'header / 10 * 10'), (f * 0.1 / 0.1, 'header * 0.1 / 0.1'),
            (f / 3 + f / 3 + f / 3, 'header/3 summed three times'), (sum([f / 10] * 10), 'header/10 summed ten times'),
            (float('%.15g' % f), 'header printed with 15 digits'), (float('%.12g' % f), 'header printed with 12 digits'),
            (float('%.9g' % f), 'header printed with 9 digits'), (float(np.float32(f)), 'header rounded to float32'),
            (np.float64(f), 'numpy.float64 of the header value')]
    rng.shuffle(out)
    return out


# (raw JSON text of the header probability, decimal computations that "should" give it)
PROB_HEADERS = [('0.3', [0.1 + 0.2, 0.1 * 3, 1 - 0.7, 3 / 10, 0.6 / 2, 0.15 + 0.15]),
                ('0.30000000000000004', [0.3, 0.1 + 0.2]), ('3e-1', [0.1 + 0.2, 0.3]), ('0.30', [0.1 + 0.2]),
                ('0.1', [0.3 - 0.2, 1 / 10, 1 - 0.9, 0.05 + 0.05]), ('0.7', [1 - 0.3, 0.1 * 7, 0.35 + 0.35, 7 / 10]),
                ('0.25', [0.25, 1 / 4]), ('0.5', [1 / 2]), ('1', [1.0, 1, True, 0.9 + 0.1, 0.7 + 0.3]),
                ('1.0', [1, 0.8 + 0.2]), ('0', [0.0, 0, False, 5e-324, 1e-300, -0.0]), ('0.0', [0, 1e-17]),
                ('0.001', [1e-3, 1 / 1000, 0.1 ** 3]), ('1e-3', [0.1 ** 3]), ('0.3333333333333333', [1 / 3, 1 - 2 / 3]),
                ('0.05', [0.15 - 0.1, 1 / 20]), ('"0.3"', [0.1 + 0.2, 0.3]), ('0.45', [0.15 * 3, 0.9 / 2]),
                ('1e-10', [1e-10, 1e-5 ** 2]), ('0.9999999999', [1.0, 1 - 1e-10])]


def gen_prob_file(rng):
    n = rng.choice([1, 2, 3, 5])
    raw, computed = rng.choice(PROB_HEADERS)
    f = float(json.loads(raw))
    asked = near_values(rng, f) + [(v, 'a decimal computation near the header value') for v in computed]
    rng.shuffle(asked)
    asked = asked[:rng.choice([8, 16, 40])]
    header = {'probability': json.loads(raw), 'label': 'probabilities'}
    head = ['{{"probability": {}}}'.format(raw)]
    if rng.random() < 0.7:
        header['probability_distribution'] = [0.9, 0.05, 0.03, 0.02]
        head.append('{"probability_distribution": [0.9, 0.05, 0.03, 0.02]}')
    head.append('{"label": "probabilities"}')
    rng.shuffle(head)
    calls, how = [], {}
    for v, h in asked:
        if isinstance(v, float) and (v != v or v in (float('inf'), float('-inf'))):
            continue
        how.setdefault(repr(v), h)
        calls.append(('g', n, v) if rng.random() < 0.7 else ('d', v))
    m = sum(1 for c in calls if c[0] == 'g' and c[2] == f) + rng.choice([0, 1, 3])
    body = [pack_bits([1 if rng.random() < 0.3 else 0 for _ in range(2 * n)]) for _ in range(m)]
    calls += [('g', n, f)] * rng.choice([0, 1, 2])
    lines = decorate(rng, head + [json.dumps(b) for b in body])
    return lines, {'n': n, 'm': m, 'p': f, 'kind': 'wellformed', 'cls': 'requested-probability', 'header': header,
                   'calls': calls, 'start': 0, 'how': how}


def expected_wellformed(lines, header, start, calls, pf):
    """the property from the file text alone, for a well-formed file (start <= number of records): outcome string"""
    body = [json.loads(l) for l in lines if tok_of(l).startswith('E') and not l.strip().startswith('//')]
    if not body:
        return 'open=EOFError'      # documented: the header ends at the first record; without one the start error is unavailable
    ptr = int(start)
    out = []
    for c in calls:
        if c[0] == 'g':
            if c[2] != pf:
                out.append('Rejected')
            elif ptr >= len(body):
                out.append('EOFError')
            else:
                e = unpack_bits(body[ptr]); ptr += 1
                out.append(bits(e) if len(e) == 2 * c[1] else 'Rejected')
        elif c[0] == 'd':
            pd = header.get('probability_distribution')
            out.append(hval(list(pd)) if c[1] == pf and pd else 'ValueError')
        elif c[0] == 'l':
            out.append(hval(header['label']))
        else:
            out.append(hval(header[c[1]]) if c[1] in header and c[1] not in ('probability', 'label',
                                                                              'probability_distribution') else 'AttributeError')
    return 'open=ok ' + '|'.join(out)


def class_monitor(ctx, lines, info, start, calls, impl):
    """direct monitors (independent of the Lean model) for the header-strings and requested-probability classes"""
    pf = float(info['p'])
    want = expected_wellformed(lines, info['header'], start, calls, pf)
    if impl == want:
        return
    inp = {'lines': lines, 'start': str(start), 'calls': [[_plain(x) for x in c] for c in calls], 'class': info['cls']}
    if 'text' in info:
        inp.update(text=info['text'], encoding=_enc())
    if not impl.startswith('open=ok'):
        if info['cls'] == 'file-text':
            ctx.monitor_fail('a well-formed error file is rejected ({}): its comments / blank lines / header strings '
                             'contain characters that are legal where they stand and are not line terminators of the file '
                             '(a line ends at \\n, \\r\\n or \\r only): {}'.format(impl, ' '.join(sorted(
                                 'U+%04X' % ord(ch) for ch in set(info['text']) if ord(ch) > 126 or ord(ch) < 32 and
                                 ch not in '\r\n\t'))), dict(inp, header=info['header']))
            return
        ctx.monitor_fail('a well-formed error file is rejected ({}): its header strings contain comment-like / structural '
                         'characters, which are ordinary string contents (a comment is // at the start of a line)'.format(
                             impl), dict(inp, header=info['header']))
        return
    got, exp = impl[8:].split('|'), want[8:].split('|')
    for i, (c, g, e) in enumerate(zip(calls, got, exp)):
        if g == e:
            continue
        if c[0] in ('g', 'd') and c[-1] != pf and e in ('Rejected', 'ValueError'):
            v = c[-1]
            ctx.monitor_fail('{} was answered for probability {!r} although the file header records {!r}: a probability that '
                             'disagrees with the file must be refused (requested value: {}; difference {:.3e})'.format(
                                 'generate' if c[0] == 'g' else 'probability_distribution', v, pf,
                                 info.get('how', {}).get(repr(v), '?'), float(Fraction(v) - Fraction(pf))),
                             dict(inp, call_index=i, requested=repr(v), header_probability=repr(pf), got=g[:80], expected=e))
        else:
            ctx.monitor_fail('well-formed file: call {} ({}) returned {} where the file dictates {}'.format(
                i, c[0], g[:80], e[:80]), dict(inp, call_index=i, got=g[:80], expected=e[:80]))
        return


def _plain(x):
    if isinstance(x, (bool, int, str)):
        return x
    if isinstance(x, float):
        return repr(x) if x != x or x in (float('inf'), float('-inf')) else float(x)
    return float(x)


MUTATIONS = ['zero', 'flip-all', 'flip-one', 'xor-held', 'fill-1', 'none', 'zero', 'flip-all']


def gen_history(rng):
    """a file with REPEATED identical records, replayed by 1..3 models (own start offsets, possibly over a second,
    byte-identical file), calls interleaved; the caller modifies served errors in place between the calls"""
    n = rng.choice([1, 2, 3, 5, 5, 7])
    pool = [[0] * (2 * n)] if rng.random() < 0.6 else []
    while len(pool) < rng.choice([1, 2, 2, 3]):
        pool.append([1 if rng.random() < 0.4 else 0 for _ in range(2 * n)])
    m = rng.randint(3, 14)
    body = [pack_bits(rng.choice(pool)) for _ in range(m)]
    p = rng.choice([0.1, 0.2, 0.5])
    header = {'probability': p, 'label': 'hist'}
    if rng.random() < 0.5:
        header['probability_distribution'] = [0.8, 0.1, 0, 0.1]
    lines = decorate(rng, [json.dumps(header)] + [json.dumps(b) for b in body])
    k = rng.choice([1, 2, 2, 3])
    models = [{'start': rng.choice([0, 0, 0, 1, 2, rng.randint(0, m)]), 'file': rng.choice([0, 0, 1])} for _ in range(k)]
    steps = []
    remaining = [m - mo['start'] + 2 for mo in models]      # up to and past the end of each model
    while any(r > 0 for r in remaining):
        j = rng.choice([i for i, r in enumerate(remaining) if r > 0])
        remaining[j] -= 1
        r = rng.random()
        if r < 0.9:
            steps.append(['g', j, n, p])
        elif r < 0.95:
            steps.append(['g', j, n, p + 0.125]); remaining[j] += 1      # refused before pulling: nothing consumed
        else:
            steps.append(['g', j, rng.choice([n + 1, max(n - 1, 0)]), p])  # refused, record consumed
        if rng.random() < 0.75:
            steps.append(['mut', rng.choice(MUTATIONS), rng.choice(['last', 'last', 'last', 'any']),
                          rng.randrange(1 << 16)])
        if rng.random() < 0.12:
            steps.append(['unpack', rng.randrange(m), rng.choice(MUTATIONS)])
    return {'lines': lines, 'models': models, 'steps': steps, 'n': n, 'm': m, 'p': p}


def apply_mutation(how, arr, held, salt):
    """the caller's own in-place update of an array it owns"""
    if how == 'zero':
        arr ^= arr
    elif how == 'flip-all':
        arr ^= 1
    elif how == 'flip-one' and arr.size:
        arr[salt % arr.size] ^= 1
    elif how == 'xor-held':
        same = [h for h in held if h is not arr and h.shape == arr.shape]
        if same:
            arr ^= same[salt % len(same)]
        else:
            arr ^= 1
    elif how == 'fill-1':
        arr[:] = 1


def exec_history(h, tmp):
    """drive the real code through the history.  returns (per-model outcome strings, failure or None)
    failure = the property evaluated from the file text alone: every served error is the recorded one, in order,
    whatever the caller did with the arrays it was given"""
    from qecsim.models.generic import FileErrorModel
    from qecsim import paulitools as pt
    lines, models, steps = h['lines'], h['models'], h['steps']
    paths = []
    for f in (0, 1):
        path = os.path.join(tmp, 'h{}.jsonl'.format(f))
        with open(path, 'w', encoding='latin-1', newline='') as fh:
            fh.write(''.join(l + '\n' for l in lines))
        paths.append(path)
    body = [json.loads(l) for l in lines if tok_of(l).startswith('E') and not l.strip().startswith('//')]
    pf = float(h['p'])
    fems = [FileErrorModel(paths[mo['file']], mo['start']) for mo in models]
    ptr = [mo['start'] for mo in models]
    outs = [[] for _ in models]
    held = []          # arrays the caller owns
    snaps = []         # their values as of the caller's last own update
    value_fail = alias_fail = None
    last = None

    def held_changed():
        for a, sn in zip(held, snaps):
            if a.tolist() != sn:
                return True
        return False

    for si, st in enumerate(steps):
        if st[0] == 'g':
            _, j, n_call, p_call = st
            if p_call != pf:
                exp = 'Rejected'
            elif ptr[j] >= len(body):
                exp = 'EOFError'
            else:
                rec = unpack_bits(body[ptr[j]]); ptr[j] += 1
                exp = bits(rec) if len(rec) == 2 * n_call else 'Rejected'
            try:
                e = fems[j].generate(FakeCode(n_call), p_call)
                if not isinstance(e, np.ndarray):
                    got = 'notarray'
                else:
                    got = bits(e)
                    if not e.flags.writeable:
                        got += '!readonly'
            except EOFError:
                got = 'EOFError'; e = None
            except (ValueError, TypeError, KeyError):
                got = 'Rejected'; e = None
            outs[j].append(got)
            if got != exp and value_fail is None:
                value_fail = {'what': 'file error model does not replay the file faithfully: step {} (model {}, '
                                      'start {}) returned {} where the file records {}; the caller had modified '
                                      'earlier served arrays in place'.format(si, j, models[j]['start'], got[:80],
                                                                              exp[:80]),
                              'step': si, 'got': got[:80], 'expected': exp[:80]}
            if held_changed() and value_fail is None:
                value_fail = {'what': 'generate changed an error array that had been served earlier and belongs to '
                                      'the caller (step {})'.format(si), 'step': si}
            if isinstance(e, np.ndarray):
                if alias_fail is None and any(a.size and e.size and np.shares_memory(a, e) for a in held):
                    alias_fail = {'what': 'the error served at step {} shares memory with an array served (or '
                                          'unpacked) earlier that the caller still holds and may modify'.format(si),
                                  'step': si}
                if e.flags.writeable:
                    held.append(e); snaps.append(e.tolist()); last = len(held) - 1
        elif st[0] == 'mut' and held:
            _, how, which, salt = st
            i = last if (which == 'last' and last is not None) else salt % len(held)
            apply_mutation(how, held[i], held, salt)
            snaps[:] = [a.tolist() for a in held]     # aliases of held[i] (if any) change with it: caller's own doing
        elif st[0] == 'unpack':
            _, idx, how = st
            a = pt.unpack(tuple(body[idx]))
            if isinstance(a, np.ndarray) and a.flags.writeable:
                if alias_fail is None and any(x.size and a.size and np.shares_memory(x, a) for x in held):
                    alias_fail = {'what': 'paulitools.unpack (step {}) returned an array sharing memory with an '
                                          'error served earlier'.format(si), 'step': si}
                held.append(a)
                apply_mutation(how, a, held, idx)
                snaps[:] = [x.tolist() for x in held]
    del fems
    return ['open=ok ' + '|'.join(o) for o in outs], (value_fail or alias_fail)


_CHILD = r'''
import json, os, shutil, sys, tempfile
sys.path.insert(0, sys.argv[1])
import qecsim
from qv.props import c18
h = json.load(sys.stdin)
tmp = tempfile.mkdtemp(prefix='qv_c18_', dir='/var/tmp')
try:
    outs, fail = c18.exec_history(h, tmp)
finally:
    shutil.rmtree(tmp, ignore_errors=True)
print(json.dumps({'qecsim': os.path.realpath(os.path.dirname(qecsim.__file__)), 'fail': fail}))
'''


def standalone_failure(h):
    """the history on its own, in a fresh interpreter (nothing the harness did before can matter): its failure or None"""
    import subprocess
    import sys
    import qecsim
    harness = os.path.abspath(os.path.join(os.path.dirname(__file__), '..', '..'))
    r = subprocess.run([sys.executable, '-c', _CHILD, harness], input=json.dumps(h), stdout=subprocess.PIPE,
                       stderr=subprocess.PIPE, text=True, timeout=300)
    if r.returncode != 0:
        return None
    try:
        out = json.loads(r.stdout.strip().splitlines()[-1])
    except (ValueError, IndexError):
        return None
    if out.get('qecsim') != os.path.realpath(os.path.dirname(qecsim.__file__)):
        return None
    return out.get('fail')


def wire_lines(lines):
    parts = []
    for l in lines:
        parts.append('{}:{}'.format(hexs(l), tok_of(l)))
    return '|'.join(parts) if parts else '.'


def write_case(path, lines, text=None):
    """write the file: the given text in the encoding the reader's open(filename) uses, byte for byte (no newline
    translation); without a text: the lines, each terminated by \\n"""
    if text is None:
        with open(path, 'w', encoding='latin-1', newline='') as f:
            f.write(''.join(l + '\n' for l in lines))
    else:
        with open(path, 'wb') as f:
            f.write(text.encode(_enc()))


class FakeCode:
    def __init__(self, n):
        self.n_k_d = (n, 1, None)


def drive(path, start, calls, header):
    """run the real FileErrorModel; returns the canonical outcome string"""
    from qecsim.models.generic import FileErrorModel
    try:
        fem = FileErrorModel(path, start) if start != 'X' else FileErrorModel(path, 2.5)
    except EOFError:
        return 'open=EOFError'
    except TypeError:
        return 'open=TypeError'
    except ValueError:
        return 'open=ValueError'
    except Exception as ex:
        return 'open=' + type(ex).__name__
    out = []
    codes = {}      # app.run hands the SAME code object to every generate call: mostly shared objects, sometimes a fresh one
    for ci, c in enumerate(calls):
        try:
            if c[0] == 'g':
                if (ci * 7 + len(calls)) % 4 == 0 or c[1] not in codes:
                    codes[c[1]] = FakeCode(c[1])
                e = fem.generate(codes[c[1]], c[2])
                if not isinstance(e, np.ndarray):
                    out.append('notarray')
                else:
                    out.append(bits(e))
            elif c[0] == 'd':
                d = fem.probability_distribution(c[1])
                out.append(hval(list(d)))
            elif c[0] == 'l':
                lab = fem.label
                src = header.get('label')
                out.append(hval(src) if isinstance(lab, str) and lab == str(src) else 'label-mismatch:' + repr(lab))
            elif c[0] == 'x':
                out.append(hval(getattr(fem, c[1])) if c[1] in fem.__dict__ else 'AttributeError')
        except EOFError:
            out.append('EOFError')
        except (ValueError, TypeError, KeyError) as ex:
            out.append('Rejected' if c[0] == 'g' else type(ex).__name__)
        except Exception as ex:
            out.append(type(ex).__name__)
    del fem
    return 'open=ok ' + '|'.join(out)


def run(ctx):
    rng = ctx.rng
    tmp = tempfile.mkdtemp(prefix='qv_c18_', dir='/var/tmp')
    try:
        cases = []
        for it in range(ctx.scale(1500, 30000)):
            lines, info = gen_file(rng, malformed=(rng.random() < 0.35))
            cases.append((lines, info))
        # record lengths relative to the asked code: every length 0..4n+2, for several n
        for n in ([1, 2, 3, 4, 5, 7, 8, 9, 12, 13] if ctx.quick() else list(range(1, 18)) + [20, 25, 40]):
            for _ in range(ctx.scale(2, 6)):
                cases.append(gen_length_file(rng, n))
        # declared length against recorded data: the hex of a record holds fewer / exactly / more bits than it declares
        for n in ([1, 2, 3, 4, 5, 7, 8, 9, 12, 13] if ctx.quick() else list(range(1, 18)) + [20, 25, 40]):
            for _ in range(ctx.scale(3, 8)):
                cases.append(gen_declared_file(rng, n))
        # header STRING contents as a class; requested PROBABILITY values as a class
        for _ in range(ctx.scale(250, 3000)):
            cases.append(gen_string_file(rng))
        for _ in range(ctx.scale(150, 2000)):
            cases.append(gen_prob_file(rng))
        # the file TEXT as a class: exotic-but-legal characters in comments / blank lines / header strings, terminators
        for _ in range(ctx.scale(500, 6000)):
            cases.append(gen_text_file(rng))
        # repo fixtures
        fx = os.path.join(os.environ.get('QECSIM_REPO', '/repo'), 'tests', 'models',
                          'test_generic_file_error_model_files')
        if os.path.isdir(fx):
            for f in sorted(os.listdir(fx)):
                txt = open(os.path.join(fx, f), encoding='latin-1').read().split('\n')
                if txt and txt[-1] == '':
                    txt.pop()
                if len(txt) <= 400 and all(all(ord(ch) < 128 for ch in l) for l in txt):
                    hdr = {}
                    for l in txt:
                        try:
                            o = json.loads(l)
                            if isinstance(o, dict):
                                hdr.update(o)
                        except ValueError:
                            pass
                    n = None
                    for l in txt:
                        try:
                            o = json.loads(l)
                            if isinstance(o, list) and len(o) == 2:
                                n = o[1] // 2; break
                        except ValueError:
                            pass
                    cases.append((txt, {'n': n or 1, 'm': len(txt), 'p': hdr.get('probability', 0.1),
                                        'kind': 'fixture:' + f, 'header': hdr}))
        for lines, info in cases:
            n, p = info['n'], info['p']
            pf = float(p) if not isinstance(p, (list, dict, type(None))) else 0.1
            start = rng.choice([0, 0, 0, 1, 2, 3, info['m'], info['m'] + 1, -1, 'X', True])
            calls = []
            if 'calls' in info:
                start = info['start']
            for _ in range(rng.randint(0, info['m'] + 4) if 'calls' not in info else 0):
                r = rng.random()
                if r < 0.7:
                    calls.append(('g', n, pf))
                elif r < 0.78:
                    calls.append(('g', n, pf + 0.125))
                elif r < 0.86:
                    calls.append(('g', rng.choice([n + 1, max(n - 1, 0), 4 * n]), pf))
                elif r < 0.92:
                    calls.append(('d', rng.choice([pf, pf + 0.5])))
                elif r < 0.96:
                    calls.append(('l',))
                else:
                    calls.append(('x', rng.choice(['bias', 'decoder', 'seed', 'a1', 'X_y', 'nope'])))
            if 'calls' in info:
                calls = list(info['calls'])
            path = os.path.join(tmp, 'f.jsonl')
            write_case(path, lines, info.get('text'))
            impl = drive(path, start, calls, info['header'])
            cw = ','.join(('g{}:{}'.format(c[1], rat(Fraction(float(c[2])))) if c[0] == 'g' else
                           'd' + rat(Fraction(float(c[1]))) if c[0] == 'd' else 'l' if c[0] == 'l' else 'x' + hexs(c[1]))
                          for c in calls) or '.'
            sw = 'X' if start == 'X' else str(int(start))
            if 'text' in info:      # the model splits the text into lines itself; one json.loads token per line
                line = 'c18 runtext {} {} {} {}'.format(sw, text3(info['text']),
                                                        '|'.join(tok_of(l) for l in lines) or '.', cw)
            else:
                line = 'c18 run {} {} {}'.format(sw, wire_lines(lines), cw)
            meta = {'kind': info['kind'], 'lines': lines, 'start': sw,
                    'calls': [[_plain(x) for x in c] for c in calls], 'n': n}
            if 'text' in info:
                meta.update(text=info['text'], cls=info['cls'])
            ctx.case(line, impl, nontrivial=(info['m'] > 0 or info['kind'] != 'wellformed'), meta=meta)
            ctx.count('kind', info['kind'].split(':')[0]); ctx.count('open', impl.split()[0])
            if 'cls' in info:
                ctx.count('class', info['cls'].split(':')[0])
                if info['cls'].startswith('lengths'):
                    ctx.count('class', info['cls']); ctx.count('lengths-n', n)
                if info['cls'].startswith('declared'):
                    ctx.count('class', info['cls']); ctx.count('declared-n', n)
                    for l in lines:
                        t = tok_of(l)
                        if t.startswith('E') and not l.strip().startswith('//'):
                            r = json.loads(l)
                            have = 4 * len(r[0])
                            ctx.count('declared-data', 'no data' if have == 0 and r[1] else 'fewer bits than declared'
                                      if have < r[1] else 'whole bytes beyond declared' if have >= r[1] + 8 else
                                      'exact bytes')
                if info['cls'] == 'file-text':
                    ctx.count('text-variant', info['kind']); ctx.count('text-terminator', info['terminator'])
                    for ch in set(info['text']):
                        if ch in LINE_BOUNDARY_ONLY_FOR_SPLITLINES or ch in PY_SPACES and ch not in ' \t' or ord(ch) > 126 \
                                or ord(ch) < 32 and ch not in '\r\n\t':
                            ctx.count('text-char', 'U+%04X' % ord(ch))
                    if info['kind'] == 'wellformed':
                        class_monitor(ctx, lines, info, start, calls, impl)
                    continue
                if info['cls'] in ('header-strings', 'requested-probability'):
                    class_monitor(ctx, lines, info, start, calls, impl)
                    continue
            ctx.count('start', sw if sw in ('X', '-1') else ('0' if sw == '0' else '>0'))
            # direct monitor of the core clause: a well-formed file serves exactly the recorded errors in order
            if info['kind'] == 'wellformed' and impl.startswith('open=ok') and isinstance(start, int) and start >= 0:
                # the property itself, from the file text alone: in-order service from `start`, refusals, EOF
                body = [json.loads(l) for l in lines if tok_of(l).startswith('E') and l.strip() and not
                        l.strip().startswith('//')]
                ptr = int(start); outs = impl[8:].split('|') if len(impl) > 8 else []
                for c, o in zip(calls, outs):
                    if c[0] != 'g':
                        continue
                    if c[2] != pf:
                        exp = 'Rejected'
                    elif ptr >= len(body):
                        exp = 'EOFError'
                    else:
                        e = unpack_bits(body[ptr]); ptr += 1
                        exp = bits(e) if len(e) == 2 * c[1] else 'Rejected'
                        if o != exp and exp == 'Rejected':
                            ctx.monitor_fail('a recorded error of {} bits was served to a code of {} qubits (needs '
                                             'exactly {} bits) instead of being refused: record {} served as {}'
                                             .format(len(e), c[1], 2 * c[1], json.dumps(body[ptr - 1]), o[:80]),
                                             {'lines': lines, 'start': sw, 'calls': [list(c) for c in calls],
                                              'record': body[ptr - 1], 'record_bits': len(e), 'qubits': c[1],
                                              'got': o[:80], 'expected': exp}, key='wrong-length-record-served')
                            break
                    if o != exp:
                        ctx.monitor_fail('well-formed file not replayed faithfully (order / refusal / EOF)',
                                         {'lines': lines, 'start': sw, 'calls': [list(c) for c in calls],
                                          'got': o[:80], 'expected': exp[:80]})
                        break
        # histories: repeated records, several models over the same file, caller-owned served arrays modified in place
        n_standalone = 0
        for it in range(ctx.scale(250, 4000)):
            h = gen_history(rng)
            impls, fail = exec_history(h, tmp)
            lw = wire_lines(h['lines'])
            for j, mo in enumerate(h['models']):
                cw = ','.join('g{}:{}'.format(st[2], rat(Fraction(st[3]))) for st in h['steps']
                              if st[0] == 'g' and st[1] == j) or '.'
                ctx.case('c18 run {} {} {}'.format(mo['start'], lw, cw), impls[j], nontrivial=True,
                         meta={'kind': 'wellformed', 'cls': 'history', 'lines': h['lines'], 'start': str(mo['start']),
                               'history': h, 'model_index': j})
            ctx.count('kind', 'history'); ctx.count('history-models', len(h['models']))
            ctx.count('history-mutations', sum(1 for st in h['steps'] if st[0] == 'mut' and st[1] != 'none'))
            ctx.count('history-repeats', h['m'] - len(set(l for l in h['lines'] if tok_of(l).startswith('E'))))
            if fail:
                # prefer a report that stands on its own: the same history in a fresh interpreter
                alone = None; ran = False
                if n_standalone < 6:
                    n_standalone += 1; ran = True
                    alone = standalone_failure(h)
                rec = dict(alone or fail, lines=h['lines'], models=h['models'], steps=h['steps'],
                           probability=h['p'], qubits=h['n'],
                           fresh_interpreter=('reproduced' if alone else 'not re-run' if not ran else
                                              'fails only after the earlier histories of this run'))
                if alone:
                    ctx.counterexamples.insert(0, {'what': alone['what'], 'input': rec,
                                                   'key': 'served-error-depends-on-caller-history'})
                else:
                    ctx.monitor_fail(fail['what'], rec, key='served-error-depends-on-caller-history')
        # comment / blank classification on its own
        for raw in ['', ' ', '\t', '//', '// x', ' //x', '/', '/ /', 'a//b', '{"a":1} // c', '\x0b', '\x0c', '\r',
                    ' \r\t//', '#', '/*', '///', ' / /', '\x0b//', ' \x0c \t']:
            import re
            rx = re.compile(r'^\s*(//.*)?$')
            ctx.case('c18 comment ' + hexs(raw), str(int(bool(rx.match(raw + '\n')))))
        # the whitespace of the comment rule (\\s of a str pattern), code point by code point: alone, before //, before text
        cps = list(range(0, 0x100)) + [0x1680, 0x180e, 0x2028, 0x2029, 0x202f, 0x205f, 0x2060, 0x3000, 0xfeff, 0xfffe] + \
            list(range(0x2000, 0x2010))
        if not ctx.quick():
            cps = list(range(0, 0xd800)) + list(range(0xe000, 0x11000)) + [0x1f600, 0xe0020, 0x10ffff]
        for cp in cps:
            if cp in (10, 13):
                continue
            for raw in (chr(cp), chr(cp) + '// x', ' ' + chr(cp) + '\t//', chr(cp) + 'x', '//' + chr(cp) + 'x'):
                ctx.case('c18 commenttext ' + text3(raw), str(int(bool(rx.match(raw + '\n')))), nontrivial=False)
        # line splitting on its own: what iterating over the open file yields (real io layer) against the model
        for it in range(ctx.scale(150, 2000)):
            k = rng.randint(0, 12)
            txt = ''.join(rng.choice(['a', '//', ' ', '\n', '\r', '\r\n', '\n', '\r', '\x0b', '\x0c', '\x1c', '\x1d', '\x1e',
                                      '\x85', '\u2028', '\u2029', '\x00', '\x1a']) for _ in range(k))
            txt = ''.join(c for c in txt if _encodable(c))
            path = os.path.join(tmp, 's.txt')
            write_case(path, None, txt)
            with open(path) as fh:
                got = [l for l in fh]
            ctx.case('c18 splittext ' + text3(txt), '{}:{}'.format(len(got), ','.join(
                str(len(l) - (1 if l.endswith('\n') else 0)) for l in got)), nontrivial=False)
    finally:
        shutil.rmtree(tmp, ignore_errors=True)
    return ctx.finish(RULE, search=search)


def search(m):
    meta = m.get('meta') or {}
    if meta.get('cls') == 'history':
        # the property evaluated on the real code alone, from the file text: re-run the recorded history
        fail = standalone_failure(meta['history'])      # fresh interpreter: the history on its own
        where = 'reproduced'
        if not fail:
            where = 'fails only after the earlier histories of this run'
            tmp = tempfile.mkdtemp(prefix='qv_c18_', dir='/var/tmp')
            try:
                _, fail = exec_history(meta['history'], tmp)
            finally:
                shutil.rmtree(tmp, ignore_errors=True)
        if fail:
            h = meta['history']
            return dict(fail, lines=h['lines'], models=h['models'], steps=h['steps'], probability=h['p'],
                        qubits=h['n'], fresh_interpreter=where)
        return None
    if str(meta.get('kind')).startswith('exotic'):
        return None      # not claimed well-formed or malformed (BOM, \\r inside a comment, non-JSON whitespace): agreement only
    extra = {'text': meta['text'], 'encoding': _enc()} if 'text' in meta else {}
    if meta.get('kind') == 'wellformed' and m['impl'].startswith('open=ok') and m['model'].startswith('open=ok'):
        a = m['impl'][8:].split('|'); b = m['model'][8:].split('|')
        for i, (x, y) in enumerate(zip(a, b)):
            if x != y:
                if x.endswith('!readonly'):
                    return None
                return {'what': 'file error model does not replay the file faithfully: call {} returned {} where the '
                                'file dictates {}'.format(i, x[:80], y[:80]),
                        'lines': meta.get('lines'), 'start': meta.get('start'), 'calls': meta.get('calls'), **extra}
    if meta.get('kind') == 'wellformed' and m['impl'].split()[0] != m['model'].split()[0]:
        return {'what': 'well-formed file: construction outcome {} but the file dictates {}'.format(
            m['impl'].split()[0], m['model'].split()[0]), 'lines': meta.get('lines'), 'start': meta.get('start'), **extra}
    if meta.get('kind') and meta['kind'] != 'wellformed' and m['model'].split()[0] != 'open=ok' and \
            m['impl'].startswith('open=ok'):
        return {'what': 'malformed file ({}) accepted'.format(meta['kind']), 'lines': meta.get('lines'),
                'start': meta.get('start')}
    return None


def replay(ctx, path):
    """re-evaluate the recorded cases on the CURRENT tree: the file is written and driven again (the model's reply is
    the recorded one: the model does not depend on the tree); histories are re-run on their own in a fresh interpreter"""
    body = json.load(open(path)); bad = 0
    tmp = tempfile.mkdtemp(prefix='qv_c18_', dir='/var/tmp')
    try:
        for v in body.get('violations', []):
            ce = v.get('counterexample') or {}
            inp = ce.get('input') if isinstance(ce.get('input'), dict) else ce
            if isinstance(inp, dict) and 'steps' in inp and 'models' in inp:
                h = {'lines': inp['lines'], 'models': inp['models'], 'steps': inp['steps'], 'p': inp['probability'],
                     'n': inp['qubits'], 'm': 0}
                f = standalone_failure(h)
                print('replay history ({} steps) in a fresh interpreter ->'.format(len(h['steps'])), f)
                bad += bool(f)
                continue
            mm = v.get('first_mismatch')
            if not mm and isinstance(inp, dict) and inp.get('class') == 'file-text' and 'text' in inp:
                fpath = os.path.join(tmp, 'r.jsonl')
                write_case(fpath, None, inp['text'])
                calls = [tuple(c) for c in inp['calls']]
                hdr = inp.get('header')
                if hdr is None:
                    hdr = {}
                    for l in inp['lines']:
                        try:
                            o = json.loads(l)
                            if isinstance(o, dict):
                                hdr.update(o)
                        except ValueError:
                            pass
                got = drive(fpath, int(inp['start']), calls, hdr)
                want = expected_wellformed(usplit(inp['text']), hdr, int(inp['start']), calls, float(hdr['probability']))
                print('replay file-text case ->', 'FAILS: ' + got[:100] if got != want else 'the current tree replays it')
                bad += got != want
                continue
            if not mm:
                continue
            meta = mm.get('meta') or {}
            if meta.get('cls') != 'history' and meta.get('lines') is not None and meta.get('calls') is not None:
                hdr = {}
                for l in meta['lines']:
                    try:
                        o = json.loads(l)
                        if isinstance(o, dict):
                            hdr.update(o)
                    except ValueError:
                        pass
                fpath = os.path.join(tmp, 'r.jsonl')
                write_case(fpath, meta['lines'], meta.get('text'))
                sw = meta.get('start', '0')
                mm = dict(mm, impl=drive(fpath, 'X' if sw == 'X' else int(sw), [tuple(c) for c in meta['calls']], hdr))
                if mm['impl'] == mm['model']:
                    print('replay', mm['op'][:120], '-> the current tree agrees with the model'); continue
            r = search(mm); print('replay', mm['op'][:120], '->', r); bad += bool(r)
    finally:
        shutil.rmtree(tmp, ignore_errors=True)
    return 1 if bad else 0
