"""C18 — the file error model replays the recorded errors faithfully
   (qecsim.models.generic.FileErrorModel against Model/FileEM.lean)"""
import json
import os
import shutil
import tempfile
from fractions import Fraction

import numpy as np

from qv.core import bits, rat

RULE = ('generated error files: random bodies (n in 1..40, 0..30 errors), header keys split over 1..4 objects in '
        'random order, extra attributes (valid / invalid names / shadowing names), comment and blank lines anywhere '
        '(ASCII whitespace variants), plus a malformed stream (missing/repeated required keys, header after body, bad '
        'JSON, non-list body values, non-numeric probability, bad start); the real FileErrorModel is driven through a '
        'random call sequence (generate with right/wrong probability and qubit count, probability_distribution, label '
        'and extra attributes) up to and past EOF; outcome sequence compared exactly. The repo fixture files are '
        'replayed too. non-trivial = file with a body or a malformed construct')

WS = [' ', '\t', '  ', ' \t ']   # JSON whitespace only before JSON values; no \r (newline translation is the OS layer)


def hexs(s):
    return s.encode('latin-1').hex() or '-'


def hval(v):
    if v is None:
        return 'n'
    if isinstance(v, bool):
        return 'r' + rat(Fraction(int(v)))
    if isinstance(v, (int, float)):
        return 'r' + rat(Fraction(v))
    if isinstance(v, str):
        return 's' + hexs(v)
    return 'o' + hexs(json.dumps(v, sort_keys=True, separators=(',', ':')))


def prob_hval(v):
    """probability goes through float(): numeric strings and bools are numbers"""
    if isinstance(v, str):
        try:
            return 'r' + rat(Fraction(float(v)))
        except ValueError:
            return 's' + hexs(v)
    return hval(v)


def tok_of(line_text):
    """classify a non-comment line the way the model expects, using json.loads (external to the model)"""
    try:
        o = json.loads(line_text)
    except ValueError:
        return 'I'
    if isinstance(o, dict):
        return 'O' + ';'.join('{}={}'.format(hexs(k), prob_hval(v) if k == 'probability' else hval(v))
                              for k, v in o.items())
    if isinstance(o, list) and len(o) == 2 and isinstance(o[0], str) and isinstance(o[1], int) \
            and not isinstance(o[1], bool) and o[1] >= 0:
        try:
            bytes.fromhex(o[0])
        except ValueError:
            return 'B'
        h = o[0].replace(' ', '').lower()
        return 'E{},{}'.format(h or '-', o[1])
    return 'B'


def canon_val(kind_src, v):
    return hval(v)


def gen_file(rng, malformed):
    """returns (lines (text without newline), info)"""
    n = rng.choice([1, 2, 3, 5, 8, 13, 25, 40])
    m = rng.choice([0, 1, 2, 3, 5, 8, 13, 30])
    p = rng.choice([0.1, 0.25, 0.0, 1, 0.5, '0.125'])
    from qecsim import paulitools as pt
    body = []
    for _ in range(m):
        e = np.array([1 if rng.random() < 0.3 else 0 for _ in range(2 * n)], dtype=int)
        body.append(list(pt.pack(e)))
    header = {'probability': p, 'label': rng.choice(['Biased', 'x y', '', 'lbl-1'])}
    if rng.random() < 0.6:
        header['probability_distribution'] = rng.choice([[0.9, 0.05, 0.03, 0.02], [1, 0, 0, 0], [], None])
    for _ in range(rng.choice([0, 0, 1, 2, 3])):
        header[rng.choice(['bias', 'decoder', 'seed', 'a1', 'X_y', 'code', 'n_run'])] = rng.choice(
            [1, 2.5, 'txt', [1, 2], {'a': 1}, None, True])
    kind = 'wellformed'
    items = list(header.items())
    rng.shuffle(items)
    objs = []
    while items:
        k = rng.randint(1, len(items))
        objs.append(dict(items[:k])); items = items[k:]
    if rng.random() < 0.1:
        objs.insert(rng.randrange(len(objs) + 1), {})
    body_lines = [json.dumps(b) for b in body]
    if malformed:
        kind = rng.choice(['missing-key', 'repeated-key', 'header-after-body', 'bad-json', 'bad-body', 'bad-attr',
                           'shadow-attr', 'bad-probability', 'short-entry', 'leading-digit-attr'])
        if kind == 'missing-key':
            k = rng.choice(['probability', 'label'])
            for o in objs:
                o.pop(k, None)
        elif kind == 'repeated-key':
            k = rng.choice(list(header.keys()))
            objs.insert(rng.randrange(len(objs) + 1), {k: header[k]})
        elif kind == 'header-after-body' and body_lines:
            body_lines.insert(rng.randrange(1, len(body_lines) + 1), json.dumps({'late': 1}))
        elif kind == 'bad-json':
            where = rng.choice(['header', 'body'])
            junk = rng.choice(['{"a": ', '[1, 2', 'nope', '{"a": 1}}', "['00', 2]"])
            if where == 'header' or not body_lines:
                objs.insert(rng.randrange(len(objs) + 1), junk)
            else:
                body_lines.insert(rng.randrange(len(body_lines) + 1), junk)
        elif kind == 'bad-body':
            body_lines.insert(rng.randrange(len(body_lines) + 1),
                              rng.choice(['17', '"abc"', '[1, 2, 3]', '["zz", 4]', '[4, "00"]', 'null', 'true',
                                          '["00"]', '["00", -1]', '["00", 2.0]']))
        elif kind == 'bad-attr':
            objs[-1][rng.choice(['_private', '1abc', 'a-b', 'a b', '', 'é'])] = 1
        elif kind == 'shadow-attr':
            objs[-1][rng.choice(['generate'])] = 1
        elif kind == 'bad-probability':
            for o in objs:
                if 'probability' in o:
                    o['probability'] = rng.choice([None, 'abc', [0.1], {'p': 1}])
        elif kind == 'short-entry' and body_lines:
            i = rng.randrange(len(body_lines))
            b = json.loads(body_lines[i])
            if isinstance(b, list):
                b[1] = rng.choice([0, 1, 2 * n - 1, 2 * n + 8, 10 ** 6]); body_lines[i] = json.dumps(b)
        elif kind == 'leading-digit-attr':
            objs[-1]['9lives'] = 1
    lines = [o if isinstance(o, str) else json.dumps(o) for o in objs] + body_lines
    # decorate with comments / blank lines / leading whitespace
    out = []
    for l in lines:
        while rng.random() < 0.25:
            out.append(rng.choice(['', ' ', '\t', '// comment', '  // {"probability": 0.5}', '//', ' \t//x',
                                   '\x0b', '\x0c// form feed']))
        if rng.random() < 0.15 and not l.startswith("['"):
            l = rng.choice(WS) + l
        out.append(l)
    while rng.random() < 0.3:
        out.append(rng.choice(['', '// trailing', ' ']))
    if rng.random() < 0.05:
        out.insert(0, '/ not a comment')  # single slash: not a comment → invalid JSON
        kind += '+single-slash'
    return out, {'n': n, 'm': m, 'p': p, 'kind': kind, 'header': header}


def wire_lines(lines):
    parts = []
    for l in lines:
        parts.append('{}:{}'.format(hexs(l), tok_of(l)))
    return '|'.join(parts) if parts else '.'


class FakeCode:
    def __init__(self, n):
        self.n_k_d = (n, 1, None)


def drive(path, start, calls, header):
    """run the real FileErrorModel; returns the canonical outcome string"""
    from qecsim.models.generic import FileErrorModel
    try:
        fem = FileErrorModel(path, start) if start != 'X' else FileErrorModel(path, 2.5)
    except EOFError:
        return 'open=EOFError'
    except TypeError:
        return 'open=TypeError'
    except ValueError:
        return 'open=ValueError'
    except Exception as ex:
        return 'open=' + type(ex).__name__
    out = []
    for c in calls:
        try:
            if c[0] == 'g':
                e = fem.generate(FakeCode(c[1]), c[2])
                if not isinstance(e, np.ndarray):
                    out.append('notarray')
                else:
                    out.append(bits(e))
            elif c[0] == 'd':
                d = fem.probability_distribution(c[1])
                out.append(hval(list(d)))
            elif c[0] == 'l':
                lab = fem.label
                src = header.get('label')
                out.append(hval(src) if isinstance(lab, str) and lab == str(src) else 'label-mismatch:' + repr(lab))
            elif c[0] == 'x':
                out.append(hval(getattr(fem, c[1])) if c[1] in fem.__dict__ else 'AttributeError')
        except EOFError:
            out.append('EOFError')
        except (ValueError, TypeError, KeyError) as ex:
            out.append('Rejected' if c[0] == 'g' else type(ex).__name__)
        except Exception as ex:
            out.append(type(ex).__name__)
    del fem
    return 'open=ok ' + '|'.join(out)


def run(ctx):
    rng = ctx.rng
    tmp = tempfile.mkdtemp(prefix='qv_c18_', dir='/var/tmp')
    try:
        cases = []
        for it in range(ctx.scale(1500, 30000)):
            lines, info = gen_file(rng, malformed=(rng.random() < 0.35))
            cases.append((lines, info))
        # repo fixtures
        fx = os.path.join(os.environ.get('QECSIM_REPO', '/repo'), 'tests', 'models',
                          'test_generic_file_error_model_files')
        if os.path.isdir(fx):
            for f in sorted(os.listdir(fx)):
                txt = open(os.path.join(fx, f), encoding='latin-1').read().split('\n')
                if txt and txt[-1] == '':
                    txt.pop()
                if len(txt) <= 400 and all(all(ord(ch) < 128 for ch in l) for l in txt):
                    hdr = {}
                    for l in txt:
                        try:
                            o = json.loads(l)
                            if isinstance(o, dict):
                                hdr.update(o)
                        except ValueError:
                            pass
                    n = None
                    for l in txt:
                        try:
                            o = json.loads(l)
                            if isinstance(o, list) and len(o) == 2:
                                n = o[1] // 2; break
                        except ValueError:
                            pass
                    cases.append((txt, {'n': n or 1, 'm': len(txt), 'p': hdr.get('probability', 0.1),
                                        'kind': 'fixture:' + f, 'header': hdr}))
        for lines, info in cases:
            n, p = info['n'], info['p']
            pf = float(p) if not isinstance(p, (list, dict, type(None))) else 0.1
            start = rng.choice([0, 0, 0, 1, 2, 3, info['m'], info['m'] + 1, -1, 'X', True])
            calls = []
            for _ in range(rng.randint(0, info['m'] + 4)):
                r = rng.random()
                if r < 0.7:
                    calls.append(('g', n, pf))
                elif r < 0.78:
                    calls.append(('g', n, pf + 0.125))
                elif r < 0.86:
                    calls.append(('g', rng.choice([n + 1, max(n - 1, 0), 4 * n]), pf))
                elif r < 0.92:
                    calls.append(('d', rng.choice([pf, pf + 0.5])))
                elif r < 0.96:
                    calls.append(('l',))
                else:
                    calls.append(('x', rng.choice(['bias', 'decoder', 'seed', 'a1', 'X_y', 'nope'])))
            path = os.path.join(tmp, 'f.jsonl')
            with open(path, 'w', encoding='latin-1', newline='') as f:
                f.write(''.join(l + '\n' for l in lines))
            impl = drive(path, start, calls, info['header'])
            cw = ','.join(('g{}:{}'.format(c[1], rat(Fraction(c[2]))) if c[0] == 'g' else
                           'd' + rat(Fraction(c[1])) if c[0] == 'd' else 'l' if c[0] == 'l' else 'x' + hexs(c[1]))
                          for c in calls) or '.'
            sw = 'X' if start == 'X' else str(int(start))
            line = 'c18 run {} {} {}'.format(sw, wire_lines(lines), cw)
            ctx.case(line, impl, nontrivial=(info['m'] > 0 or info['kind'] != 'wellformed'),
                     meta={'kind': info['kind'], 'lines': lines, 'start': sw,
                           'calls': [list(c) for c in calls], 'n': n})
            ctx.count('kind', info['kind'].split(':')[0]); ctx.count('open', impl.split()[0])
            ctx.count('start', sw if sw in ('X', '-1') else ('0' if sw == '0' else '>0'))
            # direct monitor of the core clause: a well-formed file serves exactly the recorded errors in order
            if info['kind'] == 'wellformed' and impl.startswith('open=ok') and isinstance(start, int) and start >= 0:
                # the property itself, from the file text alone: in-order service from `start`, refusals, EOF
                from qecsim import paulitools as pt
                body = [json.loads(l) for l in lines if tok_of(l).startswith('E') and l.strip() and not
                        l.strip().startswith('//')]
                ptr = int(start); outs = impl[8:].split('|') if len(impl) > 8 else []
                for c, o in zip(calls, outs):
                    if c[0] != 'g':
                        continue
                    if c[2] != pf:
                        exp = 'Rejected'
                    elif ptr >= len(body):
                        exp = 'EOFError'
                    else:
                        e = pt.unpack(tuple(body[ptr])); ptr += 1
                        exp = bits(e) if len(e) == 2 * c[1] else 'Rejected'
                    if o != exp:
                        ctx.monitor_fail('well-formed file not replayed faithfully (order / refusal / EOF)',
                                         {'lines': lines, 'start': sw, 'calls': [list(c) for c in calls],
                                          'got': o[:80], 'expected': exp[:80]})
                        break
        # comment / blank classification on its own
        for raw in ['', ' ', '\t', '//', '// x', ' //x', '/', '/ /', 'a//b', '{"a":1} // c', '\x0b', '\x0c', '\r',
                    ' \r\t//', '#', '/*', '///', ' / /', '\x0b//', ' \x0c \t']:
            import re
            rx = re.compile(r'^\s*(//.*)?$')
            ctx.case('c18 comment ' + hexs(raw), str(int(bool(rx.match(raw + '\n')))))
    finally:
        shutil.rmtree(tmp, ignore_errors=True)
    return ctx.finish(RULE, search=search)


def search(m):
    meta = m.get('meta') or {}
    if meta.get('kind') == 'wellformed' and m['impl'].startswith('open=ok') and m['model'].startswith('open=ok'):
        a = m['impl'][8:].split('|'); b = m['model'][8:].split('|')
        for i, (x, y) in enumerate(zip(a, b)):
            if x != y:
                return {'what': 'file error model does not replay the file faithfully: call {} returned {} where the '
                                'file dictates {}'.format(i, x[:80], y[:80]),
                        'lines': meta.get('lines'), 'start': meta.get('start'), 'calls': meta.get('calls')}
    if meta.get('kind') == 'wellformed' and m['impl'].split()[0] != m['model'].split()[0]:
        return {'what': 'well-formed file: construction outcome {} but the file dictates {}'.format(
            m['impl'].split()[0], m['model'].split()[0]), 'lines': meta.get('lines'), 'start': meta.get('start')}
    if meta.get('kind') and meta['kind'] != 'wellformed' and m['model'].split()[0] != 'open=ok' and \
            m['impl'].startswith('open=ok'):
        return {'what': 'malformed file ({}) accepted'.format(meta['kind']), 'lines': meta.get('lines'),
                'start': meta.get('start')}
    return None


def replay(ctx, path):
    body = json.load(open(path)); bad = 0
    for v in body.get('violations', []):
        mm = v.get('first_mismatch')
        if mm:
            r = search(mm); print('replay', mm['op'][:120], '->', r); bad += bool(r)
    return 1 if bad else 0
