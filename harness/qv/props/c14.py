"""C14 — minimum-weight decoders correct every error within half the distance.

What is PROVED (Props/C14.lean, about Model/NaiveDecode.lean, generic in the code):
  * the naive decoder returns a minimum-weight Pauli among all operators with the given syndrome, and returns
    None exactly when no operator has it (`naive_min_weight`, `naive_none_iff`);
  * the naive decoder corrects every error of TOTAL weight <= t = (d-1)//2 for every code with the distance
    property (`naive_corrects_partial`), instantiated for the five-qubit and Steane codes;
  * the property's per-component hypothesis (|X-supp| <= t and |Z-supp| <= t) is FALSE for the naive decoder
    (`naive_mixed_support_counterexample`, five-qubit XZIII) — known finding D5;
  * MWPM reduction theorems (`mwpm_split…`, `mwpm_corrects_of_chain_bound_partial`) with the matching, path and
    distance facts of C13 / C15 / C08 as explicit hypotheses.
  The model is tied to the code by comparing `NaiveDecoder.decode` EXACTLY with the model on every syndrome of the
  small codes (incl. unsatisfiable and wrong-length syndromes and the max_qubits guard).

What is EXPLORED (not proved): that PlanarMWPMDecoder / ToricMWPMDecoder correct every error whose X- and
Z-components each have weight <= t.  All such errors are enumerated for small sizes (flag `exhaustive` per code
size in coverage.explored), all single-type placements plus seeded mixed samples for larger sizes; for every size
with d >= 5 up to 7x7 (both orientations of the non-square ones; thorough: up to 9x9) the STRUCTURED weight-t errors,
i.e. the extremal inputs of the theorem where the cost of the right matching equals the chain weight t and the wrong
one costs d - t: straight chains along every row / column at every offset (contiguous, gapped, split in pieces at
every separation, centred between the boundaries, wrapping round the torus), bent chains (L, S, U), as X / Z / Y and
X-on-row + Z-on-column.  Decoder objects are also driven through HISTORIES (one instance serving several codes of
different family / size, with equal and different syndrome lengths), every answer checked.  The verdict
"recovery xor error commutes with all stabilizers and logicals" is computed in Python with an independent
symplectic product and confirmed by the Lean driver (`corrected`), and "is a product of stabilizers" by a Lean
certificate check (`inSpanCert`) of a certificate found by Gaussian elimination.
"""
import collections
import itertools
import json
import math

import numpy as np

from qv import core
from qv.core import bits, mat

LEVEL = 'proof'

RULE = ('(a) NaiveDecoder.decode compared exactly with the Lean model on every syndrome of the five-qubit, Steane, '
        'small planar/toric and hand-made basic codes (plus wrong-length syndromes and max_qubits guards), with a '
        'brute-force minimum-weight monitor; (b) for every planar/toric size 2..5 (thorough: ..7) and the basic codes: '
        'every Pauli error with |X-supp|<=t and |Z-supp|<=t when that space is within the tier budget, otherwise all '
        'single-type (X, Z, Y) placements of weight<=t plus seeded mixed samples; real decode of the real syndrome under '
        'a time limit; verdict recovery^error commutes with all stabilizers and logicals computed in Python and '
        'confirmed in batches by the Lean driver, plus a Lean-checked span certificate; (b\') for every size with d>=5 up '
        'to 7x7 incl. both orientations of 5x6, 5x7, 6x7 (thorough: also 8x8, 7x9, 9x7, 9x9): the STRUCTURED weight-t '
        'errors - every t-subset of every lattice row and column (contiguous chains at every offset, centred, at a '
        'boundary, wrapping round the torus; gapped; split in pieces at every separation), every chain with one turn '
        '(L) and with two turns (S, U), each as X, Z and Y (quick: Y on a seeded quarter), plus X-on-row with '
        'Z-on-column combinations; (c) decoder-object histories: one NaiveDecoder / PlanarMWPMDecoder / '
        'ToricMWPMDecoder instance reused across codes of different family and size (equal and different syndrome '
        'lengths), property evaluated on every answer, compared with a fresh instance and (naive) the Lean model. '
        'non-trivial = batch contains a non-identity error / syndrome is non-zero; distinct = distinct protocol lines')

KNOWN_KEY = 'NaiveDecoder.basic-code.mixed-support-weight>t'
BATCH = 64


# ------------------------------------------------------------------------------------------ construction recipes

def make_code(recipe):
    from qecsim.models.basic import BasicCode, FiveQubitCode, SteaneCode
    from qecsim.models.planar import PlanarCode
    from qecsim.models.toric import ToricCode
    kind = recipe[0]
    if kind == 'planar':
        return PlanarCode(int(recipe[1]), int(recipe[2]))
    if kind == 'toric':
        return ToricCode(int(recipe[1]), int(recipe[2]))
    if kind == 'five':
        return FiveQubitCode()
    if kind == 'steane':
        return SteaneCode()
    if kind == 'basic':
        return BasicCode(tuple(recipe[1]), tuple(recipe[2]), tuple(recipe[3]))
    raise ValueError(recipe)


def make_decoder(recipe):
    from qecsim.models.generic import NaiveDecoder
    from qecsim.models.planar import PlanarMWPMDecoder
    from qecsim.models.toric import ToricMWPMDecoder
    kind = recipe[0]
    if kind == 'PlanarMWPMDecoder':
        return PlanarMWPMDecoder()
    if kind == 'ToricMWPMDecoder':
        return ToricMWPMDecoder()
    if kind == 'NaiveDecoder':
        return NaiveDecoder(*recipe[1:]) if len(recipe) > 1 else NaiveDecoder()
    raise ValueError(recipe)


def tag_of(recipe):
    return '{}({})'.format(recipe[0], ','.join(str(x) for x in recipe[1:])) if recipe[0] in ('planar', 'toric') \
        else (recipe[0] if recipe[0] != 'basic' else 'basic[' + ','.join(recipe[1]) + ']')


def n_of(code):
    return int(code.n_k_d[0])


def logicals_of(code):
    lx, lz = np.atleast_2d(code.logical_xs), np.atleast_2d(code.logical_zs)
    n2 = 2 * n_of(code)
    rows = [r for M in (lx, lz) if M.size for r in M.reshape(-1, n2)]
    return np.array(rows, dtype=int).reshape(len(rows), n2)


def sp(X, M):
    """independent symplectic product of the rows of X with the rows of M (not qecsim.paulitools)"""
    X = np.atleast_2d(np.asarray(X, dtype=np.int64)); M = np.atleast_2d(np.asarray(M, dtype=np.int64))
    n = X.shape[1] // 2
    if M.shape[0] == 0 or M.size == 0:
        return np.zeros((X.shape[0], 0), dtype=np.int64)
    return (X[:, :n].dot(M[:, n:].T) + X[:, n:].dot(M[:, :n].T)) % 2


def pauli_str(v):
    v = [int(x) for x in v]; n = len(v) // 2
    return ''.join('IXZY'[v[i] + 2 * v[n + i]] for i in range(n))


def from_pauli(s):
    return np.array([int(c in 'XY') for c in s] + [int(c in 'ZY') for c in s], dtype=int)


def wt(v):
    v = np.asarray(v); n = len(v) // 2
    return int(np.count_nonzero(v[:n] | v[n:]))


# ------------------------------------------------------------------------------------------ span certificates

class Span:
    """row space of S over GF(2) with a transform, so that a certificate (which rows to multiply) is found fast"""

    def __init__(self, S):
        S = np.array(S, dtype=np.uint8) % 2
        m = S.shape[0]
        A = S.copy(); T = np.identity(m, dtype=np.uint8)
        piv = []; r = 0
        for c in range(A.shape[1] if m else 0):
            rows = [i for i in range(r, m) if A[i, c]]
            if not rows:
                continue
            p = rows[0]
            if p != r:
                A[[r, p]] = A[[p, r]]; T[[r, p]] = T[[p, r]]
            for i in range(m):
                if i != r and A[i, c]:
                    A[i] ^= A[r]; T[i] ^= T[r]
            piv.append(c); r += 1
            if r == m:
                break
        self.S, self.A, self.T, self.piv, self.rank, self.m = S, A[:r], T[:r], piv, r, m

    def cert(self, x):
        """bit list selecting rows of S whose XOR is x, or None"""
        x = np.asarray(x, dtype=np.uint8) % 2
        if self.m == 0:
            return None if x.any() else []
        coef = x[self.piv] if self.piv else np.zeros(0, dtype=np.uint8)
        c = (coef.astype(np.int64).dot(self.T.astype(np.int64)) % 2).astype(np.uint8) if self.rank else \
            np.zeros(self.m, dtype=np.uint8)
        if not np.array_equal(c.astype(np.int64).dot(self.S.astype(np.int64)) % 2, x):
            return None
        return [int(b) for b in c]


# ------------------------------------------------------------------------------------------ error generators

def subsets_upto(n, t):
    for w in range(t + 1):
        for qs in itertools.combinations(range(n), w):
            yield qs


def n_subsets_upto(n, t):
    return sum(math.comb(n, w) for w in range(t + 1))


def err_from_supports(n, xs, zs):
    e = np.zeros(2 * n, dtype=int)
    for q in xs:
        e[q] = 1
    for q in zs:
        e[n + q] = 1
    return e


def component_errors(n, t):
    """every Pauli whose X-support and Z-support sizes are each <= t"""
    subs = list(subsets_upto(n, t))
    for xs in subs:
        for zs in subs:
            yield err_from_supports(n, xs, zs)


def single_type_errors(n, t):
    for qs in subsets_upto(n, t):
        if not qs:
            yield err_from_supports(n, (), ())
            continue
        yield err_from_supports(n, qs, ())
        yield err_from_supports(n, (), qs)
        yield err_from_supports(n, qs, qs)


def total_weight_errors(n, t):
    """every Pauli of total weight <= t (all placements, all letters)"""
    for qs in subsets_upto(n, t):
        for letters in itertools.product('XZY', repeat=len(qs)):
            xs = [q for q, l in zip(qs, letters) if l in 'XY']
            zs = [q for q, l in zip(qs, letters) if l in 'ZY']
            yield err_from_supports(n, xs, zs)


def random_mixed(rng, n, t, count):
    for _ in range(count):
        # biased towards the extreme of the hypothesis: both components at full weight t
        wx = t if rng.random() < 0.7 else rng.randint(0, t)
        wz = t if rng.random() < 0.7 else rng.randint(0, t)
        yield err_from_supports(n, rng.sample(range(n), wx), rng.sample(range(n), wz))


# ------------------------------------------------------------------------------------------ structured errors
#
# The extremal inputs of the theorem are CHAINS: an error chain of weight exactly t whose matching cost equals its
# weight competes with the complementary route (to the boundaries / around the torus) of cost d - t.  Random
# placements of t qubits on a 7x7 lattice almost never form one, so they are generated from the lattice geometry.
#
# Geometry (independent of qecsim's Pauli classes): doubled coordinates.  Planar R x C: (2R-1) x (2C-1) grid, qubits
# where row+col is even, stabilizer nodes where it is odd, open boundaries.  Toric R x C: (2R) x (2C) periodic grid,
# vertices at (even, even), horizontal edge (0,r,c) at (2r, 2c+1), vertical edge (1,r,c) at (2r+1, 2c), faces at
# (odd, odd).  In both, a chain that crosses qubit s in direction u (a unit vector) continues through s + 2u, and
# turns into the perpendicular direction v through s + u + v.

class Geo:
    def __init__(self, recipe):
        self.fam, self.R, self.C = recipe[0], int(recipe[1]), int(recipe[2])
        if self.fam == 'planar':
            self.H, self.W, self.parity, self.wrap = 2 * self.R - 1, 2 * self.C - 1, 0, False
        else:
            self.H, self.W, self.parity, self.wrap = 2 * self.R, 2 * self.C, 1, True
        self.sites = [(r, c) for r in range(self.H) for c in range(self.W) if (r + c) % 2 == self.parity]

    def norm(self, p):
        """canonical coordinates of a qubit position, None when it is not a qubit of the lattice"""
        r, c = p
        if self.wrap:
            r, c = r % self.H, c % self.W
        elif not (0 <= r < self.H and 0 <= c < self.W):
            return None
        return (r, c) if (r + c) % 2 == self.parity else None

    def qubit(self, p):
        r, c = p
        if self.fam == 'planar':
            return (r // 2) * (self.C - c % 2) + c // 2 + (r % 2) * self.R * self.C
        return (r % 2) * self.R * self.C + (r // 2) * self.C + c // 2

    def lines(self):
        """every lattice row and every lattice column of qubits, as ordered lists of positions: (axis, [positions])"""
        for r in range(self.H):
            ps = [(r, c) for c in range(self.W) if (r + c) % 2 == self.parity]
            if ps:
                yield 'row', ps
        for c in range(self.W):
            ps = [(r, c) for r in range(self.H) if (r + c) % 2 == self.parity]
            if ps:
                yield 'col', ps

    def walk(self, start, moves):
        """positions crossed by a chain: start, then for every move ('s', u) straight on / ('t', u, v) turn from
        direction u into v / ('g', u) straight on without an error (a gap).  None when it leaves the lattice or
        revisits a qubit."""
        p = self.norm(start)
        if p is None:
            return None
        out = [p]
        for mv in moves:
            if mv[0] == 't':
                nxt = (p[0] + mv[1][0] + mv[2][0], p[1] + mv[1][1] + mv[2][1])
            else:
                nxt = (p[0] + 2 * mv[1][0], p[1] + 2 * mv[1][1])
            p = self.norm(nxt)
            if p is None:
                return None
            if mv[0] != 'g':
                if p in out:
                    return None
                out.append(p)
        return out


DIRS = ((0, 1), (1, 0), (0, -1), (-1, 0))


def compositions(total, parts):
    if parts == 1:
        yield (total,)
        return
    for first in range(1, total - parts + 2):
        for rest in compositions(total - first, parts - 1):
            yield (first,) + rest


def structured_supports(geo, t, max_line_subsets=4000):
    """supports of weight exactly t (tuples of qubit indices) with a class label, each support once:
       line   every t-subset of every lattice row and column: contiguous chains at every offset (centred between
              opposite boundaries, touching a boundary, wrapping round the torus), chains with gaps, chains split
              into two (or more) pieces at every separation;
       bent   chains with one turn (L) at every position / orientation / arm length, and with two turns (S and U
              shapes) when t >= 3."""
    seen = set()

    def emit(label, ps):
        qs = tuple(sorted(geo.qubit(p) for p in ps))
        if len(set(qs)) != t or qs in seen:
            return None
        seen.add(qs)
        return label, qs

    if t < 1:
        return
    for axis, ps in geo.lines():
        if len(ps) < t:
            continue
        if math.comb(len(ps), t) <= max_line_subsets:
            combos = itertools.combinations(range(len(ps)), t)
        else:  # very long lines: contiguous and two-piece chains only
            L = len(ps)
            combos = set()
            for a in range(1, t + 1):
                for o in range(L):
                    for g in range(0 if a == t else 1, L):
                        idx = [o + k for k in range(a)] + [o + a + g + k for k in range(t - a)]
                        idx = [i % L for i in idx] if geo.wrap else idx
                        if max(idx) < L and len(set(idx)) == t:
                            combos.add(tuple(sorted(idx)))
            combos = sorted(combos)
        for idx in combos:
            x = emit(axis, [ps[i] for i in idx])
            if x:
                yield x
    if t < 2:
        return
    for s0 in geo.sites:
        for u in DIRS:
            for v in DIRS:
                if u[0] * v[0] + u[1] * v[1] != 0:
                    continue
                shapes = []
                for a, b in compositions(t, 2):     # L: a qubits along u, b along v
                    shapes.append([('s', u)] * (a - 1) + [('t', u, v)] + [('s', v)] * (b - 1))
                if t >= 3:
                    for a, b, c in compositions(t, 3):
                        for w in (u, (-u[0], -u[1])):  # S (onwards along u) and U (back along -u)
                            shapes.append([('s', u)] * (a - 1) + [('t', u, v)] + [('s', v)] * (b - 1) +
                                          [('t', v, w)] + [('s', w)] * (c - 1))
                for moves in shapes:
                    ps = geo.walk(s0, moves)
                    if ps is not None and len(ps) == t:
                        x = emit('bent', ps)
                        if x:
                            yield x


def structured_errors(rng, geo, n, t, y_fraction=1.0, paired=False):
    """errors built from the structured supports.  Yields (label, error).
    paired=False: X-only and Z-only on every support, Y on every support (or a seeded fraction), and the mixed
      combination X on a row support with Z on a column support (and vice versa), paired by a seeded shuffle so that
      every row support and every column support occurs in a mixed error.
    paired=True (quick tier, half the decodes): every support S_i once as the X-component and once as the
      Z-component of an error  X on S_i * Z on S_j,  j a seeded rotation that pairs row supports with column supports
      wherever possible (both components have weight exactly t: the error is in the domain of C14 and, the X and Z
      sectors being matched separately, fails iff one of its components does; a failure is shrunk to the failing
      component by `sweep`), plus Y on a seeded fraction."""
    sup = list(structured_supports(geo, t))
    if paired:
        groups = {'row': [], 'col': [], 'bent': []}
        for label, qs in sup:
            groups[label].append((label, qs))
        for g in groups.values():
            rng.shuffle(g)
        order = groups['row'] + groups['col'] + groups['bent']
        k = len(groups['row']) or len(order) // 2
        for (la, a), (lb, b) in zip(order, order[k:] + order[:k]):
            yield 'paired/X{}+Z{}'.format(la, lb), err_from_supports(n, a, b)
        for label, qs in order:
            if rng.random() < y_fraction:
                yield label + '/Y', err_from_supports(n, qs, qs)
        return
    for label, qs in sup:
        yield label + '/X', err_from_supports(n, qs, ())
        yield label + '/Z', err_from_supports(n, (), qs)
        if y_fraction >= 1.0 or rng.random() < y_fraction:
            yield label + '/Y', err_from_supports(n, qs, qs)
    rows = [qs for label, qs in sup if label == 'row']
    cols = [qs for label, qs in sup if label == 'col']
    if rows and cols:
        rng.shuffle(rows); rng.shuffle(cols)
        for i in range(max(len(rows), len(cols))):
            a, b = rows[i % len(rows)], cols[i % len(cols)]
            yield 'mixed/Xrow+Zcol', err_from_supports(n, a, b)
            a, b = rows[(i + 1) % len(rows)], cols[i % len(cols)]
            yield 'mixed/Zrow+Xcol', err_from_supports(n, b, a)


# ------------------------------------------------------------------------------------------ the sweep (part b)

def decode_real(decoder, code, syndrome, limit):
    try:
        with core.TimeLimit(limit):
            return decoder.decode(code, syndrome), None
    except core.TimeLimit.Expired:
        raise core.Infra('real decode exceeded {} s: {!r} on {!r}'.format(limit, decoder, code))
    except Exception as ex:  # a raising decoder does not recover
        return None, repr(ex)[:200]


def fail_key(dec_recipe, code_recipe, e, t):
    if dec_recipe[0] == 'NaiveDecoder' and code_recipe[0] in ('five', 'steane') and wt(e) > t:
        return KNOWN_KEY
    return 'C14.{}.{}'.format(dec_recipe[0], code_recipe[0])


def check_one(code, decoder, S, L, e, limit=30):
    """the property on the real code for one error: returns (ok, recovery or None, note)"""
    from qecsim import paulitools as pt
    s = pt.bsp(np.array(e, dtype=int), code.stabilizers.T)
    r, exc = decode_real(decoder, code, s, limit)
    if exc is not None:
        return False, None, 'decode raised ' + exc
    if r is None:
        return False, None, 'decode returned None'
    r = np.asarray(r)
    if r.shape != (2 * n_of(code),) or not np.isin(r, (0, 1)).all():
        return False, None, 'recovery is not a binary vector of length 2n: {!r}'.format(r)[:200]
    x = (r.astype(int) ^ np.asarray(e, dtype=int))
    ok = not sp(x, S).any() and not sp(x, L).any()
    return ok, r.astype(int), ''


class Batcher:
    """collects (error, recovery, verdict, certificate) of one code and queues the Lean `corrected` / `inspan` cases"""

    def __init__(self, ctx, code_recipe, dec_recipe, S, L, kind_suffix=''):
        self.ctx, self.code_recipe, self.dec_recipe = ctx, code_recipe, dec_recipe
        self.S, self.sS, self.sL = S, mat(S), mat(L)
        self.span = Span(S)
        self.suffix = kind_suffix
        self.pend = []

    def add(self, e, r, ok):
        """returns the final verdict (ok and a span certificate exists)"""
        x = e ^ r
        c = self.span.cert(x) if ok else None
        if ok and c is None:
            # commutes with S and L but is not a product of stabilizers: the code is not a valid [[n,k]] code (C07)
            self.ctx.monitor_fail('recovery^error commutes with stabilizers and logicals but is not in their span',
                                  {'kind': 'correct', 'code': self.code_recipe, 'decoder': self.dec_recipe,
                                   'error': pauli_str(e)}, key='C14.span.' + self.code_recipe[0])
        self.pend.append((e, r, ok and c is not None, c if c is not None else [0] * len(self.S)))
        if len(self.pend) >= BATCH:
            self.flush()

    def flush(self):
        pend, ctx = self.pend, self.ctx
        if not pend:
            return
        nontriv = any(p[0].any() for p in pend)
        ctx.case('c14 corrected {} {} {}'.format(self.sS, self.sL,
                                                 ','.join(bits(e) + ':' + bits(r) for e, r, _, _ in pend)),
                 ''.join('1' if ok else '0' for _, _, ok, _ in pend), nontrivial=nontriv,
                 meta={'kind': 'corrected' + self.suffix, 'code': self.code_recipe, 'decoder': self.dec_recipe})
        ctx.case('c14 inspan {} {}'.format(self.sS, ','.join(bits(e ^ r) + ':' + bits(c) for e, r, _, c in pend)),
                 ''.join('1' if ok else '0' for _, _, ok, _ in pend), nontrivial=nontriv,
                 meta={'kind': 'inspan' + self.suffix, 'code': self.code_recipe, 'decoder': self.dec_recipe})
        self.pend = []


def sweep(ctx, code_recipe, dec_recipe, errors, exhaustive, part, stats):
    """errors: iterable of error vectors or of (class label, error vector)"""
    code = make_code(code_recipe); decoder = make_decoder(dec_recipe)
    n, k, d = code.n_k_d
    t = (d - 1) // 2
    S = np.array(code.stabilizers, dtype=int); L = logicals_of(code)
    batch = Batcher(ctx, code_recipe, dec_recipe, S, L)
    tag = tag_of(code_recipe)
    n_err = n_fail = n_known = 0
    classes = collections.Counter()

    for item in errors:
        label, e = item if isinstance(item, tuple) else ('placement', item)
        n_err += 1
        classes[label] += 1
        ok, r, note = check_one(code, decoder, S, L, e)
        xw, zw = int(e[:n].sum()), int(e[n:].sum())
        ctx.count(part + '_xw_zw_of_t', '{},{} t={}'.format(xw, zw, t))
        if xw > t or zw > t:
            raise core.Infra('generator left the domain of C14: {} on {} (t={})'.format(pauli_str(e), tag, t))
        if not ok and e[:n].any() and e[n:].any():
            # shrink a failing mixed error to a failing single-type component (fresh decoder object)
            for part_e in (np.concatenate((e[:n], 0 * e[n:])), np.concatenate((0 * e[:n], e[n:]))):
                ok2, r2, note2 = check_one(code, make_decoder(dec_recipe), S, L, part_e)
                if not ok2:
                    label, e, r, note = label + ' (shrunk to one component)', part_e, r2, note2
                    xw, zw = int(e[:n].sum()), int(e[n:].sum())
                    break
        if not ok:
            key = fail_key(dec_recipe, code_recipe, e, t)
            n_fail += 1
            n_known += (key == KNOWN_KEY)
            ctx.monitor_fail(
                'C14 fails on the real code: {} on {} does not correct {} (|X|={} |Z|={} weight={} t={}){}'.format(
                    dec_recipe[0], tag, pauli_str(e), xw, zw, wt(e), t, ': ' + note if note else ''),
                {'kind': 'correct', 'code': code_recipe, 'decoder': dec_recipe, 'error': pauli_str(e), 't': t,
                 'class': label, 'recovery': None if r is None else pauli_str(r)}, key=key)
        if r is not None:
            batch.add(e, r, ok)
    batch.flush()
    ctx.count(part + '_code', tag)
    for label, c in classes.items():
        ctx.hist[part + '_error_class'][label] += c
    st = stats.setdefault(part, {'evaluations': 0, 'exhaustive_codes': [], 'sampled_codes': [], 'failures': 0,
                                 'known_failures': 0, 'per_code': {}})
    st['evaluations'] += n_err; st['failures'] += n_fail; st['known_failures'] += n_known
    st['per_code'][tag] = {'n': int(n), 'd': int(d), 't': int(t), 'errors': n_err, 'exhaustive': bool(exhaustive),
                           'failures': n_fail, 'classes': dict(classes)}
    (st['exhaustive_codes'] if exhaustive else st['sampled_codes']).append(tag)


def random_single_type(rng, n, t, count):
    """seeded sample of single-type placements of weight exactly t (for spaces too large to enumerate)"""
    for _ in range(count):
        qs = rng.sample(range(n), t)
        kind = rng.choice('XZY')
        yield err_from_supports(n, qs if kind in 'XY' else (), qs if kind in 'ZY' else ())


def lattice_errors(ctx, recipe, n, t, budget, mixed, structured_only=False):
    """(iterator of errors / (class, error), exhaustive?) for one lattice code"""
    space = n_subsets_upto(n, t) ** 2
    if space <= budget:
        return component_errors(n, t), True
    geo = Geo(recipe)
    n_single = 3 * n_subsets_upto(n, t)
    n_tot = sum(math.comb(n, w) * 3 ** w for w in range(t + 1))
    if t < 2:
        structured = iter(())
    elif structured_only:
        structured = structured_errors(ctx.rng, geo, n, t, y_fraction=0.25, paired=True)
    else:
        structured = structured_errors(ctx.rng, geo, n, t, y_fraction=ctx.scale(0.25, 1.0))
    if structured_only:
        base = iter([err_from_supports(n, (), ())])   # the weight-t errors are the structured ones (+ mixed samples)
    elif not ctx.quick() and n_tot <= budget:
        base = total_weight_errors(n, t)          # every Pauli of total weight <= t
    elif n_single <= budget:
        base = single_type_errors(n, t)           # every X-only / Z-only / Y-only placement of weight <= t
        structured = (x for x in structured if x[0].startswith('mixed/'))   # the single-type ones are in `base`
    else:
        base = itertools.chain(single_type_errors(n, t - 1), random_single_type(ctx.rng, n, t, budget // 2))
    return itertools.chain(base, structured, random_mixed(ctx.rng, n, t, mixed)), False


# ------------------------------------------------------------------------------------------ the naive tie (part a)

def minweight_table(S, n):
    """brute force: syndrome (as bytes) -> minimum weight over all 4^n Paulis (n <= 8)"""
    S = np.array(S, dtype=np.int64).reshape(-1, 2 * n)
    N = 4 ** n
    idx = np.arange(N, dtype=np.int64)
    V = ((idx[:, None] >> np.arange(2 * n)) & 1).astype(np.int64)
    W = np.count_nonzero(V[:, :n] | V[:, n:], axis=1)
    syn = sp(V, S) if len(S) else np.zeros((N, 0), dtype=np.int64)
    keys = syn.dot(1 << np.arange(syn.shape[1], dtype=np.int64)) if syn.shape[1] else np.zeros(N, dtype=np.int64)
    best = {}
    order = np.argsort(W, kind='stable')
    for i in order:
        k = int(keys[i])
        if k not in best:
            best[k] = int(W[i])
    return best


def syn_key(s):
    return int(sum(int(b) << i for i, b in enumerate(s)))


def naive_outcome(code, mq_args, syndrome, limit=120, dec=None):
    from qecsim.models.generic import NaiveDecoder
    if dec is None:
        dec = NaiveDecoder(*mq_args)
    try:
        with core.TimeLimit(limit):
            r = dec.decode(code, np.array(syndrome, dtype=int))
    except core.TimeLimit.Expired:
        raise core.Infra('NaiveDecoder.decode exceeded {} s on {!r}'.format(limit, code))
    except ValueError:
        return 'ValueError', None
    except Exception as ex:
        return type(ex).__name__, None
    if r is None:
        return 'None', None
    return 'ok ' + bits(r), np.asarray(r, dtype=int)


def mq_wire(mq_args):
    if not mq_args:
        return '10'
    v = mq_args[0]
    return 'N' if (v is None or v is False) else str(int(v))


def minweight_monitor(ctx, code_recipe, code, table, syndrome, out, r):
    """second sentence of C14 on the real code: the recovery has the syndrome and minimum weight; None iff impossible"""
    S = np.array(code.stabilizers, dtype=int)
    n = n_of(code)
    bad = None
    want = table.get(syn_key(syndrome)) if len(syndrome) == len(S) else None
    if out == 'None':
        if want is not None:
            bad = 'returned None although an operator of weight {} has the syndrome'.format(want)
    elif r is not None:
        if len(r) != 2 * n or list(sp(r, S)[0]) != [int(b) for b in syndrome]:
            bad = 'recovery {} does not have the given syndrome'.format(pauli_str(r))
        elif wt(r) != want:
            bad = 'recovery {} has weight {} but the minimum is {}'.format(pauli_str(r), wt(r), want)
    else:
        bad = 'decode raised ' + out
    if bad:
        ctx.monitor_fail('C14 (min-weight clause) fails on the real code: NaiveDecoder on {}, syndrome {}: {}'.format(
            tag_of(code_recipe), bits(syndrome), bad),
            {'kind': 'minweight', 'code': code_recipe, 'syndrome': bits(syndrome)}, key='C14.NaiveDecoder.min-weight')
    return bad


CUSTOM_BASIC = [
    ('basic', ['Z'], [], []),
    ('basic', ['ZI', 'IZ'], [], []),
    ('basic', ['XX', 'ZZ'], [], []),
    ('basic', ['ZZI', 'IZZ'], ['XXX'], ['ZII']),
    ('basic', ['XXXX', 'ZZZZ'], ['XXII', 'XIXI'], ['ZIZI', 'ZZII']),
    ('basic', ['YYI', 'IYY', 'XXX'], [], []),
]


def naive_tie(ctx, stats):
    rng = ctx.rng
    recipes = [('five',), ('steane',), ('planar', 2, 2), ('planar', 2, 3), ('planar', 3, 2), ('toric', 2, 2)] + \
        CUSTOM_BASIC
    n_cases = 0
    sampled = []
    for recipe in recipes:
        code = make_code(recipe)
        n = n_of(code)
        S = np.array(code.stabilizers, dtype=int).reshape(-1, 2 * n)
        m = len(S)
        table = minweight_table(S, n)
        sS = mat(S)
        allsyn = [list(s) for s in itertools.product((0, 1), repeat=m)]
        sat = [s for s in allsyn if syn_key(s) in table]
        unsat = [s for s in allsyn if syn_key(s) not in table]
        # unsatisfiable syndromes make the real decoder enumerate all 4^n Paulis (seconds for n = 8): bounded number
        slow = 4 ** n > 20000
        n_unsat = len(unsat) if not slow else ctx.scale(1, 24)
        chosen = sat + (unsat if len(unsat) <= n_unsat else rng.sample(unsat, n_unsat))
        if len(unsat) > n_unsat:
            sampled.append(tag_of(recipe))
        # wrong-length syndromes: np.array_equal is False for every candidate -> None
        wrong = [[0] * (m + 1), [1] * max(m - 1, 0)] if not slow else ([[0] * (m + 1)] if not ctx.quick() else [])
        for s in chosen + wrong:
            out, r = naive_outcome(code, (None,) if n > 10 else (), s)
            ctx.case('c14 naive {} {} {} {}'.format('N' if n > 10 else '10', sS, n, bits(s)), out,
                     nontrivial=any(s), meta={'kind': 'naive', 'code': recipe, 'syndrome': bits(s)})
            minweight_monitor(ctx, recipe, code, table, s, out, r)
            ctx.count('naive_outcome', out.split()[0] + (' wt={}'.format(wt(r)) if r is not None else ''))
            n_cases += 1
        ctx.count('naive_code', tag_of(recipe))
    # max_qubits guard
    guards = [(('steane',), (5,)), (('steane',), (7,)), (('steane',), (6,)), (('five',), (5,)), (('five',), (4,)),
              (('five',), (0,)), (('five',), (None,)), (('five',), (False,)), (('five',), (1,)),
              (('planar', 3, 3), ()), (('planar', 3, 3), (12,)), (('toric', 3, 3), ()), (('planar', 2, 3), (8,)),
              (('planar', 2, 3), (7,)), (('five',), (True,)), (('five',), (np.int64(5),))]
    for recipe, mq in guards:
        code = make_code(recipe)
        n = n_of(code)
        S = np.array(code.stabilizers, dtype=int)
        s = [0] * len(S)
        s[rng.randrange(len(S))] = 1
        # only run guards whose decode terminates quickly: guard raises, or n <= 8
        will_raise = bool(mq_value(mq)) and n > mq_value(mq)
        if not will_raise and n > 8:
            continue
        out, r = naive_outcome(code, mq, s)
        ctx.case('c14 naive {} {} {} {}'.format(mq_wire(mq), mat(S), n, bits(s)), out,
                 meta={'kind': 'naive-guard', 'code': recipe, 'max_qubits': repr(mq), 'syndrome': bits(s)})
        ctx.count('naive_guard', out.split()[0])
        if will_raise != (out == 'ValueError'):
            ctx.monitor_fail('NaiveDecoder max_qubits guard: documented ValueError iff n > max_qubits (truthy)',
                             {'kind': 'guard', 'code': recipe, 'max_qubits': repr(mq), 'outcome': out},
                             key='C14.NaiveDecoder.max_qubits')
        n_cases += 1
    stats['naive_tie'] = {'evaluations': n_cases, 'exhaustive': not sampled, 'unsatisfiable_sampled_for': sampled,
                          'rule': 'every satisfiable syndrome of each listed code; unsatisfiable ones all (n<=7) or sampled'}


def mq_value(mq):
    if not mq:
        return 10
    v = mq[0]
    return 0 if (v is None or v is False) else int(v)


# ------------------------------------------------------------------------------------------ decoder histories (c)
#
# The property quantifies over decoders and codes, not over freshly built decoder objects: one decoder instance that
# serves several codes in turn (what a script looping over codes does) must still correct every in-domain error.
# A history is a list of steps [code recipe, 'e', Pauli string] (decode the syndrome of this error; the clause
# "recovery xor error is a stabilizer product", for the naive decoder also the min-weight clause) or
# [code recipe, 's', syndrome bits] (naive decoder only: the min-weight / None-iff-unsatisfiable clause).

_INFO = {}


def norm_recipe(recipe):
    return tuple(tuple(x) if isinstance(x, (list, tuple)) else x for x in recipe)


def code_info(recipe):
    recipe = norm_recipe(recipe)
    if recipe not in _INFO:
        code = make_code(recipe)
        n = n_of(code)
        d = code.n_k_d[2]
        S = np.array(code.stabilizers, dtype=int).reshape(-1, 2 * n)
        try:
            L = logicals_of(code)
        except ValueError:      # BasicCode without logical operators
            L = np.zeros((0, 2 * n), dtype=int)
        _INFO[recipe] = {'recipe': recipe, 'code': code, 'n': n, 'S': S, 'L': L,
                         't': None if d is None else (d - 1) // 2, 'table': None}
    return _INFO[recipe]


def table_of(info):
    if info['table'] is None:
        info['table'] = minweight_table(info['S'], info['n'])
    return info['table']


class _Sink:
    def __init__(self):
        self.msg = None

    def monitor_fail(self, what, inp, key=None):
        self.msg = what


def eval_step(decoder, dec_recipe, step):
    """the property for one history step, answered by THIS decoder object.
    -> dict ok (all clauses), corrected (None for syndrome steps), out (answer as a string), r, e, s, note"""
    info = code_info(step[0])
    code, S, L, n = info['code'], info['S'], info['L'], info['n']
    kind, payload = step[1], step[2]
    res = {'ok': True, 'corrected': None, 'out': None, 'r': None, 'e': None, 's': None, 'note': ''}
    if kind == 'e':
        e = from_pauli(payload)
        s = [int(b) for b in sp(e, S)[0]] if len(S) else []
        res['e'] = e
    else:
        s = [] if payload == '_' else [int(c) for c in payload]
    res['s'] = s
    if dec_recipe[0] == 'NaiveDecoder':
        out, r = naive_outcome(code, (), s, dec=decoder)
        res['out'], res['r'] = out, r
        if n <= 8:
            sink = _Sink()
            bad = minweight_monitor(sink, info['recipe'], code, table_of(info), s, out, r)
            if bad:
                res['ok'] = False; res['note'] = 'min-weight clause: ' + bad
        if kind == 'e':
            good = r is not None and len(r) == 2 * n and not sp(r ^ e, S).any() and not sp(r ^ e, L).any()
            res['corrected'] = bool(good)
            if not good:
                res['ok'] = False
                res['note'] = ('recovery^error is not a stabilizer product' if r is not None else 'answer ' + out) + \
                    ('; ' + res['note'] if res['note'] else '')
        return res
    ok, r, note = check_one(code, decoder, S, L, res['e'])
    res.update(ok=bool(ok), corrected=bool(ok), r=r, note=note or ('' if ok else 'recovery^error is not a stabilizer product'),
               out='raised/None' if r is None else 'ok ' + bits(r))
    return res


def replay_history(dec_recipe, steps):
    """one decoder instance answers all steps in order -> list of eval_step results"""
    dec = make_decoder(tuple(dec_recipe))
    return [eval_step(dec, tuple(dec_recipe), st) for st in steps]


def minimize_history(dec_recipe, steps, i):
    """a short history that still ends in the failure of step i: the step alone, one earlier step + it, or the prefix"""
    if not replay_history(dec_recipe, [steps[i]])[-1]['ok']:
        return [steps[i]]
    for j in range(i):
        if not replay_history(dec_recipe, [steps[j], steps[i]])[-1]['ok']:
            return [steps[j], steps[i]]
    return list(steps[:i + 1])


def describe_history(dec_recipe, steps, res):
    last = steps[-1]
    return ('C14 fails on the real code after a decoder history: one {} instance, after answering {} earlier step(s) '
            '({}), does not handle {} {} on {}: {} (answer {})'.format(
                dec_recipe[0], len(steps) - 1,
                ', '.join('{}:{}'.format(tag_of(norm_recipe(st[0])), st[2]) for st in steps[:-1][:3]) or 'none',
                'error' if last[1] == 'e' else 'syndrome', last[2], tag_of(norm_recipe(last[0])), res['note'],
                (res['out'] or '')[:120]))


def history_failure(dec_recipe, steps, upto=None):
    """replays the history; a dict (with a minimised history) when some step fails the property, else None"""
    steps = [list(st) for st in steps]
    if upto is not None:
        steps = steps[:upto + 1]
    results = replay_history(dec_recipe, steps)
    for i, res in enumerate(results):
        if not res['ok']:
            mini = minimize_history(dec_recipe, steps, i)
            r2 = replay_history(dec_recipe, mini)[-1]
            return {'what': describe_history(dec_recipe, mini, r2), 'kind': 'history', 'decoder': list(dec_recipe),
                    'steps': mini, 'failing_step': i}
    return None


def recipe_json(recipe):
    return [list(x) if isinstance(x, (list, tuple)) else x for x in recipe]


def naive_history_steps(ctx):
    """all codes small enough for brute force, visited in one order and then in the reverse order, so that every
    code is decoded after every other one; several pairs have equally long syndromes (planar 2x2 / five-qubit: 4,
    planar 2x3 / 3x2: 7, the two-generator basic codes), others differ"""
    rng = ctx.rng
    recipes = [norm_recipe(x) for x in (
        ('planar', 2, 2), ('five',), CUSTOM_BASIC[2], CUSTOM_BASIC[1], CUSTOM_BASIC[3], CUSTOM_BASIC[4],
        ('steane',), ('planar', 2, 3), ('planar', 3, 2))]
    per_code = {}
    for recipe in recipes:
        info = code_info(recipe)
        n, S, t = info['n'], info['S'], info['t']
        m = len(S)
        table = table_of(info)
        allsyn = [list(x) for x in itertools.product((0, 1), repeat=m)]
        sat = [x for x in allsyn if syn_key(x) in table]
        unsat = [x for x in allsyn if syn_key(x) not in table]
        if n > 7:       # naive decode costs up to 4^n candidates: bounded number of heavy syndromes
            light = [x for x in sat if table[syn_key(x)] <= 1]
            heavy = [x for x in sat if table[syn_key(x)] > 1]
            sat = light + rng.sample(heavy, min(len(heavy), ctx.scale(5, 40)))
            unsat = []
        elif 4 ** n > 2000:
            unsat = unsat[:ctx.scale(2, 8)]
        st = [[recipe_json(recipe), 's', bits(x)] for x in sat + unsat]
        if t is not None:
            st += [[recipe_json(recipe), 'e', pauli_str(e)] for e in total_weight_errors(n, t)]
        per_code[recipe] = st
    steps = []
    for order in (recipes, recipes[::-1]):
        for recipe in order:
            st = list(per_code[recipe])
            rng.shuffle(st)
            # a syndrome of the previous code (other length) is not a syndrome of this one: the answer must be None
            if steps and len(code_info(steps[-1][0])['S']) != len(code_info(recipe)['S']) and steps[-1][1] == 's':
                st.insert(len(st) // 2, [recipe_json(recipe), 's', steps[-1][2]])
            steps += st
    return steps


def mwpm_history_steps(ctx, fam):
    """one MWPM decoder instance serving lattices of different sizes in a seeded interleaved order (R x C and C x R
    have equally long syndromes), each step a structured weight-t chain or a mixed sample"""
    rng = ctx.rng
    sizes = [(3, 3), (3, 5), (5, 3), (4, 4), (5, 5), (4, 6), (6, 4), (5, 6), (6, 5), (5, 7), (7, 5), (7, 7), (2, 2)]
    pools = {}
    for (R, C) in sizes:
        recipe = (fam, R, C)
        info = code_info(recipe)
        pools[recipe] = [e for _, e in structured_errors(rng, Geo(recipe), info['n'], info['t'], 1.0)] \
            if info['t'] >= 1 else []
    steps = []
    for rnd in range(ctx.scale(40, 120)):
        order = list(pools)
        rng.shuffle(order)
        for recipe in order:
            info = code_info(recipe)
            pool = pools[recipe]
            if pool and rng.random() < 0.7:
                e = pool[rng.randrange(len(pool))]
            else:
                e = next(random_mixed(rng, info['n'], info['t'], 1))
            steps.append([recipe_json(recipe), 'e', pauli_str(e)])
    return steps


def run_history(ctx, dec_recipe, steps, out_stats):
    shared = make_decoder(dec_recipe)
    naive = dec_recipe[0] == 'NaiveDecoder'
    batchers = {}
    fresh_cache = {}
    differ = failures = 0
    codes = collections.Counter()
    for i, st in enumerate(steps):
        info = code_info(st[0])
        res = eval_step(shared, dec_recipe, st)
        fkey = (info['recipe'], st[1], st[2])
        if fkey not in fresh_cache:     # a fresh instance's answer to this step (the same step may recur in a history)
            fresh_cache[fkey] = eval_step(make_decoder(dec_recipe), dec_recipe, st)
        fresh = fresh_cache[fkey]
        codes[tag_of(info['recipe'])] += 1
        same = res['out'] == fresh['out']
        differ += (not same)
        ctx.count('history_' + dec_recipe[0], '{} step={} same_as_fresh={}'.format(tag_of(info['recipe']), st[1], same))
        if naive:
            # the shared instance's answer against the Lean model of the naive decoder
            ctx.case('c14 naive 10 {} {} {}'.format(mat(info['S']), info['n'], bits(res['s'])), res['out'],
                     nontrivial=any(res['s']),
                     meta={'kind': 'history', 'decoder': list(dec_recipe), 'steps': steps, 'index': i})
        if st[1] == 'e' and res['r'] is not None and len(res['r']) == 2 * info['n']:
            b = batchers.get(info['recipe'])
            if b is None:
                b = batchers[info['recipe']] = Batcher(ctx, info['recipe'], dec_recipe, info['S'], info['L'], '-history')
            b.add(res['e'], np.asarray(res['r'], dtype=int), bool(res['corrected']))
        if not res['ok']:
            failures += 1
            mini = minimize_history(dec_recipe, steps, i)
            r2 = replay_history(dec_recipe, mini)[-1]
            ctx.monitor_fail(describe_history(dec_recipe, mini, r2),
                             {'kind': 'history', 'code': recipe_json(info['recipe']), 'decoder': list(dec_recipe),
                              'steps': mini, 'fresh_instance_answer': fresh['out'], 'fresh_instance_ok': fresh['ok']},
                             key='C14.history.' + dec_recipe[0])
            break   # the instance's state is now known to be bad: one concrete history is enough
    for b in batchers.values():
        b.flush()
    out_stats[dec_recipe[0]] = {'steps': len(steps), 'codes': dict(codes), 'answers_differing_from_fresh_instance': differ,
                                'failures': failures}


def histories(ctx, stats):
    hs = {}
    run_history(ctx, ('NaiveDecoder',), naive_history_steps(ctx), hs)
    for fam, dec in (('planar', 'PlanarMWPMDecoder'), ('toric', 'ToricMWPMDecoder')):
        run_history(ctx, (dec,), mwpm_history_steps(ctx, fam), hs)
    stats['histories'] = hs


# ------------------------------------------------------------------------------------------ run

def run(ctx):
    stats = {}
    naive_tie(ctx, stats)
    # (b1) basic codes with the naive decoder: every error with |X|<=t and |Z|<=t (contains the D5 errors)
    for recipe in (('five',), ('steane',)):
        code = make_code(recipe)
        n, k, d = code.n_k_d
        sweep(ctx, recipe, ('NaiveDecoder',), component_errors(n, (d - 1) // 2), True, 'naive_basic', stats)
    for recipe in (('planar', 2, 2), ('planar', 2, 3), ('planar', 3, 2), ('toric', 2, 2)):
        code = make_code(recipe)
        n, k, d = code.n_k_d
        sweep(ctx, recipe, ('NaiveDecoder',), component_errors(n, (d - 1) // 2), True, 'naive_lattice_t0', stats)
    # (b2) MWPM decoders: sizes 2..5 as before; sizes up to 7x7 (both orientations of every non-square size) with the
    # structured weight-t chains (quick: structured + single-qubit + a few mixed samples only)
    budget = ctx.scale(20000, 120000)
    mixed = ctx.scale(1000, 30000)
    top = 5
    sizes = [(R, C) for R in range(2, top + 1) for C in range(2, top + 1)]
    extra = [(5, 6), (6, 5), (5, 7), (7, 5), (6, 7), (7, 6), (7, 7)] + ([] if ctx.quick() else [(6, 6)])
    huge = [] if ctx.quick() else [(8, 8), (7, 9), (9, 7), (9, 9)]
    for fam, dec in (('planar', 'PlanarMWPMDecoder'), ('toric', 'ToricMWPMDecoder')):
        for (R, C) in sizes + extra + huge:
            recipe = (fam, R, C)
            code = make_code(recipe)
            n, k, d = code.n_k_d
            t = (d - 1) // 2
            if (R, C) in sizes:
                errs, exh = lattice_errors(ctx, recipe, n, t, budget, mixed)
            elif (R, C) in extra:
                errs, exh = lattice_errors(ctx, recipe, n, t, 15000, ctx.scale(100, 4000), structured_only=ctx.quick())
            else:
                errs, exh = lattice_errors(ctx, recipe, n, t, 15000, 2000, structured_only=True)
            sweep(ctx, recipe, (dec,), errs, exh, fam + '_mwpm', stats)
    # (c) decoder-object histories
    histories(ctx, stats)
    ctx.explored = {}
    for part, st in stats.items():
        if part in ('naive_tie', 'histories'):
            continue
        ctx.explored[part] = {
            'evaluations': st['evaluations'],
            'rule': 'real decode of the real syndrome of each generated error; verdict recovery^error commutes with '
                    'all stabilizers and logicals (Python, independent symplectic product) = Lean `corrected`, and a '
                    'Lean-checked span certificate',
            'exhaustive': not st['sampled_codes'],
            'exhaustive_codes': st['exhaustive_codes'], 'sampled_codes': st['sampled_codes'],
            'failures': st['failures'], 'known_failures': st['known_failures'], 'per_code': st['per_code']}
    ctx.explored['histories'] = {
        'evaluations': sum(h['steps'] for h in stats['histories'].values()),
        'rule': 'one decoder instance answers a seeded sequence of (code, error | syndrome) steps over codes of different '
                'family and size, with equal and with different syndrome lengths; the property is evaluated on every '
                'answer (naive: also against the Lean model) and each answer is compared with a fresh instance',
        'exhaustive': False, 'per_decoder': stats['histories']}
    ctx.extra['naive_tie'] = stats['naive_tie']
    ctx.extra['decodes'] = sum(st['evaluations'] for p, st in stats.items() if p not in ('naive_tie', 'histories'))
    ctx.exhaustive = False
    ctx.assumptions = [
        'networkx max_weight_matching (behind gt.mwpm) is not modelled: the MWPM decoders are explored on the real '
        'code, not proved; C13 compares it with a verified optimum',
        'the MWPM theorems take matching minimality (C13), path weight = distance (C15), distance (C08) and the '
        'chain-to-matching bound as hypotheses',
        'numpy integer arithmetic for the independent symplectic product and Gaussian elimination in the harness',
    ]
    return ctx.finish(RULE, search=search, explanation=(
        'proved: naive decoder min-weight + corrects total weight <= t (generic) + D5 counterexample + MWPM split/'
        'reduction under named hypotheses; explored: MWPM decoders on every correctable error of small sizes '
        '(see coverage.explored.*.exhaustive_codes) and samples of larger ones'))


# ------------------------------------------------------------------------------------------ search / replay

def recheck(inp):
    """evaluate the property on the current real code for a recorded input; returns a dict when it fails"""
    if inp.get('kind') == 'history':
        return history_failure(tuple(inp['decoder']), inp['steps'])
    recipe = tuple(inp['code'])
    recipe = tuple(list(x) if isinstance(x, (list, tuple)) else x for x in recipe)
    code = make_code(recipe)
    n = n_of(code)
    S = np.array(code.stabilizers, dtype=int).reshape(-1, 2 * n)
    if inp.get('kind') == 'correct':
        L = logicals_of(code)
        dec = make_decoder(tuple(inp['decoder']))
        e = from_pauli(inp['error'])
        ok, r, note = check_one(code, dec, S, L, e)
        if not ok:
            return {'what': 'C14 fails: recovery^error is not a stabilizer product', 'code': tag_of(recipe),
                    'decoder': inp['decoder'][0], 'error': inp['error'], 'weight': wt(e),
                    'recovery': None if r is None else pauli_str(r), 'note': note}
        return None
    if inp.get('kind') in ('minweight', 'naive'):
        if n > 8:
            return None
        s = [int(c) for c in inp['syndrome']] if inp['syndrome'] != '_' else []
        table = minweight_table(S, n)
        out, r = naive_outcome(code, (), s)

        class Sink:
            def __init__(self): self.msg = None
            def monitor_fail(self, what, i, key=None): self.msg = what
        sink = Sink()
        minweight_monitor(sink, recipe, code, table, s, out, r)
        if sink.msg:
            return {'what': sink.msg, 'code': tag_of(recipe), 'syndrome': inp['syndrome'], 'outcome': out}
        return None
    return None


def search(m):
    meta = m.get('meta') or {}
    kind = meta.get('kind')
    if kind == 'history':
        # the shared instance's answer differs from the model: the property clauses on the history up to that step
        return history_failure(tuple(meta['decoder']), meta['steps'], upto=int(meta['index']))
    if kind == 'naive':
        # the real naive decoder differs from the model: (1) the min-weight clause on this syndrome
        r = recheck({'kind': 'naive', 'code': meta['code'], 'syndrome': meta['syndrome']})
        if r:
            return r
        # (2) the correction clause on every error of total weight <= t of this code
        code = make_code(tuple(meta['code']))
        n, k, d = code.n_k_d
        if d is None:
            return None
        S = np.array(code.stabilizers, dtype=int); L = logicals_of(code)
        dec = make_decoder(('NaiveDecoder',))
        for e in total_weight_errors(n, (d - 1) // 2):
            ok, rr, note = check_one(code, dec, S, L, e)
            if not ok:
                return {'what': 'C14 fails: NaiveDecoder does not correct an error of total weight <= t',
                        'code': tag_of(tuple(meta['code'])), 'error': pauli_str(e), 'note': note,
                        'recovery': None if rr is None else pauli_str(rr)}
    return None


def replay(ctx, path):
    body = json.load(open(path))
    bad = 0
    for v in body.get('violations', []):
        c = v.get('counterexample')
        if c and isinstance(c.get('input'), dict) and 'code' in c['input']:
            r = recheck(c['input'])
            print('replay counterexample', json.dumps(c['input'])[:300], '->', r)
            bad += bool(r)
        mm = v.get('first_mismatch')
        if mm:
            r = search(mm)
            print('replay search on', mm['op'][:100], '->', r)
            bad += bool(r)
    return 1 if bad else 0   # core.do_replay prints the VIOLATION line
