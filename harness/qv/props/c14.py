"""C14 — minimum-weight decoders correct every error within half the distance.

What is PROVED (Props/C14.lean, about Model/NaiveDecode.lean, generic in the code):
  * the naive decoder returns a minimum-weight Pauli among all operators with the given syndrome, and returns
    None exactly when no operator has it (`naive_min_weight`, `naive_none_iff`);
  * the naive decoder corrects every error of TOTAL weight <= t = (d-1)//2 for every code with the distance
    property (`naive_corrects_partial`), instantiated for the five-qubit and Steane codes;
  * the property's per-component hypothesis (|X-supp| <= t and |Z-supp| <= t) is FALSE for the naive decoder
    (`naive_mixed_support_counterexample`, five-qubit XZIII) — known finding D5;
  * MWPM reduction theorems (`mwpm_split…`, `mwpm_corrects_of_chain_bound_partial`) with the matching, path and
    distance facts of C13 / C15 / C08 as explicit hypotheses.
  The model is tied to the code by comparing `NaiveDecoder.decode` EXACTLY with the model on every syndrome of the
  small codes (incl. unsatisfiable and wrong-length syndromes and the max_qubits guard).

What is EXPLORED (not proved): that PlanarMWPMDecoder / ToricMWPMDecoder correct every error whose X- and
Z-components each have weight <= t.  All such errors are enumerated for small sizes (flag `exhaustive` per code
size in coverage.explored), all single-type placements plus seeded mixed samples for larger sizes.  The verdict
"recovery xor error commutes with all stabilizers and logicals" is computed in Python with an independent
symplectic product and confirmed by the Lean driver (`corrected`), and "is a product of stabilizers" by a Lean
certificate check (`inSpanCert`) of a certificate found by Gaussian elimination.
"""
import itertools
import json
import math

import numpy as np

from qv import core
from qv.core import bits, mat

LEVEL = 'proof'

RULE = ('(a) NaiveDecoder.decode compared exactly with the Lean model on every syndrome of the five-qubit, Steane, '
        'small planar/toric and hand-made basic codes (plus wrong-length syndromes and max_qubits guards), with a '
        'brute-force minimum-weight monitor; (b) for every planar/toric size 2..5 (thorough: ..7) and the basic codes: '
        'every Pauli error with |X-supp|<=t and |Z-supp|<=t when that space is within the tier budget, otherwise all '
        'single-type (X, Z, Y) placements of weight<=t plus seeded mixed samples; real decode of the real syndrome under '
        'a time limit; verdict recovery^error commutes with all stabilizers and logicals computed in Python and '
        'confirmed in batches by the Lean driver, plus a Lean-checked span certificate. non-trivial = batch contains a '
        'non-identity error / syndrome is non-zero; distinct = distinct protocol lines')

KNOWN_KEY = 'NaiveDecoder.basic-code.mixed-support-weight>t'
BATCH = 64


# ------------------------------------------------------------------------------------------ construction recipes

def make_code(recipe):
    from qecsim.models.basic import BasicCode, FiveQubitCode, SteaneCode
    from qecsim.models.planar import PlanarCode
    from qecsim.models.toric import ToricCode
    kind = recipe[0]
    if kind == 'planar':
        return PlanarCode(int(recipe[1]), int(recipe[2]))
    if kind == 'toric':
        return ToricCode(int(recipe[1]), int(recipe[2]))
    if kind == 'five':
        return FiveQubitCode()
    if kind == 'steane':
        return SteaneCode()
    if kind == 'basic':
        return BasicCode(tuple(recipe[1]), tuple(recipe[2]), tuple(recipe[3]))
    raise ValueError(recipe)


def make_decoder(recipe):
    from qecsim.models.generic import NaiveDecoder
    from qecsim.models.planar import PlanarMWPMDecoder
    from qecsim.models.toric import ToricMWPMDecoder
    kind = recipe[0]
    if kind == 'PlanarMWPMDecoder':
        return PlanarMWPMDecoder()
    if kind == 'ToricMWPMDecoder':
        return ToricMWPMDecoder()
    if kind == 'NaiveDecoder':
        return NaiveDecoder(*recipe[1:]) if len(recipe) > 1 else NaiveDecoder()
    raise ValueError(recipe)


def tag_of(recipe):
    return '{}({})'.format(recipe[0], ','.join(str(x) for x in recipe[1:])) if recipe[0] in ('planar', 'toric') \
        else (recipe[0] if recipe[0] != 'basic' else 'basic[' + ','.join(recipe[1]) + ']')


def n_of(code):
    return int(code.n_k_d[0])


def logicals_of(code):
    lx, lz = np.atleast_2d(code.logical_xs), np.atleast_2d(code.logical_zs)
    n2 = 2 * n_of(code)
    rows = [r for M in (lx, lz) if M.size for r in M.reshape(-1, n2)]
    return np.array(rows, dtype=int).reshape(len(rows), n2)


def sp(X, M):
    """independent symplectic product of the rows of X with the rows of M (not qecsim.paulitools)"""
    X = np.atleast_2d(np.asarray(X, dtype=np.int64)); M = np.atleast_2d(np.asarray(M, dtype=np.int64))
    n = X.shape[1] // 2
    if M.shape[0] == 0 or M.size == 0:
        return np.zeros((X.shape[0], 0), dtype=np.int64)
    return (X[:, :n].dot(M[:, n:].T) + X[:, n:].dot(M[:, :n].T)) % 2


def pauli_str(v):
    v = [int(x) for x in v]; n = len(v) // 2
    return ''.join('IXZY'[v[i] + 2 * v[n + i]] for i in range(n))


def from_pauli(s):
    return np.array([int(c in 'XY') for c in s] + [int(c in 'ZY') for c in s], dtype=int)


def wt(v):
    v = np.asarray(v); n = len(v) // 2
    return int(np.count_nonzero(v[:n] | v[n:]))


# ------------------------------------------------------------------------------------------ span certificates

class Span:
    """row space of S over GF(2) with a transform, so that a certificate (which rows to multiply) is found fast"""

    def __init__(self, S):
        S = np.array(S, dtype=np.uint8) % 2
        m = S.shape[0]
        A = S.copy(); T = np.identity(m, dtype=np.uint8)
        piv = []; r = 0
        for c in range(A.shape[1] if m else 0):
            rows = [i for i in range(r, m) if A[i, c]]
            if not rows:
                continue
            p = rows[0]
            if p != r:
                A[[r, p]] = A[[p, r]]; T[[r, p]] = T[[p, r]]
            for i in range(m):
                if i != r and A[i, c]:
                    A[i] ^= A[r]; T[i] ^= T[r]
            piv.append(c); r += 1
            if r == m:
                break
        self.S, self.A, self.T, self.piv, self.rank, self.m = S, A[:r], T[:r], piv, r, m

    def cert(self, x):
        """bit list selecting rows of S whose XOR is x, or None"""
        x = np.asarray(x, dtype=np.uint8) % 2
        if self.m == 0:
            return None if x.any() else []
        coef = x[self.piv] if self.piv else np.zeros(0, dtype=np.uint8)
        c = (coef.astype(np.int64).dot(self.T.astype(np.int64)) % 2).astype(np.uint8) if self.rank else \
            np.zeros(self.m, dtype=np.uint8)
        if not np.array_equal(c.astype(np.int64).dot(self.S.astype(np.int64)) % 2, x):
            return None
        return [int(b) for b in c]


# ------------------------------------------------------------------------------------------ error generators

def subsets_upto(n, t):
    for w in range(t + 1):
        for qs in itertools.combinations(range(n), w):
            yield qs


def n_subsets_upto(n, t):
    return sum(math.comb(n, w) for w in range(t + 1))


def err_from_supports(n, xs, zs):
    e = np.zeros(2 * n, dtype=int)
    for q in xs:
        e[q] = 1
    for q in zs:
        e[n + q] = 1
    return e


def component_errors(n, t):
    """every Pauli whose X-support and Z-support sizes are each <= t"""
    subs = list(subsets_upto(n, t))
    for xs in subs:
        for zs in subs:
            yield err_from_supports(n, xs, zs)


def single_type_errors(n, t):
    for qs in subsets_upto(n, t):
        if not qs:
            yield err_from_supports(n, (), ())
            continue
        yield err_from_supports(n, qs, ())
        yield err_from_supports(n, (), qs)
        yield err_from_supports(n, qs, qs)


def total_weight_errors(n, t):
    """every Pauli of total weight <= t (all placements, all letters)"""
    for qs in subsets_upto(n, t):
        for letters in itertools.product('XZY', repeat=len(qs)):
            xs = [q for q, l in zip(qs, letters) if l in 'XY']
            zs = [q for q, l in zip(qs, letters) if l in 'ZY']
            yield err_from_supports(n, xs, zs)


def random_mixed(rng, n, t, count):
    for _ in range(count):
        # biased towards the extreme of the hypothesis: both components at full weight t
        wx = t if rng.random() < 0.7 else rng.randint(0, t)
        wz = t if rng.random() < 0.7 else rng.randint(0, t)
        yield err_from_supports(n, rng.sample(range(n), wx), rng.sample(range(n), wz))


# ------------------------------------------------------------------------------------------ the sweep (part b)

def decode_real(decoder, code, syndrome, limit):
    try:
        with core.TimeLimit(limit):
            return decoder.decode(code, syndrome), None
    except core.TimeLimit.Expired:
        raise core.Infra('real decode exceeded {} s: {!r} on {!r}'.format(limit, decoder, code))
    except Exception as ex:  # a raising decoder does not recover
        return None, repr(ex)[:200]


def fail_key(dec_recipe, code_recipe, e, t):
    if dec_recipe[0] == 'NaiveDecoder' and code_recipe[0] in ('five', 'steane') and wt(e) > t:
        return KNOWN_KEY
    return 'C14.{}.{}'.format(dec_recipe[0], code_recipe[0])


def check_one(code, decoder, S, L, e, limit=30):
    """the property on the real code for one error: returns (ok, recovery or None, note)"""
    from qecsim import paulitools as pt
    s = pt.bsp(np.array(e, dtype=int), code.stabilizers.T)
    r, exc = decode_real(decoder, code, s, limit)
    if exc is not None:
        return False, None, 'decode raised ' + exc
    if r is None:
        return False, None, 'decode returned None'
    r = np.asarray(r)
    if r.shape != (2 * n_of(code),) or not np.isin(r, (0, 1)).all():
        return False, None, 'recovery is not a binary vector of length 2n: {!r}'.format(r)[:200]
    x = (r.astype(int) ^ np.asarray(e, dtype=int))
    ok = not sp(x, S).any() and not sp(x, L).any()
    return ok, r.astype(int), ''


def sweep(ctx, code_recipe, dec_recipe, errors, exhaustive, part, stats):
    code = make_code(code_recipe); decoder = make_decoder(dec_recipe)
    n, k, d = code.n_k_d
    t = (d - 1) // 2
    S = np.array(code.stabilizers, dtype=int); L = logicals_of(code)
    span = Span(S)
    sS, sL = mat(S), mat(L)
    tag = tag_of(code_recipe)
    pend = []  # (e, r, ok, cert)
    n_err = n_fail = n_known = 0

    def flush():
        if not pend:
            return
        nontriv = any(p[0].any() for p in pend)
        ctx.case('c14 corrected {} {} {}'.format(sS, sL, ','.join(bits(e) + ':' + bits(r) for e, r, _, _ in pend)),
                 ''.join('1' if ok else '0' for _, _, ok, _ in pend), nontrivial=nontriv,
                 meta={'kind': 'corrected', 'code': code_recipe, 'decoder': dec_recipe})
        ctx.case('c14 inspan {} {}'.format(sS, ','.join(bits(e ^ r) + ':' + bits(c) for e, r, _, c in pend)),
                 ''.join('1' if ok else '0' for _, _, ok, _ in pend), nontrivial=nontriv,
                 meta={'kind': 'inspan', 'code': code_recipe, 'decoder': dec_recipe})
        pend.clear()

    for e in errors:
        n_err += 1
        ok, r, note = check_one(code, decoder, S, L, e)
        xw, zw = int(e[:n].sum()), int(e[n:].sum())
        ctx.count(part + '_xw_zw_of_t', '{},{} t={}'.format(xw, zw, t))
        if not ok:
            key = fail_key(dec_recipe, code_recipe, e, t)
            n_fail += 1
            n_known += (key == KNOWN_KEY)
            ctx.monitor_fail(
                'C14 fails on the real code: {} on {} does not correct {} (|X|={} |Z|={} weight={} t={}){}'.format(
                    dec_recipe[0], tag, pauli_str(e), xw, zw, wt(e), t, ': ' + note if note else ''),
                {'kind': 'correct', 'code': code_recipe, 'decoder': dec_recipe, 'error': pauli_str(e), 't': t,
                 'recovery': None if r is None else pauli_str(r)}, key=key)
        if r is not None:
            x = e ^ r
            c = span.cert(x) if ok else None
            if ok and c is None:
                # commutes with S and L but is not a product of stabilizers: the code is not a valid [[n,k]] code (C07)
                ctx.monitor_fail('recovery^error commutes with stabilizers and logicals but is not in their span',
                                 {'kind': 'correct', 'code': code_recipe, 'decoder': dec_recipe,
                                  'error': pauli_str(e)}, key='C14.span.' + code_recipe[0])
            pend.append((e, r, ok and c is not None, c if c is not None else [0] * len(S)))
            if len(pend) >= BATCH:
                flush()
    flush()
    ctx.count(part + '_code', tag)
    st = stats.setdefault(part, {'evaluations': 0, 'exhaustive_codes': [], 'sampled_codes': [], 'failures': 0,
                                 'known_failures': 0, 'per_code': {}})
    st['evaluations'] += n_err; st['failures'] += n_fail; st['known_failures'] += n_known
    st['per_code'][tag] = {'n': int(n), 'd': int(d), 't': int(t), 'errors': n_err, 'exhaustive': bool(exhaustive),
                           'failures': n_fail}
    (st['exhaustive_codes'] if exhaustive else st['sampled_codes']).append(tag)


def random_single_type(rng, n, t, count):
    """seeded sample of single-type placements of weight exactly t (for spaces too large to enumerate)"""
    for _ in range(count):
        qs = rng.sample(range(n), t)
        kind = rng.choice('XZY')
        yield err_from_supports(n, qs if kind in 'XY' else (), qs if kind in 'ZY' else ())


def lattice_errors(ctx, n, t, budget, mixed):
    """(iterator, exhaustive?) for one lattice code"""
    space = n_subsets_upto(n, t) ** 2
    if space <= budget:
        return component_errors(n, t), True
    n_single = 3 * n_subsets_upto(n, t)
    n_tot = sum(math.comb(n, w) * 3 ** w for w in range(t + 1))
    if not ctx.quick() and n_tot <= budget:
        base = total_weight_errors(n, t)          # every Pauli of total weight <= t
    elif n_single <= budget:
        base = single_type_errors(n, t)           # every X-only / Z-only / Y-only placement of weight <= t
    else:
        base = itertools.chain(single_type_errors(n, t - 1), random_single_type(ctx.rng, n, t, budget // 2))
    return itertools.chain(base, random_mixed(ctx.rng, n, t, mixed)), False


# ------------------------------------------------------------------------------------------ the naive tie (part a)

def minweight_table(S, n):
    """brute force: syndrome (as bytes) -> minimum weight over all 4^n Paulis (n <= 8)"""
    S = np.array(S, dtype=np.int64).reshape(-1, 2 * n)
    N = 4 ** n
    idx = np.arange(N, dtype=np.int64)
    V = ((idx[:, None] >> np.arange(2 * n)) & 1).astype(np.int64)
    W = np.count_nonzero(V[:, :n] | V[:, n:], axis=1)
    syn = sp(V, S) if len(S) else np.zeros((N, 0), dtype=np.int64)
    keys = syn.dot(1 << np.arange(syn.shape[1], dtype=np.int64)) if syn.shape[1] else np.zeros(N, dtype=np.int64)
    best = {}
    order = np.argsort(W, kind='stable')
    for i in order:
        k = int(keys[i])
        if k not in best:
            best[k] = int(W[i])
    return best


def syn_key(s):
    return int(sum(int(b) << i for i, b in enumerate(s)))


def naive_outcome(code, mq_args, syndrome, limit=120):
    from qecsim.models.generic import NaiveDecoder
    dec = NaiveDecoder(*mq_args)
    try:
        with core.TimeLimit(limit):
            r = dec.decode(code, np.array(syndrome, dtype=int))
    except core.TimeLimit.Expired:
        raise core.Infra('NaiveDecoder.decode exceeded {} s on {!r}'.format(limit, code))
    except ValueError:
        return 'ValueError', None
    except Exception as ex:
        return type(ex).__name__, None
    if r is None:
        return 'None', None
    return 'ok ' + bits(r), np.asarray(r, dtype=int)


def mq_wire(mq_args):
    if not mq_args:
        return '10'
    v = mq_args[0]
    return 'N' if (v is None or v is False) else str(int(v))


def minweight_monitor(ctx, code_recipe, code, table, syndrome, out, r):
    """second sentence of C14 on the real code: the recovery has the syndrome and minimum weight; None iff impossible"""
    S = np.array(code.stabilizers, dtype=int)
    n = n_of(code)
    bad = None
    want = table.get(syn_key(syndrome)) if len(syndrome) == len(S) else None
    if out == 'None':
        if want is not None:
            bad = 'returned None although an operator of weight {} has the syndrome'.format(want)
    elif r is not None:
        if len(r) != 2 * n or list(sp(r, S)[0]) != [int(b) for b in syndrome]:
            bad = 'recovery {} does not have the given syndrome'.format(pauli_str(r))
        elif wt(r) != want:
            bad = 'recovery {} has weight {} but the minimum is {}'.format(pauli_str(r), wt(r), want)
    else:
        bad = 'decode raised ' + out
    if bad:
        ctx.monitor_fail('C14 (min-weight clause) fails on the real code: NaiveDecoder on {}, syndrome {}: {}'.format(
            tag_of(code_recipe), bits(syndrome), bad),
            {'kind': 'minweight', 'code': code_recipe, 'syndrome': bits(syndrome)}, key='C14.NaiveDecoder.min-weight')
    return bad


CUSTOM_BASIC = [
    ('basic', ['Z'], [], []),
    ('basic', ['ZI', 'IZ'], [], []),
    ('basic', ['XX', 'ZZ'], [], []),
    ('basic', ['ZZI', 'IZZ'], ['XXX'], ['ZII']),
    ('basic', ['XXXX', 'ZZZZ'], ['XXII', 'XIXI'], ['ZIZI', 'ZZII']),
    ('basic', ['YYI', 'IYY', 'XXX'], [], []),
]


def naive_tie(ctx, stats):
    rng = ctx.rng
    recipes = [('five',), ('steane',), ('planar', 2, 2), ('planar', 2, 3), ('planar', 3, 2), ('toric', 2, 2)] + \
        CUSTOM_BASIC
    n_cases = 0
    sampled = []
    for recipe in recipes:
        code = make_code(recipe)
        n = n_of(code)
        S = np.array(code.stabilizers, dtype=int).reshape(-1, 2 * n)
        m = len(S)
        table = minweight_table(S, n)
        sS = mat(S)
        allsyn = [list(s) for s in itertools.product((0, 1), repeat=m)]
        sat = [s for s in allsyn if syn_key(s) in table]
        unsat = [s for s in allsyn if syn_key(s) not in table]
        # unsatisfiable syndromes make the real decoder enumerate all 4^n Paulis (seconds for n = 8): bounded number
        slow = 4 ** n > 20000
        n_unsat = len(unsat) if not slow else ctx.scale(1, 24)
        chosen = sat + (unsat if len(unsat) <= n_unsat else rng.sample(unsat, n_unsat))
        if len(unsat) > n_unsat:
            sampled.append(tag_of(recipe))
        # wrong-length syndromes: np.array_equal is False for every candidate -> None
        wrong = [[0] * (m + 1), [1] * max(m - 1, 0)] if not slow else ([[0] * (m + 1)] if not ctx.quick() else [])
        for s in chosen + wrong:
            out, r = naive_outcome(code, (None,) if n > 10 else (), s)
            ctx.case('c14 naive {} {} {} {}'.format('N' if n > 10 else '10', sS, n, bits(s)), out,
                     nontrivial=any(s), meta={'kind': 'naive', 'code': recipe, 'syndrome': bits(s)})
            minweight_monitor(ctx, recipe, code, table, s, out, r)
            ctx.count('naive_outcome', out.split()[0] + (' wt={}'.format(wt(r)) if r is not None else ''))
            n_cases += 1
        ctx.count('naive_code', tag_of(recipe))
    # max_qubits guard
    guards = [(('steane',), (5,)), (('steane',), (7,)), (('steane',), (6,)), (('five',), (5,)), (('five',), (4,)),
              (('five',), (0,)), (('five',), (None,)), (('five',), (False,)), (('five',), (1,)),
              (('planar', 3, 3), ()), (('planar', 3, 3), (12,)), (('toric', 3, 3), ()), (('planar', 2, 3), (8,)),
              (('planar', 2, 3), (7,)), (('five',), (True,)), (('five',), (np.int64(5),))]
    for recipe, mq in guards:
        code = make_code(recipe)
        n = n_of(code)
        S = np.array(code.stabilizers, dtype=int)
        s = [0] * len(S)
        s[rng.randrange(len(S))] = 1
        # only run guards whose decode terminates quickly: guard raises, or n <= 8
        will_raise = bool(mq_value(mq)) and n > mq_value(mq)
        if not will_raise and n > 8:
            continue
        out, r = naive_outcome(code, mq, s)
        ctx.case('c14 naive {} {} {} {}'.format(mq_wire(mq), mat(S), n, bits(s)), out,
                 meta={'kind': 'naive-guard', 'code': recipe, 'max_qubits': repr(mq), 'syndrome': bits(s)})
        ctx.count('naive_guard', out.split()[0])
        if will_raise != (out == 'ValueError'):
            ctx.monitor_fail('NaiveDecoder max_qubits guard: documented ValueError iff n > max_qubits (truthy)',
                             {'kind': 'guard', 'code': recipe, 'max_qubits': repr(mq), 'outcome': out},
                             key='C14.NaiveDecoder.max_qubits')
        n_cases += 1
    stats['naive_tie'] = {'evaluations': n_cases, 'exhaustive': not sampled, 'unsatisfiable_sampled_for': sampled,
                          'rule': 'every satisfiable syndrome of each listed code; unsatisfiable ones all (n<=7) or sampled'}


def mq_value(mq):
    if not mq:
        return 10
    v = mq[0]
    return 0 if (v is None or v is False) else int(v)


# ------------------------------------------------------------------------------------------ run

def run(ctx):
    stats = {}
    naive_tie(ctx, stats)
    # (b1) basic codes with the naive decoder: every error with |X|<=t and |Z|<=t (contains the D5 errors)
    for recipe in (('five',), ('steane',)):
        code = make_code(recipe)
        n, k, d = code.n_k_d
        sweep(ctx, recipe, ('NaiveDecoder',), component_errors(n, (d - 1) // 2), True, 'naive_basic', stats)
    for recipe in (('planar', 2, 2), ('planar', 2, 3), ('planar', 3, 2), ('toric', 2, 2)):
        code = make_code(recipe)
        n, k, d = code.n_k_d
        sweep(ctx, recipe, ('NaiveDecoder',), component_errors(n, (d - 1) // 2), True, 'naive_lattice_t0', stats)
    # (b2) MWPM decoders
    budget = ctx.scale(20000, 120000)
    mixed = ctx.scale(1000, 30000)
    top = 5
    sizes = [(R, C) for R in range(2, top + 1) for C in range(2, top + 1)]
    extra = [] if ctx.quick() else [(5, 6), (6, 5), (6, 6), (5, 7), (7, 5), (7, 7)]
    for fam, dec in (('planar', 'PlanarMWPMDecoder'), ('toric', 'ToricMWPMDecoder')):
        for (R, C) in sizes + extra:
            recipe = (fam, R, C)
            code = make_code(recipe)
            n, k, d = code.n_k_d
            t = (d - 1) // 2
            big = (R, C) in extra
            errs, exh = lattice_errors(ctx, n, t, budget if not big else 15000, mixed if not big else 6000)
            sweep(ctx, recipe, (dec,), errs, exh, fam + '_mwpm', stats)
    ctx.explored = {}
    for part, st in stats.items():
        if part == 'naive_tie':
            continue
        ctx.explored[part] = {
            'evaluations': st['evaluations'],
            'rule': 'real decode of the real syndrome of each generated error; verdict recovery^error commutes with '
                    'all stabilizers and logicals (Python, independent symplectic product) = Lean `corrected`, and a '
                    'Lean-checked span certificate',
            'exhaustive': not st['sampled_codes'],
            'exhaustive_codes': st['exhaustive_codes'], 'sampled_codes': st['sampled_codes'],
            'failures': st['failures'], 'known_failures': st['known_failures'], 'per_code': st['per_code']}
    ctx.extra['naive_tie'] = stats['naive_tie']
    ctx.extra['decodes'] = sum(st['evaluations'] for p, st in stats.items() if p != 'naive_tie')
    ctx.exhaustive = False
    ctx.assumptions = [
        'networkx max_weight_matching (behind gt.mwpm) is not modelled: the MWPM decoders are explored on the real '
        'code, not proved; C13 compares it with a verified optimum',
        'the MWPM theorems take matching minimality (C13), path weight = distance (C15), distance (C08) and the '
        'chain-to-matching bound as hypotheses',
        'numpy integer arithmetic for the independent symplectic product and Gaussian elimination in the harness',
    ]
    return ctx.finish(RULE, search=search, explanation=(
        'proved: naive decoder min-weight + corrects total weight <= t (generic) + D5 counterexample + MWPM split/'
        'reduction under named hypotheses; explored: MWPM decoders on every correctable error of small sizes '
        '(see coverage.explored.*.exhaustive_codes) and samples of larger ones'))


# ------------------------------------------------------------------------------------------ search / replay

def recheck(inp):
    """evaluate the property on the current real code for a recorded input; returns a dict when it fails"""
    recipe = tuple(inp['code'])
    recipe = tuple(list(x) if isinstance(x, (list, tuple)) else x for x in recipe)
    code = make_code(recipe)
    n = n_of(code)
    S = np.array(code.stabilizers, dtype=int).reshape(-1, 2 * n)
    if inp.get('kind') == 'correct':
        L = logicals_of(code)
        dec = make_decoder(tuple(inp['decoder']))
        e = from_pauli(inp['error'])
        ok, r, note = check_one(code, dec, S, L, e)
        if not ok:
            return {'what': 'C14 fails: recovery^error is not a stabilizer product', 'code': tag_of(recipe),
                    'decoder': inp['decoder'][0], 'error': inp['error'], 'weight': wt(e),
                    'recovery': None if r is None else pauli_str(r), 'note': note}
        return None
    if inp.get('kind') in ('minweight', 'naive'):
        if n > 8:
            return None
        s = [int(c) for c in inp['syndrome']] if inp['syndrome'] != '_' else []
        table = minweight_table(S, n)
        out, r = naive_outcome(code, (), s)

        class Sink:
            def __init__(self): self.msg = None
            def monitor_fail(self, what, i, key=None): self.msg = what
        sink = Sink()
        minweight_monitor(sink, recipe, code, table, s, out, r)
        if sink.msg:
            return {'what': sink.msg, 'code': tag_of(recipe), 'syndrome': inp['syndrome'], 'outcome': out}
        return None
    return None


def search(m):
    meta = m.get('meta') or {}
    kind = meta.get('kind')
    if kind == 'naive':
        # the real naive decoder differs from the model: (1) the min-weight clause on this syndrome
        r = recheck({'kind': 'naive', 'code': meta['code'], 'syndrome': meta['syndrome']})
        if r:
            return r
        # (2) the correction clause on every error of total weight <= t of this code
        code = make_code(tuple(meta['code']))
        n, k, d = code.n_k_d
        if d is None:
            return None
        S = np.array(code.stabilizers, dtype=int); L = logicals_of(code)
        dec = make_decoder(('NaiveDecoder',))
        for e in total_weight_errors(n, (d - 1) // 2):
            ok, rr, note = check_one(code, dec, S, L, e)
            if not ok:
                return {'what': 'C14 fails: NaiveDecoder does not correct an error of total weight <= t',
                        'code': tag_of(tuple(meta['code'])), 'error': pauli_str(e), 'note': note,
                        'recovery': None if rr is None else pauli_str(rr)}
    return None


def replay(ctx, path):
    body = json.load(open(path))
    bad = 0
    for v in body.get('violations', []):
        c = v.get('counterexample')
        if c and isinstance(c.get('input'), dict) and 'code' in c['input']:
            r = recheck(c['input'])
            print('replay counterexample', json.dumps(c['input'])[:300], '->', r)
            bad += bool(r)
        mm = v.get('first_mismatch')
        if mm:
            r = search(mm)
            print('replay search on', mm['op'][:100], '->', r)
            bad += bool(r)
    return 1 if bad else 0   # core.do_replay prints the VIOLATION line
