"""C03 — fault-tolerant decoding returns to the code space under measurement noise
   (RotatedPlanarSMWPMDecoder / RotatedToricSMWPMDecoder.decode_ftp and qecsim.app.run_once_ftp against
   Model/Ftp.lean + Model/RunOnce.lean)

PROVED (Props/C03.lean, theorems about the model, all sizes / T / flip patterns):
  * target_is_rows_xor: XOR of all rows handed to the decoder = syndrome of the total error, hence "recovery has the
    syndrome of the total error" <=> the checkable `synd S r = xorAll rows` <=> recovery XOR error commutes with all
    stabilizers;
  * reachable_iff_mid / _zero / _one: which syndrome arrays the simulation can hand to a decoder (q in (0,1): XOR of
    the rows is a syndrome of an error in the model's support; q = 0 and q = 1: every row is);
  * witness_correct: the executable witness (step errors + flips) reproduces a reachable array;
  * finalize_spec / single_step_never_timelike / tparity_spec / measurement_tparities_spec: the result-constructor
    logic of the rotated-toric decoder (two custom values, non-zero iff success = False, none for T = 1 or itp);
  * compose_toric_ok_iff / compose_planar_ok_iff: the returned recovery is identity ^ symmetry stage ^ cluster
    stage, and it satisfies the property iff the cluster stage neutralises the residual cluster syndrome;
  * recoveryOk_sound: the monitor used below is equivalent to "recovery XOR e is in the code space for every e
    with the target syndrome".
  * Props/C03/TParity.lean (Model/SmwpmTp.lean): success / custom_values of the rotated-toric DecodeResult as
    functions of the two MATCHINGS: two bits, non-zero iff success=False; each stage t-parity = parity of the number of
    time-wrapping fused pairs (order / orientation / space coordinates irrelevant); custom_values = total crossing
    parities incl. last-step measurement flips; run success <=> commutes with stabilizers and logicals and both
    parities even (or itp / T=1); T=1: always (None, (0,0)) and the run reports the two-element zero vector.
TIED TO THE CODE by exact correspondence on every run: the stage t-parities, success and custom_values given the two
recorded matchings on EVERY direct / app / exhaustive / bias-context rotated-toric decode_ftp call (driver op
`smwpm tftp`; decoder-instance histories excepted: several calls share one recording) and the run verdict of the real
app.run_once_ftp (`smwpm trun`, c02_smwpm); _tparity, _measurement_error_tparities, the tail of
decode_ftp (scripted stage outputs AND stage outputs recorded from real runs by monkeypatching from here),
_recovery_tparities / _cluster_recovery_tparities as functions of the recorded clusters / cluster matches, the planar
composition, and the reachable-set witness (Lean's step errors + flips fed through the real app.run_once_ftp).
EXPLORED, NOT PROVED (ctx.explored): the matching-graph construction, gt.mwpm (networkx) and the clustering of
matches inside the two SMWPM decoders are not modelled.  The whole decoders are run (a) through app.run_once_ftp
behind a recording proxy over the parameter corners of the property and (b) EXHAUSTIVELY on every reachable syndrome
array of the smallest lattices for T <= 2 (T <= 3 for the 2x2 torus); every output goes through the verified monitor
`synd(stabilizers, recovery) == xorAll rows` evaluated in Python and by the Lean driver, plus: never raises, never
returns None, app never logs 'RECOVERY DOES NOT RETURN TO CODESPACE', custom_values/success consistency.
(c) The property is about EVERY call, so also about calls on a decoder object that has been used before: one instance
is driven through histories mixing fault-tolerant decodes that end in a time-like failure (flip patterns wrapping the
periodic time axis, taken from the model's `mtp`), single-step / ideal decodes and app runs, on codes of different
sizes, while the caller overwrites returned arrays in place; every answer goes through the same monitors, is compared
with a fresh instance, may share no array with another answer / the decoder / its arguments, and may not change after
it was returned.
(d) The bias CONTEXT as an input class: the derived-bias path (eta=None) of both decoders over every error-model family
with its parameters at the extremes (biases 1e-12 .. 1e12, centre-slice limits with one component 1e-15 .. 1e-6 at
pos +-1 and near it, BiasedYX small / huge bias) x step errors in the model's SUPPORT that are improbable but possible
(single X / Z / Y on every qubit class, pairs, light random errors, optional measurement flips).  The domain is stated
independently of the decoder (`derived_bias`: documented formula in plain floats); models whose derived bias is not a
positive finite number or infinite, and models the decoder rejects with its documented ValueError, are counted as out
of domain."""
import collections
import contextlib
import itertools
import json
import logging
import os
import time

import numpy as np

from qv import core, gens
from qv.core import bits, mat, ilist

LEVEL = 'proof'

RULE = ('(a) exact correspondence: _tparity on T in -4..9 x a,b in -12..12; _measurement_error_tparities exhaustive '
        'for 2x2, 2x4 and random for <= 6x6; the real decode_ftp tail driven with scripted stage outputs (all itp / T / '
        'step_measurement_errors None,[],list / parity combinations) and with stage outputs, clusters and cluster '
        'matches recorded from real runs; reachable-set witnesses computed by the Lean model and fed through the real '
        'run_once_ftp with a scripted error model and rng. (b) whole SMWPM decoders: app.run_once_ftp behind a '
        'recording proxy, rotated planar 3x3..5x6, rotated toric 2x2..6x6 (even), T in 1..5, p in {0,.05,.2,.5}, q in '
        '{None,0,.1,1}, bias finite (model-derived or eta given) and infinite (Y-only noise), itp on/off; plus '
        'decode_ftp called directly on EVERY reachable syndrome array of the smallest lattices (per class of q and '
        'support of the error model) for T <= 2 (2x2 torus: T <= 3). Monitor on every output: synd(S, recovery) == XOR '
        'of rows (Python and Lean), no exception, no None, no codespace warning, custom_values/success consistent. '
        '(c) decoder-INSTANCE histories: one decoder object reused over decode_ftp (T>1 incl. constructed time-like '
        'failures, T=1) / decode / run_once_ftp / run_once / run_ftp calls on codes of different sizes with the caller '
        'overwriting returned arrays in place: the same monitors on every answer, equality with a fresh instance, no '
        'shared arrays, no retroactive change of earlier answers. '
        '(d) derived-bias contexts (eta=None): every error-model family with extreme parameters (bias 1e-12..1e12, '
        'centre-slice limits with one component 1e-15..1e-6 at pos +-1, BiasedYX small/huge bias) x step errors in the '
        'support of the model (single X/Z/Y per qubit class, pairs, light random; T 1..3, optional flips) through '
        'decode_ftp with the same monitors; out-of-domain models (derived bias not positive finite / infinite, or '
        'rejected with the documented ValueError) are counted. '
        '(e) every rotated-toric decode_ftp of (b)/(d): both _matching results recorded, stage t-parities / success / '
        'custom_values compared exactly with the model given the matchings; app.run_once_ftp / run_ftp with time_steps=1 '
        'and the real rotated-toric decoder must report the two-element all-zero time-parity vector. '
        'non-trivial = some syndrome bit set / non-default branch')

TL = 120  # seconds per real decode (decoders can hang after a mutation; typical worst case here is a few seconds)


# ----------------------------------------------------------------------------------------------- small helpers

def synd(S, v):
    n = len(v) // 2
    return S.dot(np.concatenate((v[n:], v[:n]))) % 2


def xor_rows(rows):
    return np.bitwise_xor.reduce(np.asarray(rows, dtype=int), axis=0)


def make_code(fam, size):
    from qecsim.models.rotatedplanar import RotatedPlanarCode
    from qecsim.models.rotatedtoric import RotatedToricCode
    return RotatedPlanarCode(*size) if fam == 'planar' else RotatedToricCode(*size)


def make_decoder(fam, eta, itp=False):
    from qecsim.models.rotatedplanar import RotatedPlanarSMWPMDecoder
    from qecsim.models.rotatedtoric import RotatedToricSMWPMDecoder
    return RotatedPlanarSMWPMDecoder(eta=eta) if fam == 'planar' else RotatedToricSMWPMDecoder(itp=itp, eta=eta)


def make_em(spec):
    from qecsim.models import generic as g
    k = spec[0]
    if k == 'dep':
        return g.DepolarizingErrorModel()
    if k == 'bdep':
        return g.BiasedDepolarizingErrorModel(spec[1], spec[2])
    if k == 'bpf':
        return g.BitPhaseFlipErrorModel()
    if k == 'bf':
        return g.BitFlipErrorModel()
    if k == 'pf':
        return g.PhaseFlipErrorModel()
    if k == 'byx':
        return g.BiasedYXErrorModel(spec[1])
    if k == 'cs':
        return g.CenterSliceErrorModel(tuple(spec[1]), spec[2])
    raise ValueError(spec)


FINITE_DERIVED = [('dep',), ('bdep', 0.5, 'Y'), ('bdep', 3, 'Y'), ('bdep', 10, 'Y'), ('bdep', 100, 'Y'),
                  ('bdep', 2, 'X'), ('bdep', 0.5, 'Z')]
ANY_MODEL = FINITE_DERIVED + [('bpf',), ('bf',), ('pf',), ('byx', 5)]
Y_ONLY = [('bpf',)]


def pick_bias_context(rng):
    """(eta, error-model spec, tag) inside the property's domain: bias > 0 finite (derived or given) or infinite
    with Y-only noise"""
    r = rng.random()
    if r < 0.3:
        return None, rng.choice(Y_ONLY), 'infinite'
    if r < 0.65:
        return None, rng.choice(FINITE_DERIVED), 'finite-derived'
    return rng.choice([0.1, 1, 10, 300]), rng.choice(ANY_MODEL), 'finite-given'


# ----------------------------------------------------------------------------------------------- recording

class Rec:
    def __init__(self):
        self.reset()

    def reset(self):
        self.sym = self.clu = self.clusters = self.cmatches = None
        self.psym = self.pclu = None
        if getattr(self, 'sm', None) is None:
            from qv import c02_smwpm
            self.sm = c02_smwpm.Rec()   # both matchings / _ClusterNode creation order of the rotated-toric decoder
        self.sm.reset()


HOOKS_MISSING = []


@contextlib.contextmanager
def patched(rec):
    """record the stage outputs of both decoders by wrapping their class attributes from outside (no /repo edit)"""
    from qecsim.models.rotatedplanar import RotatedPlanarSMWPMDecoder as PD
    from qecsim.models.rotatedtoric import RotatedToricSMWPMDecoder as TD
    saved = []

    def wrap(cls, name, hook):
        if name not in cls.__dict__:
            HOOKS_MISSING.append(cls.__name__ + '.' + name)
            return
        orig = cls.__dict__[name]
        saved.append((cls, name, orig))
        if isinstance(orig, classmethod):
            f = orig.__func__

            def w(c, *a, **k):
                out = f(c, *a, **k); hook(a, out); return out
            setattr(cls, name, classmethod(w))
        elif isinstance(orig, staticmethod):
            f = orig.__func__

            def w(*a, **k):
                out = f(*a, **k); hook(a, out); return out
            setattr(cls, name, staticmethod(w))
        else:
            f = orig

            def w(self, *a, **k):
                out = f(self, *a, **k); hook(a, out); return out
            setattr(cls, name, w)

    def h_sym(a, out):
        rec.clusters = [list(c) for c in a[-1]]
        rec.sym = (np.array(out[0]), int(out[1]), int(out[2]))

    def h_clu(a, out):
        rec.cmatches = [((x.x_index, x.z_index), (y.x_index, y.z_index)) for x, y in a[-1]]
        rec.clu = (np.array(out[0]), int(out[1]), int(out[2]))

    def h_psym(a, out):
        rec.psym = np.array(out)

    def h_pclu(a, out):
        rec.pclu = np.array(out)
    from qv import c02_smwpm
    try:
        wrap(TD, '_recovery_tparities', h_sym)
        wrap(TD, '_cluster_recovery_tparities', h_clu)
        wrap(PD, '_recovery', h_psym)
        wrap(PD, '_cluster_recovery', h_pclu)
        # nested inside (restored first): what both `_matching` calls of the rotated-toric decoder returned
        with c02_smwpm.patched(TD, rec.sm):
            yield
    finally:
        for cls, name, orig in saved:
            setattr(cls, name, orig)


class WarnCatcher(logging.Handler):
    def __init__(self):
        super().__init__(level=logging.WARNING)
        self.msgs = []

    def emit(self, record):
        try:
            self.msgs.append(record.getMessage())
        except Exception:  # pragma: no cover
            self.msgs.append(str(record.msg))


@contextlib.contextmanager
def capture_app_warnings():
    """run.py disables logging below ERROR; re-enable WARNING for qecsim.app only while the real code runs"""
    lg = logging.getLogger('qecsim.app')
    prev_disable = logging.root.manager.disable
    prev = (lg.level, lg.propagate)
    h = WarnCatcher()
    logging.disable(logging.NOTSET)
    lg.setLevel(logging.WARNING); lg.propagate = False; lg.addHandler(h)
    try:
        yield h
    finally:
        lg.removeHandler(h); lg.setLevel(prev[0]); lg.propagate = prev[1]
        logging.disable(prev_disable)


def make_proxy(inner):
    from qecsim.model import DecoderFTP

    class Proxy(DecoderFTP):
        """recording wrapper: stores what the simulation hands over and what the decoder answers"""

        def __init__(self):
            self.calls = []; self.outs = []; self.timeout = False

        def decode_ftp(self, code, time_steps, syndrome, **kw):
            self.calls.append((time_steps, np.array(syndrome, dtype=int), dict(kw)))
            try:
                with core.TimeLimit(TL):
                    out = inner.decode_ftp(code, time_steps, syndrome, **kw)
            except core.TimeLimit.Expired:
                self.timeout = True; raise
            self.outs.append(out)
            return out

        @property
        def label(self):
            return 'proxy(' + inner.label + ')'

        def __repr__(self):
            return 'Proxy({!r})'.format(inner)
    return Proxy()


# ----------------------------------------------------------------------------------------------- the property monitor

def t3(i):
    return '{},{},{}'.format(int(i[0]), int(i[1]), int(i[2]))


def clusters_wire(cl):
    return '|'.join(';'.join(t3(i) for i in c) for c in cl) if cl else '.'


def matches_wire(ms):
    return '|'.join('>'.join(t3(i) for i in (a[0], a[1], b[0], b[1])) for a, b in ms) if ms else '.'


def result_wire(out):
    """canonical form of what decode_ftp returned (rotated toric: DecodeResult)"""
    su = 'N' if out.success is None else str(int(bool(out.success)))
    cv = 'N' if out.custom_values is None else ilist(out.custom_values)
    return 'su={} rec={} cv={}'.format(su, 'N' if out.recovery is None else bits(out.recovery), cv)


def property_failures(fam, S, T, itp, rows, out, ideal=False):
    """the clauses of C03 evaluated on one real decoder answer; returns a list of strings (empty = holds)"""
    from qecsim.model import DecodeResult
    bad = []
    if out is None:
        return ['decoder returned None']
    if isinstance(out, DecodeResult):
        r = out.recovery
    else:
        r = out
    if r is None:
        bad.append('no recovery returned')
    else:
        r = np.asarray(r)
        if r.shape != (S.shape[1],):
            bad.append('recovery has shape {}'.format(r.shape))
        elif not np.array_equal(synd(S, r.astype(int)), xor_rows(rows)):
            bad.append('recovery does not have the syndrome of the total error (XOR of all rows)')
    if fam == 'toric' and not ideal:
        if not isinstance(out, DecodeResult):
            bad.append('rotated-toric decode_ftp did not return a DecodeResult')
        else:
            cv = out.custom_values
            if cv is None or np.shape(cv) != (2,):
                bad.append('custom_values is not a two-element vector: {!r}'.format(cv))
            else:
                nz = bool(np.any(np.asarray(cv) != 0))
                if nz and out.success is not False:
                    bad.append('non-zero time parities without success=False')
                if out.success is False and not nz:
                    bad.append('time-like failure declared with all-zero time parities')
                if out.success not in (None, False):
                    bad.append('success={!r} (only None or False are documented)'.format(out.success))
                if (T == 1 or itp) and (nz or out.success is not None):
                    bad.append('time-like failure declared although time_steps == 1 or itp')
                if any(int(x) not in (0, 1) for x in np.asarray(cv).tolist()):
                    bad.append('time parity outside {0,1}')
    return bad


def recipe(fam, size, T, eta, itp, em_spec, p, q, qeff, rows, meas, via):
    return {'family': fam, 'size': list(size), 'T': T, 'eta': eta, 'itp': bool(itp), 'em': list(em_spec), 'p': p,
            'q': q, 'qeff': qeff, 'rows': mat(rows), 'meas': 'N' if meas is None else mat(meas), 'via': via}


def unmat(s):
    return np.array([[int(c) for c in r] for r in s.split('/')] if s != '.' else [], dtype=int)


def run_recipe(rc):
    """re-run one recorded decoder call (or decoder-instance history) on the current tree; returns (failures,
    outcome-text)"""
    if 'single_step' in rc:
        return single_step_failures(rc['single_step'])
    if 'history' in rc:
        fails = run_history(rc['history'], rc.get('upto'))
        return ['step {}: {}'.format(k, w) for k, w, _ in fails], 'history of {} steps on one {} decoder'.format(
            len(rc['history']['steps']), rc['history']['family'])
    fam = rc['family']; code = make_code(fam, rc['size']); dec = make_decoder(fam, rc['eta'], rc['itp'])
    rows = unmat(rc['rows']); meas = None if rc['meas'] == 'N' else [r for r in unmat(rc['meas'])]
    S = code.stabilizers
    try:
        with core.TimeLimit(TL):
            out = dec.decode_ftp(code, rc['T'], rows, error_model=make_em(tuple(rc['em'])),
                                 error_probability=rc['p'], measurement_error_probability=rc['qeff'],
                                 step_measurement_errors=meas)
    except core.TimeLimit.Expired:
        return [], 'timeout'
    except Exception as ex:
        return ['decode_ftp raised {!r}'.format(ex)], repr(ex)
    return property_failures(fam, S, rc['T'], rc['itp'], rows, out), repr(out)[:300]


# ----------------------------------------------------------------------------------------------- checks of one call

class Checker:
    """everything that is asserted about one real decode_ftp call (shared by the app runs and the exhaustive
    enumeration)"""

    def __init__(self, ctx, rec):
        self.ctx, self.rec = ctx, rec
        self.smat = {}

    def S(self, fam, size, code):
        k = (fam, tuple(size))
        if k not in self.smat:
            self.smat[k] = (code.stabilizers, mat(code.stabilizers))
        return self.smat[k]

    def check(self, fam, size, code, T, itp, rows, meas, out, exc, rc, part, ideal=False):
        ctx, rec = self.ctx, self.rec
        S, Sw = self.S(fam, size, code)
        key = '{}SMWPM.decode_ftp'.format('RotatedPlanar' if fam == 'planar' else 'RotatedToric')
        if exc is not None:
            ctx.monitor_fail('decode_ftp raised {!r} on an input inside the stated domain'.format(exc), rc,
                             key=key + ':raises')
            return
        bad = property_failures(fam, S, T, itp, rows, out, ideal=ideal)
        for b in bad:
            ctx.monitor_fail(b, rc, key=key + ':' + b.split(' ')[0])
        from qecsim.model import DecodeResult
        r = out.recovery if isinstance(out, DecodeResult) else out
        nt = bool(np.any(rows))
        if r is not None and np.shape(r) == (S.shape[1],):
            # the verified monitor, evaluated by the Lean driver on the real output: must say 1
            ctx.case('c03 mon {} {} {}'.format(Sw, mat(rows), bits(r)), '1', nontrivial=nt,
                     meta={'recipe': rc, 'part': part})
        # ---- exact correspondence of the bookkeeping with the recorded stage outputs
        n = S.shape[1] // 2
        if fam == 'toric':
            if rec.sym is not None and rec.clu is not None and isinstance(out, DecodeResult):
                R, C = size
                (sop, sx, sz), (cop, cx, cz) = rec.sym, rec.clu
                mw = 'N' if meas is None else mat(meas)
                ctx.case('c03 fin {} {} {} {} {} {} {} {} {} {} {}'.format(
                    R, C, int(bool(itp)), T, bits(sop), sx, sz, bits(cop), cx, cz, mw), result_wire(out),
                    nontrivial=nt, meta={'recipe': rc, 'T': T, 'itp': bool(itp), 'part': part})
                ctx.case('c03 rtp {} {} {} {}'.format(R, C, T, clusters_wire(rec.clusters)),
                         'op={} x={} z={}'.format(bits(sop), sx, sz), nontrivial=bool(rec.clusters),
                         meta={'part': part})
                ctx.case('c03 crtp {} {} {} {}'.format(R, C, T, matches_wire(rec.cmatches)),
                         'op={} x={} z={}'.format(bits(cop), cx, cz), nontrivial=bool(rec.cmatches),
                         meta={'part': part})
                # t-parities / success / custom_values as functions of the two recorded MATCHINGS (Model/SmwpmTp.lean)
                tied = False
                try:
                    from qv import c02_smwpm
                    bias = make_decoder('toric', rc['eta'])._bias(make_em(tuple(rc['em'])))
                    fl = c02_smwpm.flags_of(bias, rc['p'], rc['qeff'])
                    tied = c02_smwpm.toric_ftp_case(ctx, rec.sm, size, rows, fl, bool(itp), meas, out,
                                                    {'recipe': rc, 'c03part': part})
                except (KeyError, TypeError, ValueError):
                    pass
                ctx.count('toric.matchings-tie', ('tied ' if tied else 'skipped ') + part)
                ctx.count('toric.cv', ilist(out.custom_values) if out.custom_values is not None else 'N')
                ctx.count('toric.defective-clusters', bool(rec.cmatches))
        else:
            if rec.psym is not None and rec.pclu is not None and r is not None:
                ctx.case('c03 pl {} {} {}'.format(n, bits(rec.psym), bits(rec.pclu)), bits(r), nontrivial=nt,
                         meta={'part': part})
                ctx.count('planar.cluster-stage-nonzero', bool(np.any(rec.pclu)))


# ----------------------------------------------------------------------------------------------- part (a)

def part_tparity(ctx):
    from qecsim.models.rotatedtoric import RotatedToricSMWPMDecoder as TD
    for T in range(-4, 10):
        for a in range(-12, 13):
            for b in range(-12, 13):
                try:
                    impl = str(int(TD._tparity(T, a, b)))
                except ZeroDivisionError:
                    impl = 'ZeroDivisionError'
                ctx.case('c03 tp {} {} {}'.format(T, a, b), impl, nontrivial=(T > 1 and a != b))
    for _ in range(ctx.scale(300, 3000)):
        T = ctx.rng.randint(1, 40); a = ctx.rng.randint(-100, 100); b = ctx.rng.randint(-100, 100)
        ctx.case('c03 tp {} {} {}'.format(T, a, b), str(int(TD._tparity(T, a, b))), nontrivial=True)
    ctx.count('part', 'tparity')


def part_mtp(ctx):
    from qecsim.models.rotatedtoric import RotatedToricCode, RotatedToricSMWPMDecoder as TD
    rng = ctx.rng
    for (R, C) in [(2, 2), (2, 4), (4, 2)]:
        code = RotatedToricCode(R, C); m = R * C
        for v in itertools.product((0, 1), repeat=m):
            x, z = TD._measurement_error_tparities(code, np.array(v, dtype=int))
            ctx.case('c03 mtp {} {} {}'.format(R, C, bits(v)), '{},{}'.format(int(x), int(z)), nontrivial=any(v))
    for _ in range(ctx.scale(400, 4000)):
        R = rng.choice([2, 4, 6]); C = rng.choice([2, 4, 6]); code = RotatedToricCode(R, C)
        v = gens.rand_bits(rng, R * C, rng.choice([0.1, 0.3, 0.5, 0.9]))
        x, z = TD._measurement_error_tparities(code, np.array(v, dtype=int))
        ctx.case('c03 mtp {} {} {}'.format(R, C, bits(v)), '{},{}'.format(int(x), int(z)), nontrivial=any(v))


_SCRIPTED = {}


def scripted_classes():
    """the real decode_ftp bodies with every stage before the tail replaced by scripted values (subclasses defined
    here; nothing in /repo is touched)"""
    if _SCRIPTED:
        return _SCRIPTED['ST'], _SCRIPTED['SP']
    from qecsim import graphtools as gt
    from qecsim.models.rotatedplanar import RotatedPlanarSMWPMDecoder as PD
    from qecsim.models.rotatedtoric import RotatedToricSMWPMDecoder as TD

    class ST(TD):
        script = None

        @classmethod
        def _graphs(cls, *a, **k):
            return []

        @classmethod
        def _matching(cls, graphs):
            return set()

        @classmethod
        def _clusters(cls, matches):
            return []

        @classmethod
        def _recovery_tparities(cls, code, time_steps, clusters):
            return cls.script[0]

        @classmethod
        def _cluster_graph(cls, code, time_steps, clusters):
            return gt.SimpleGraph()

        @classmethod
        def _cluster_recovery_tparities(cls, code, time_steps, matches):
            return cls.script[1]

    class SP(PD):
        script = None

        @classmethod
        def _graph(cls, *a, **k):
            return gt.SimpleGraph()

        @classmethod
        def _matching(cls, graph):
            return set()

        @classmethod
        def _clusters(cls, matches):
            return []

        @classmethod
        def _recovery(cls, code, clusters):
            return cls.script[0]

        @classmethod
        def _cluster_graph(cls, code, time_steps, clusters):
            return gt.SimpleGraph()

        @classmethod
        def _cluster_recovery(cls, code, matches):
            return cls.script[1]
    _SCRIPTED['ST'], _SCRIPTED['SP'] = ST, SP
    return ST, SP


def run_scripted_tail(R, C, itp, T, sop, sx, sz, cop, cx, cz, meas):
    """drive the tail of the real rotated-toric decode_ftp with the given stage outputs; canonical text of the answer"""
    from qecsim.error import QecsimError
    from qecsim.models.generic import DepolarizingErrorModel
    from qecsim.models.rotatedtoric import RotatedToricCode
    ST, _ = scripted_classes()
    code = RotatedToricCode(R, C); n = R * C
    ST.script = ((np.array(sop, dtype=int), sx, sz), (np.array(cop, dtype=int), cx, cz))
    try:
        out = ST(itp=itp).decode_ftp(code, T, np.zeros((T, n), dtype=int), DepolarizingErrorModel(), 0.1, 0.1,
                                     step_measurement_errors=meas)
        impl = result_wire(out)
        if out.logical_commutations is not None:
            impl += ' LC-SET'
    except QecsimError as ex:
        impl = 'QecsimError:nostepmeas' if 'step_measurement_errors not provided' in str(ex) else 'QecsimError:?'
    except Exception as ex:  # noqa: B902
        impl = type(ex).__name__
    return impl


def fin_line(R, C, itp, T, sop, sx, sz, cop, cx, cz, meas):
    return 'c03 fin {} {} {} {} {} {} {} {} {} {} {}'.format(
        R, C, int(bool(itp)), T, bits(sop), sx, sz, bits(cop), cx, cz, 'N' if meas is None else mat(meas))


def parse_fin(op):
    t = op.split()
    R, C, itp, T = int(t[2]), int(t[3]), t[4] == '1', int(t[5])
    v = lambda x: np.array([int(c) for c in x], dtype=int)  # noqa: E731
    meas = None if t[12] == 'N' else [r for r in unmat(t[12])]
    return R, C, itp, T, v(t[6]), int(t[7]), int(t[8]), v(t[9]), int(t[10]), int(t[11]), meas


def part_finalize_scripted(ctx):
    from qecsim.models.generic import DepolarizingErrorModel
    from qecsim.models.rotatedplanar import RotatedPlanarCode
    rng = ctx.rng
    _, SP = scripted_classes()
    em = DepolarizingErrorModel()
    combos = list(itertools.product([False, True], [1, 2, 3], ['N', 'E', 'L'], range(16)))
    extra = ctx.scale(600, 6000)
    todo = combos + [None] * extra
    for c in todo:
        R, C = rng.choice([(2, 2), (2, 4), (4, 4)]); n = R * C
        if c is None:
            itp = rng.random() < 0.25; T = rng.choice([1, 2, 2, 3, 5]); mk = rng.choice(['N', 'E', 'L', 'L', 'L', 'L'])
            par = [rng.choice([0, 1]) for _ in range(4)]
            if rng.random() < 0.1:
                par = [rng.choice([0, 1, 2, 3]) for _ in range(4)]
        else:
            itp, T, mk, pb = c; par = [(pb >> i) & 1 for i in range(4)]
        sop = np.array(gens.rand_bits(rng, 2 * n, 0.3), dtype=int); cop = np.array(gens.rand_bits(rng, 2 * n, 0.3), dtype=int)
        if mk == 'N':
            meas = None
        elif mk == 'E':
            meas = []
        else:
            L = rng.choice([1, T, T + 1])
            meas = [np.array(gens.rand_bits(rng, n, rng.choice([0.0, 0.2, 0.5])), dtype=int) for _ in range(L)]
        impl = run_scripted_tail(R, C, itp, T, sop, par[0], par[1], cop, par[2], par[3], meas)
        line = fin_line(R, C, itp, T, sop, par[0], par[1], cop, par[2], par[3], meas)
        why = _tail_property(impl, T, itp)
        if why and max(par) <= 1:
            ctx.monitor_fail(why, {'op': line, 'scripted-stage-parities': [par[:2], par[2:]], 'itp': itp, 'T': T,
                                   'step_measurement_errors': None if meas is None else mat(meas),
                                   'size': [R, C], 'decode_ftp_returned': impl},
                             key='RotatedToricSMWPM.decode_ftp:tail')
        ctx.case(line, impl, nontrivial=True, meta={'T': T, 'itp': itp, 'part': 'finalize-scripted'})
        ctx.count('finalize.branch', 'itp' if itp else 'T=1' if T == 1 else 'nomeas' if mk in 'NE' else 'tested')
    for _ in range(ctx.scale(100, 1000)):
        r, c = rng.choice([(3, 3), (3, 4), (4, 5)]); code = RotatedPlanarCode(r, c); n = r * c
        sop = np.array(gens.rand_bits(rng, 2 * n, 0.3), dtype=int); cop = np.array(gens.rand_bits(rng, 2 * n, 0.3), dtype=int)
        SP.script = (sop.copy(), cop.copy())
        T = rng.choice([1, 2, 3])
        try:
            out = SP().decode_ftp(code, T, np.zeros((T, code.stabilizers.shape[0]), dtype=int), em, 0.1, 0.1)
            impl = bits(out) if isinstance(out, np.ndarray) else 'not-ndarray'
        except Exception as ex:  # noqa: B902
            impl = type(ex).__name__
        ctx.case('c03 pl {} {} {}'.format(n, bits(sop), bits(cop)), impl, nontrivial=True,
                 meta={'part': 'planar-scripted'})


def part_witness(ctx):
    """`reachable`: the witness (step errors, flips) computed by the Lean model is fed through the real run_once_ftp
    with a scripted error model / rng; the decoder must be handed exactly the requested array"""
    from qecsim import app
    from qecsim.model import ErrorModel, DecoderFTP
    from qecsim.models.basic import FiveQubitCode
    rng = ctx.rng

    class ScriptEM(ErrorModel):
        def __init__(self, errors):
            self.errors = errors; self.i = 0

        def generate(self, code, probability, rng=None):
            e = self.errors[self.i]; self.i += 1; return e

        @property
        def label(self):
            return 'script'

    class ScriptRng:
        def __init__(self, flips):
            self.flips = flips; self.i = 0

        def choice(self, a, size=None, p=None, **kw):
            f = self.flips[self.i]; self.i += 1; return f

    class RecDec(DecoderFTP):
        def __init__(self, n):
            self.seen = None; self.n = n

        def decode_ftp(self, code, time_steps, syndrome, **kw):
            self.seen = np.array(syndrome, dtype=int); return np.zeros(2 * self.n, dtype=int)

        @property
        def label(self):
            return 'rec'
    lines, todo = [], []
    lib = [make_code('toric', (2, 2)), make_code('toric', (2, 4)), make_code('planar', (3, 3)),
           make_code('planar', (3, 4)), FiveQubitCode()]
    for _ in range(ctx.scale(250, 3000)):
        if rng.random() < 0.6:
            code = rng.choice(lib)
        else:
            n = rng.randint(1, 5)
            code = gens.MatCode([gens.rand_bits(rng, 2 * n) for _ in range(rng.randint(1, 5))],
                                [gens.rand_bits(rng, 2 * n)], [gens.rand_bits(rng, 2 * n)])
        S = np.array(code.stabilizers, dtype=int); n = S.shape[1] // 2; m = S.shape[0]
        T = rng.choice([1, 2, 2, 3, 4, 5])
        es0 = [np.array(gens.rand_bits(rng, 2 * n, rng.choice([0.0, 0.2, 0.5])), dtype=int) for _ in range(T)]
        ms0 = [np.array(gens.rand_bits(rng, m, rng.choice([0.0, 0.2, 0.5])), dtype=int) for _ in range(T)]
        rows = np.array([ms0[t - 1] ^ synd(S, es0[t]) ^ ms0[t] for t in range(T)], dtype=int)
        e = xor_rows(es0)
        reach = True
        if rng.random() < 0.2 and m:   # an array the simulation (probably) cannot produce with this total error
            rows[rng.randrange(T)][rng.randrange(m)] ^= 1; reach = False
        lines.append('c03 wit {} {} {} {} {}'.format(n, mat(S), T, mat(rows), bits(e)))
        todo.append((code, n, T, rows, reach))
    replies = ctx.driver.ask(lines)
    for line, rep, (code, n, T, rows, reach) in zip(lines, replies, todo):
        kv = dict(x.split('=', 1) for x in rep.split() if '=' in x)
        if 'es' not in kv:
            ctx.case(line, 'unparsable-model-reply', meta={'part': 'witness'}); continue
        es = [r for r in unmat(kv['es'])]; ms = [r for r in unmat(kv['meas'])]
        dec = RecDec(n)
        try:
            app.run_once_ftp(code, T, ScriptEM(es), dec, 0.3, 0.3, ScriptRng(ms))
        except Exception as ex:  # noqa: B902 - the real run must hand the array to decode_ftp for EVERY T >= 1
            ctx.monitor_fail('run_once_ftp raised {!r} instead of calling decode_ftp with the syndrome array'.format(ex),
                             {'op': line, 'time_steps': T, 'step_errors': kv['es'], 'flips': kv['meas']},
                             key='app.run_once_ftp:raises')
        same = dec.seen is not None and np.array_equal(dec.seen, rows)
        ctx.case(line, 'es={} meas={} same={}'.format(kv['es'], kv['meas'], int(same)), nontrivial=bool(np.any(rows)),
                 meta={'part': 'witness'})
        if reach and not same:
            ctx.monitor_fail('a syndrome array whose XOR is the syndrome of the total error was not reproduced by '
                             'run_once_ftp from the witness step errors / flips',
                             {'op': line, 'decoder_got': None if dec.seen is None else mat(dec.seen)},
                             key='app.run_once_ftp:reachable-witness')
        ctx.count('witness.reachable', reach)


# ----------------------------------------------------------------------------------------------- single-step runs

def single_step_failures(ss):
    """the last clause of C03 on the real code: a fault-tolerant run with ONE time step and the rotated-toric decoder
    reports the two-element all-zero time-parity vector (run_once_ftp: `custom_values`, run_ftp: `custom_totals`),
    whatever q / itp are (theorems single_step_all_zero / single_step_run of Props/C03/TParity.lean);
    returns (failures, outcome-text)"""
    from qecsim import app
    code = make_code('toric', ss['size']); dec = make_decoder('toric', ss['eta'], ss['itp'])
    em = make_em(tuple(ss['em']))
    try:
        with core.TimeLimit(TL):
            if ss['via'] == 'run_once_ftp':
                data = app.run_once_ftp(code, 1, em, dec, ss['p'], ss['q'], np.random.default_rng(ss['seed']))
                cv = data.get('custom_values')
            else:
                data = app.run_ftp(code, 1, em, dec, ss['p'], ss['q'], max_runs=ss['runs'], random_seed=ss['seed'])
                cv = data.get('custom_totals')
    except core.TimeLimit.Expired:
        return [], 'timeout'
    except Exception as ex:  # noqa: B902
        return ['{} with time_steps=1 raised {!r}'.format(ss['via'], ex)], repr(ex)
    if cv is None or np.shape(cv) != (2,):
        return ['single-step fault-tolerant run does not report the two-element time-parity vector: {!r}'.format(cv)], \
            repr(cv)
    if np.any(np.asarray(cv) != 0):
        return ['single-step fault-tolerant run declares a time-like failure: {!r}'.format(cv)], repr(cv)
    return [], repr(cv)


def part_single_step(ctx):
    """app.run_once_ftp / app.run_ftp with time_steps = 1 and the REAL rotated-toric decoder (no proxy), over sizes,
    p, q in {default, 0, mid, 1}, itp, bias contexts; own rng derived from the seed (the streams of the other parts
    are unchanged)"""
    import random
    rng = random.Random('c03-single-step-{}'.format(ctx.seed))
    n = 0
    for _ in range(ctx.scale(16, 80)):
        eta, ems, _btag = pick_bias_context(rng)
        ss = {'size': list(rng.choice([(2, 2), (2, 4), (4, 2), (4, 4)])), 'eta': eta, 'em': list(ems),
              'itp': rng.random() < 0.3, 'p': rng.choice([0.05, 0.2, 0.5]), 'q': rng.choice([None, 0, 0.2, 1]),
              'via': rng.choice(['run_once_ftp', 'run_ftp']), 'runs': rng.choice([1, 3]), 'seed': rng.getrandbits(31)}
        fails, _txt = single_step_failures(ss)
        for f in fails:
            ctx.monitor_fail(f, {'single_step': ss}, key='app:single-step-time-parity')
        ctx.count('single-step.via', ss['via']); ctx.count('single-step.q', ss['q'])
        n += 1
    return n


# ----------------------------------------------------------------------------------------------- part (b) random

def size_pool(fam):
    if fam == 'planar':
        return [(r, c) for r in (3, 4, 5) for c in (3, 4, 5, 6)]
    return [(r, c) for r in (2, 4, 6) for c in (2, 4, 6)]


def part_app_runs(ctx, chk, rec):
    from qecsim import app
    rng = ctx.rng
    n_small, n_big = ctx.scale((1200, 30), (5000, 250))
    plan = ['small'] * n_small + ['big'] * n_big
    explored = 0
    timeouts = 0
    for kind in plan:
        fam = rng.choice(['planar', 'toric'])
        size = rng.choice(size_pool(fam))
        T = rng.choice([1, 2, 3, 4, 5])
        nq = size[0] * size[1]
        if kind == 'small':
            # keep the number of space-time plaquettes small (the matching graph is quadratic in the defects)
            while nq * T > 50:
                size = rng.choice(size_pool(fam)); T = rng.choice([1, 2, 3, 4, 5]); nq = size[0] * size[1]
        else:
            while nq * T <= 50 or nq * T > 130:
                size = rng.choice(size_pool(fam)); T = rng.choice([1, 2, 3, 4, 5]); nq = size[0] * size[1]
        p = rng.choice([0, 0.05, 0.2, 0.5]); q = rng.choice([None, 0, 0.1, 1])
        eta, ems, btag = pick_bias_context(rng)
        itp = fam == 'toric' and rng.random() < 0.2
        code = make_code(fam, size); dec = make_decoder(fam, eta, itp); em = make_em(ems)
        proxy = make_proxy(dec)
        nprng = np.random.default_rng(rng.getrandbits(63))
        qeff = (0.0 if T == 1 else p) if q is None else q
        rec.reset()
        data = exc = None
        with capture_app_warnings() as wc:
            try:
                data = app.run_once_ftp(code, T, em, proxy, p, q, nprng)
            except core.TimeLimit.Expired:
                timeouts += 1; continue
            except Exception as ex:  # noqa: B902
                exc = ex
        explored += 1
        ctx.count('app.family', fam); ctx.count('app.size', '{}x{}'.format(*size)); ctx.count('app.T', T)
        ctx.count('app.p', p); ctx.count('app.q', q); ctx.count('app.bias', btag); ctx.count('app.em', ems[0])
        ctx.count('app.corner', 'p=0,q>0' if p == 0 and qeff else 'q=0' if not qeff else 'q=1' if qeff == 1 else 'mid')
        if not proxy.calls:
            ctx.monitor_fail('run_once_ftp failed before calling the decoder: {!r}'.format(exc),
                             {'family': fam, 'size': list(size), 'T': T, 'p': p, 'q': q, 'em': list(ems)},
                             key='app.run_once_ftp:raises')
            continue
        _, rows, kw = proxy.calls[0]
        meas = kw.get('step_measurement_errors')
        rc = recipe(fam, size, T, eta, itp, ems, p, q, kw.get('measurement_error_probability'), rows, meas, 'app')
        S = code.stabilizers
        # run-level algebra on the real data (C01's theorem): XOR of rows = syndrome of the total error
        if 'error' in kw and not np.array_equal(xor_rows(rows), synd(S, np.asarray(kw['error'], dtype=int))):
            ctx.monitor_fail('XOR of the syndrome rows differs from the syndrome of the total error', rc,
                             key='app._run_once:rows-xor')
        # contract of the three q classes (what `reachable` assumes about the rng)
        if meas is not None:
            M = np.array(meas, dtype=int)
            if (not qeff and M.any()) or (qeff == 1 and not M.all()):
                ctx.monitor_fail('measurement flips outside the class of q (q=0: none, q=1: all)', rc,
                                 key='app._run_once:q-class')
        out = proxy.outs[0] if proxy.outs else None
        dexc = exc if not proxy.outs else None
        chk.check(fam, size, code, T, itp, rows, meas, out, dexc, rc, 'app')
        if proxy.outs and exc is not None:
            ctx.monitor_fail('run_once_ftp raised {!r} after decoding'.format(exc), rc, key='app.run_once_ftp:raises')
        bad_w = [w for w in wc.msgs if 'RECOVERY DOES NOT RETURN TO CODESPACE' in w]
        if bad_w:
            ctx.monitor_fail("app logged 'RECOVERY DOES NOT RETURN TO CODESPACE'", dict(rc, warning=bad_w[0][:600]),
                             key='app._run_once:codespace-warning')
        if data is not None and fam == 'toric':
            cv = data.get('custom_values')
            if cv is None or np.shape(cv) != (2,):
                ctx.monitor_fail('run data lacks the two-element time-parity vector', rc, key='app:custom_values')
            elif np.any(np.asarray(cv) != 0) and data['success'] is not False:
                ctx.monitor_fail('run reports non-zero time parities with success=True', rc, key='app:custom_values')
    return explored, timeouts


# ----------------------------------------------------------------------------------------------- part (b) exhaustive

def span(gen_ints):
    s = {0}
    for g in gen_ints:
        s |= {x ^ g for x in s}
    return s


def to_int(v):
    x = 0
    for b in v:
        x = (x << 1) | int(b)
    return x


def to_vec(x, m):
    return np.array([(x >> (m - 1 - i)) & 1 for i in range(m)], dtype=int)


def image_with_preimage(S, support):
    """{syndrome int: an error with that syndrome} over the GF(2) span of the errors a model can produce
    (support 'all' | 'Y' | 'none'); spans are closed under XOR, as `reachable_iff_mid` requires"""
    n = S.shape[1] // 2
    gensv = []
    if support == 'all':
        for i in range(2 * n):
            e = np.zeros(2 * n, dtype=int); e[i] = 1; gensv.append(e)
    elif support == 'Y':
        for i in range(n):
            e = np.zeros(2 * n, dtype=int); e[i] = 1; e[n + i] = 1; gensv.append(e)
    img = {0: np.zeros(2 * n, dtype=int)}
    for g in gensv:
        sg = to_int(synd(S, g))
        if sg in img:
            continue
        for s, e in list(img.items()):
            img[s ^ sg] = e ^ g
    return img


def enum_reachable(img, m, T, qclass):
    """every syndrome array (as a tuple of ints) the simulation can hand over — see reachable_iff_* in Props/C03.lean"""
    keys = sorted(img)
    if qclass in ('zero', 'one'):
        for rows in itertools.product(keys, repeat=T):
            yield rows
    else:
        for head in itertools.product(range(1 << m), repeat=T - 1):
            x = 0
            for h in head:
                x ^= h
            for s in keys:
                yield head + (x ^ s,)


# (tag, eta, em spec, p, q, qclass, support)
EXH_CONFIGS = [
    ('finite-derived/mid', None, ('dep',), 0.1, 0.1, 'mid', 'all'),
    ('finite-given/mid', 10, ('bdep', 10, 'Y'), 0.2, 0.05, 'mid', 'all'),
    ('finite/q=0', None, ('bdep', 3, 'Y'), 0.2, 0, 'zero', 'all'),
    ('finite/q=1', None, ('dep',), 0.1, 1, 'one', 'all'),
    ('infinite/mid p=q', None, ('bpf',), 0.1, 0.1, 'mid', 'Y'),
    ('infinite/mid p!=q', None, ('bpf',), 0.2, 0.05, 'mid', 'Y'),
    ('infinite/q=0', None, ('bpf',), 0.1, 0, 'zero', 'Y'),
    ('infinite/q=1', None, ('bpf',), 0.1, 1, 'one', 'Y'),
    ('finite/p=0 q>0', None, ('dep',), 0, 0.1, 'mid', 'none'),
    ('infinite/p=0 q>0', None, ('bpf',), 0, 0.1, 'mid', 'none'),
    ('finite/p=0 q=0', 1, ('dep',), 0, 0, 'zero', 'none'),
]


def exhaustive_plan(ctx):
    """(family, size, T, config indices, slices) — every listed domain is enumerated completely; `slices = k` means
    that this run enumerates the arrays whose first row index is congruent to VERIF_SEED modulo k (the k seeds
    0..k-1 together cover the whole domain; the evidence names the slice)"""
    allc = list(range(len(EXH_CONFIGS)))
    plan = [('toric', (2, 2), 1, allc, 1), ('toric', (2, 2), 2, allc, 1), ('toric', (2, 2), 3, allc, 1),
            ('planar', (3, 3), 1, allc, 1), ('toric', (2, 4), 1, allc, 1), ('toric', (4, 2), 1, allc, 1),
            ('planar', (3, 3), 2, [8, 9, 10], 1)]
    if not ctx.quick():
        plan += [('toric', (2, 4), 2, allc, 1), ('planar', (3, 4), 1, allc, 1), ('planar', (4, 3), 1, allc, 1),
                 ('toric', (4, 4), 1, [0, 4, 6], 1), ('planar', (3, 3), 2, [0, 4], 8)]
    return plan


def part_exhaustive(ctx, chk, rec):
    domains = []
    total = 0
    for fam, size, T, cfgs, slices in exhaustive_plan(ctx):
        code = make_code(fam, size); S = code.stabilizers; m = S.shape[0]; n = S.shape[1] // 2
        imgs = {}
        for ci in cfgs:
            tag, eta, ems, p, q, qclass, support = EXH_CONFIGS[ci]
            if support not in imgs:
                imgs[support] = image_with_preimage(S, support)
            img = imgs[support]
            em = make_em(ems)
            t0 = time.time(); cnt = 0
            for itp in ((False, True) if fam == 'toric' and T > 1 and ci in (0, 4) else (False,)):
                dec = make_decoder(fam, eta, itp)
                for rint in enum_reachable(img, m, T, qclass):
                    if slices > 1 and rint[0] % slices != ctx.seed % slices:
                        continue
                    rows = np.array([to_vec(x, m) for x in rint], dtype=int)
                    # step errors / flips that produce this array (the witness of reachable_iff): whole error in step 0
                    if qclass == 'mid':
                        x = 0
                        for r_ in rint:
                            x ^= r_
                        e = img[x]
                        es = [e] + [np.zeros(2 * n, dtype=int)] * (T - 1)
                        meas, acc = [], np.zeros(m, dtype=int)
                        for t in range(T):
                            acc = acc ^ rows[t] ^ synd(S, es[t]); meas.append(acc.copy())
                    else:
                        es = [img[x] for x in rint]
                        meas = [np.full(m, 1 if qclass == 'one' else 0, dtype=int) for _ in range(T)]
                    rec.reset()
                    out = exc = None
                    try:
                        with core.TimeLimit(TL):
                            out = dec.decode_ftp(code, T, rows.copy(), error_model=em, error_probability=p,
                                                 measurement_error_probability=q, error=xor_rows(es), step_errors=es,
                                                 step_measurement_errors=meas)
                    except core.TimeLimit.Expired:
                        ctx.extra['timeouts'] = ctx.extra.get('timeouts', 0) + 1; continue
                    except Exception as ex:  # noqa: B902
                        exc = ex
                    rc = recipe(fam, size, T, eta, itp, ems, p, q, q, rows, meas, 'direct')
                    chk.check(fam, size, code, T, itp, rows, meas, out, exc, rc, 'exhaustive')
                    cnt += 1
            total += cnt
            domains.append({'family': fam, 'size': '{}x{}'.format(*size), 'T': T, 'context': tag, 'q_class': qclass,
                            'support': support, 'arrays': cnt, 's': round(time.time() - t0, 1),
                            'slice': 'all' if slices == 1 else '{} of {} (first row index mod {})'.format(
                                ctx.seed % slices, slices, slices)})
            ctx.count('exhaustive.domain', '{} {}x{} T={}'.format(fam, size[0], size[1], T))
    return total, domains


# ----------------------------------------------------------------------------------------------- part (c) histories

HIST_SIZES = {'toric': [(2, 2), (2, 4), (4, 2), (4, 4), (2, 6), (6, 2), (4, 6), (6, 4)],
              'planar': [(3, 3), (3, 4), (4, 3), (3, 5), (5, 3), (4, 4), (4, 5)]}
HIST_TL = 30


def _meas_wire(meas):
    return 'N' if meas is None else 'E' if len(meas) == 0 else mat(meas)


def _meas_unwire(s):
    return None if s == 'N' else [] if s == 'E' else [r for r in unmat(s)]


def make_proxy2(inner, rec=None):
    """recording wrapper with BOTH entry points (decode / decode_ftp) around one persistent decoder instance; every
    answer is snapshotted at return time (what the caller saw), so later in-place changes are visible"""
    from qecsim.model import Decoder, DecoderFTP, DecodeResult

    class Proxy2(Decoder, DecoderFTP):
        def __init__(self):
            self.calls = []   # dicts: mode, T, rows, kw, out, exc, snap, stages

        def _do(self, mode, code, T, rows, f, kw):
            c = {'mode': mode, 'T': T, 'rows': np.array(rows, dtype=int).reshape(T, -1), 'kw': dict(kw), 'out': None,
                 'exc': None, 'snap': None}
            self.calls.append(c)
            if rec is not None:
                rec.reset()
            try:
                with core.TimeLimit(HIST_TL):
                    out = f()
            except core.TimeLimit.Expired:
                c['exc'] = 'timeout'; raise
            except Exception as ex:  # noqa: B902
                c['exc'] = ex; raise
            c['out'] = out; c['snap'] = snapshot(out)
            if rec is not None:
                c['stages'] = (rec.sym, rec.clu, rec.clusters, rec.cmatches, rec.psym, rec.pclu)
            return out

        def decode(self, code, syndrome, **kw):
            return self._do('ideal', code, 1, syndrome, lambda: inner.decode(code, syndrome, **kw), kw)

        def decode_ftp(self, code, time_steps, syndrome, **kw):
            return self._do('ftp', code, time_steps, syndrome,
                            lambda: inner.decode_ftp(code, time_steps, syndrome, **kw), kw)

        @property
        def label(self):
            return 'proxy(' + inner.label + ')'

        def __repr__(self):
            return 'Proxy2({!r})'.format(inner)
    return Proxy2()


def result_arrays(out):
    """the numpy arrays a caller receives in one answer: [(name, array)]"""
    from qecsim.model import DecodeResult
    if isinstance(out, DecodeResult):
        return [(k, getattr(out, k)) for k in ('recovery', 'custom_values', 'logical_commutations')
                if isinstance(getattr(out, k), np.ndarray)]
    return [('recovery', out)] if isinstance(out, np.ndarray) else []


def snapshot(out):
    from qecsim.model import DecodeResult
    su = out.success if isinstance(out, DecodeResult) else 'n/a'
    return {'success': su, 'arrays': {k: np.array(a, copy=True) for k, a in result_arrays(out)}}


def snapshot_diff(out, snap):
    """None, or text saying how the answer now differs from what was returned"""
    from qecsim.model import DecodeResult
    su = out.success if isinstance(out, DecodeResult) else 'n/a'
    if su is not snap['success'] and su != snap['success']:
        return 'success {!r} -> {!r}'.format(snap['success'], su)
    now = dict(result_arrays(out))
    for k, a in snap['arrays'].items():
        if k not in now or np.shape(now[k]) != a.shape or not np.array_equal(now[k], a):
            return '{} {} -> {}'.format(k, a.tolist(), None if k not in now else np.asarray(now[k]).tolist())
    return None


def hist_steps(rng, fam, eta, tl_pool, n_steps, script=None):
    """one call history for ONE decoder instance (all inputs fixed up front, so that the history can be replayed):
    list of step dicts.  Kinds: tl (T>1, constructed time-like failure: the same measurement-flip pattern with odd X-
    or Z-plaquette parity in every step; rotated toric only), ftp (T>1 direct), ftp1 (T=1 direct), decode (ideal),
    app (run_once_ftp T>1), app1 (run_once_ftp T=1), once (run_once), runs1 (run_ftp T=1, 2-3 runs), runs (run_ftp T>1),
    scribble (the caller overwrites the arrays of an earlier answer in place)"""
    kinds_t = ['tl', 'tl', 'tl', 'ftp', 'ftp1', 'ftp1', 'decode', 'decode', 'app', 'app1', 'app1', 'once', 'runs1',
               'runs', 'scribble', 'scribble']
    kinds_p = ['ftp', 'ftp', 'ftp1', 'ftp1', 'decode', 'decode', 'app', 'app1', 'once', 'runs1', 'scribble', 'scribble']
    steps = []
    for i in range(n_steps):
        kind = script[i] if script else rng.choice(kinds_t if fam == 'toric' else kinds_p)
        size = rng.choice(HIST_SIZES[fam])
        if isinstance(kind, tuple):
            kind, size = kind
        if kind == 'scribble':
            if not steps:
                continue
            steps.append({'call': 'scribble', 'what': rng.choice(['custom_values', 'recovery', 'all']),
                          'how': rng.choice(['ones', 'flip', 'zeros']), 'back': rng.choice([1, 1, 1, 2, 3])})
            continue
        nq = size[0] * size[1]
        T = 1 if kind in ('ftp1', 'decode', 'app1', 'once', 'runs1') else rng.choice([2, 2, 3, 4] if nq <= 16 else [2, 2, 3])
        if eta is None:
            ems = rng.choice(FINITE_DERIVED + [('bpf',), ('bpf',)])
        else:
            ems = rng.choice(ANY_MODEL)
        p = rng.choice([0.05, 0.1, 0.2])
        q = rng.choice([0.0, 0.1]) if T == 1 else rng.choice([0.05, 0.1, 0.2])
        st = {'size': list(size), 'T': T, 'em': list(ems), 'p': p, 'q': q, 'kind': kind}
        if kind in ('tl', 'ftp', 'ftp1', 'decode'):
            code = make_code(fam, size); S = code.stabilizers; m = S.shape[0]; n = S.shape[1] // 2
            em = make_em(ems); nprng = np.random.default_rng(rng.getrandbits(63))
            zero_e, zero_m = np.zeros(2 * n, dtype=int), np.zeros(m, dtype=int)
            if kind == 'tl':
                mvec = np.array(rng.choice(tl_pool[tuple(size)]), dtype=int)
                es = [zero_e] * T
                if rng.random() < 0.4:
                    es = [np.array(em.generate(code, p, nprng), dtype=int) if t == 0 else zero_e for t in range(T)]
                ms = [mvec.copy() for _ in range(T)]
                if rng.random() < 0.2:   # an extra short-lived flip on top of the wrapping pattern
                    ms[rng.randrange(T)][rng.randrange(m)] ^= 1
            else:
                es = [np.array(em.generate(code, p, nprng), dtype=int) for _ in range(T)]
                ms = [np.array(gens.rand_bits(rng, m, q), dtype=int) for _ in range(T)]
            rows = np.array([ms[t - 1] ^ synd(S, es[t]) ^ ms[t] for t in range(T)], dtype=int)
            if kind == 'decode':
                st.update(call='decode', rows=mat(rows))
            else:
                mk = rng.choice(['L', 'L', 'N', 'E']) if T == 1 else 'L'
                st.update(call='decode_ftp', rows=mat(rows),
                          meas='N' if mk == 'N' else 'E' if mk == 'E' else mat(ms))
        else:
            st.update(call={'app': 'run_once_ftp', 'app1': 'run_once_ftp', 'once': 'run_once', 'runs1': 'run_ftp',
                            'runs': 'run_ftp'}[kind], seed=rng.getrandbits(31))
            if kind in ('app1', 'runs1') and rng.random() < 0.5:
                st['q'] = None      # default measurement error probability
            if kind in ('runs1', 'runs'):
                st['max_runs'] = rng.choice([2, 3])
        steps.append(st)
    return steps


def hist_exec(dec, fam, st, rec=None):
    """execute one (non-scribble) step on the decoder instance `dec`; returns (code, proxy, data, exception, warnings)"""
    from qecsim import app
    code = make_code(fam, st['size']); em = make_em(tuple(st['em'])); proxy = make_proxy2(dec, rec)
    data = exc = None
    with capture_app_warnings() as wc:
        try:
            if st['call'] == 'decode_ftp':
                rows = unmat(st['rows']); meas = _meas_unwire(st['meas'])
                proxy.decode_ftp(code, st['T'], rows, error_model=em, error_probability=st['p'],
                                 measurement_error_probability=st['q'], step_measurement_errors=meas)
            elif st['call'] == 'decode':
                proxy.decode(code, unmat(st['rows'])[0], error_model=em, error_probability=st['p'])
            elif st['call'] == 'run_once_ftp':
                data = app.run_once_ftp(code, st['T'], em, proxy, st['p'], st['q'], np.random.default_rng(st['seed']))
            elif st['call'] == 'run_once':
                data = app.run_once(code, em, proxy, st['p'], np.random.default_rng(st['seed']))
            elif st['call'] == 'run_ftp':
                data = app.run_ftp(code, st['T'], em, proxy, st['p'], st['q'], max_runs=st['max_runs'],
                                   random_seed=st['seed'])
            else:
                raise core.Infra('unknown history step ' + repr(st))
        except core.TimeLimit.Expired:
            exc = 'timeout'
        except core.Infra:
            raise
        except Exception as ex:  # noqa: B902
            exc = ex
    return code, proxy, data, exc, wc.msgs


def hist_scribble(st, answers):
    """the caller overwrites arrays of an earlier answer in place (they are the caller's: nothing the decoder returns
    later may depend on them)"""
    if not answers:
        return
    a = answers[max(0, len(answers) - st['back'])]
    for k, arr in result_arrays(a['out']):
        if st['what'] in ('all', k) and isinstance(arr, np.ndarray) and arr.flags.writeable:
            if st['how'] == 'ones':
                arr[...] = 1
            elif st['how'] == 'zeros':
                arr[...] = 0
            else:
                arr[...] = 1 - (arr != 0)
    a['snap'] = snapshot(a['out'])


def hist_app_failures(fam, st, data, calls):
    """clauses of C03 on what qecsim.app reports for a step run through it"""
    bad = []
    if data is None or fam != 'toric' or st['call'] == 'run_once':
        return bad
    if st['call'] == 'run_once_ftp':
        cv = data.get('custom_values')
        if cv is None or np.shape(cv) != (2,):
            bad.append('run data lacks the two-element time-parity vector: {!r}'.format(cv))
        else:
            nz = bool(np.any(np.asarray(cv) != 0))
            if nz and data['success'] is not False:
                bad.append('run reports non-zero time parities {} with success=True'.format(np.asarray(cv).tolist()))
            if st['T'] == 1 and nz:
                bad.append('single-step run reports time parity {}'.format(np.asarray(cv).tolist()))
    elif st['call'] == 'run_ftp':
        ct = data.get('custom_totals')
        if ct is None or len(ct) != 2:
            bad.append('runs data lacks the two time-parity totals: {!r}'.format(ct))
        else:
            if st['T'] == 1 and any(ct):
                bad.append('single-step runs report time-parity totals {}'.format(list(ct)))
            want = [0, 0]
            for c in calls:
                if c['snap'] is not None and 'custom_values' in c['snap']['arrays']:
                    want = [int(a) + int(b) for a, b in zip(want, c['snap']['arrays']['custom_values'].tolist())]
            if len(calls) == data.get('n_run') and all(c['snap'] is not None for c in calls) and list(ct) != want:
                bad.append('time-parity totals {} differ from the sum {} of the vectors the decoder returned'.format(
                    list(ct), want))
            if any(ct) and not data.get('n_fail'):
                bad.append('non-zero time-parity totals {} with no failed run'.format(list(ct)))
    return bad


def run_history(h, upto=None, ctx=None, chk=None, rec=None, stats=None):
    """run (or re-run) one instance history on a NEW decoder object and evaluate, on every answer: the per-call clauses
    of C03 (`property_failures`), the app-level clauses, agreement with a fresh instance, no sharing of arrays between
    answers / with the decoder / with the inputs, and no retroactive change of earlier answers.
    Returns a list of (step index, failure text, key-suffix).  With ctx/chk given the full Checker (Lean monitor and
    result-constructor correspondence on the recorded stage outputs) also runs on every answer."""
    from qecsim.model import DecodeResult
    fam, eta, itp = h['family'], h['eta'], h['itp']
    dec = make_decoder(fam, eta, itp)
    answers = []      # dicts: out, snap, step, scribbled
    fails = []
    steps = h['steps'] if upto is None else h['steps'][:upto + 1]

    def rcp(k):
        return {'history': h, 'upto': k, 'via': 'history'}

    def check_unchanged(k, when):
        for a in answers:
            d = snapshot_diff(a['out'], a['snap'])
            if d:
                fails.append((k, 'the answer of step {} changed after it was returned ({}): {}'.format(
                    a['step'], when, d), 'retroactive'))
                a['snap'] = snapshot(a['out'])
    for k, st in enumerate(steps):
        if st['call'] == 'scribble':
            check_unchanged(k, 'before the caller touched it')
            hist_scribble(st, answers)
            continue
        code, proxy, data, exc, warns = hist_exec(dec, fam, st, rec)
        if exc == 'timeout':
            if stats is not None:
                stats['timeouts'] += 1
            break
        S = code.stabilizers
        if exc is not None and not any(c['exc'] is not None for c in proxy.calls):
            fails.append((k, '{} raised {!r} {}'.format(st['call'], exc, 'after decoding' if proxy.calls else
                                                        'before calling the decoder'), 'app-raises'))
        if any('RECOVERY DOES NOT RETURN TO CODESPACE' in w for w in warns):
            fails.append((k, "app logged 'RECOVERY DOES NOT RETURN TO CODESPACE'", 'codespace-warning'))
        for ci, c in enumerate(proxy.calls):
            T, rows, kw, out = c['T'], c['rows'], c['kw'], c['out']
            ideal = c['mode'] == 'ideal'
            meas = kw.get('step_measurement_errors')
            if c['exc'] is not None:
                fails.append((k, '{} raised {!r} on an input inside the stated domain'.format(
                    'decode' if ideal else 'decode_ftp', c['exc']), 'raises'))
                continue
            stages = c.get('stages')
            if chk is not None and stages is not None:
                rec.sym, rec.clu, rec.clusters, rec.cmatches, rec.psym, rec.pclu = stages
                n0 = len(ctx.counterexamples)
                chk.check(fam, tuple(st['size']), code, T, itp, rows, meas, out, None, rcp(k), 'history', ideal=ideal)
                for ce in ctx.counterexamples[n0:]:
                    ce['input'] = dict(ce['input'], failing_step=k, step=st)
            else:
                for b in property_failures(fam, S, T, itp, rows, out, ideal=ideal):
                    fails.append((k, b, b.split(' ')[0]))
            # ---- sharing: with earlier answers, the decoder object, the inputs, the code's cached matrices
            mine = result_arrays(out)
            others = [('answer of step {}'.format(a['step']), x) for a in answers for _, x in result_arrays(a['out'])]
            others += [('decoder attribute ' + nm, v) for nm, v in vars(dec).items() if isinstance(v, np.ndarray)]
            others += [('syndrome argument', rows), ('code.stabilizers', S), ('code.logicals', code.logicals)]
            others += [('step_measurement_errors', x) for x in (meas or []) if isinstance(x, np.ndarray)]
            for i, (nm, arr) in enumerate(mine):
                for nm2, arr2 in mine[i + 1:]:
                    if np.shares_memory(arr, arr2):
                        fails.append((k, 'returned {} and {} share memory'.format(nm, nm2), 'shared'))
                for wh, x in others:
                    if np.shares_memory(arr, x):
                        fails.append((k, 'returned {} shares memory with {}'.format(nm, wh), 'shared'))
            # ---- the same call on a fresh instance
            if rec is not None:
                rec.reset()
            fresh = make_decoder(fam, eta, itp)
            fout = fexc = None
            kw2 = {a: ([np.array(x, copy=True) for x in v] if a in ('step_measurement_errors', 'step_errors') and
                       v is not None else v) for a, v in kw.items()}
            try:
                with core.TimeLimit(HIST_TL):
                    fout = fresh.decode(code, rows[0].copy(), **kw2) if ideal else \
                        fresh.decode_ftp(code, T, rows.copy(), **kw2)
            except core.TimeLimit.Expired:
                fexc = 'timeout'
            except Exception as ex:  # noqa: B902
                fexc = ex
            if fexc is None:
                stable = True
                if rec is not None and stages is not None:
                    stable = not (stages[3] or rec.cmatches) if fam == 'toric' else not (
                        (stages[5] is not None and np.any(stages[5])) or (rec.pclu is not None and np.any(rec.pclu)))
                elif not (T == 1 or itp):
                    stable = False
                a_s, f_s = snapshot(out), snapshot(fout)
                if isinstance(out, DecodeResult) and (T == 1 or itp or stable):
                    if a_s['success'] != f_s['success'] or not np.array_equal(
                            a_s['arrays'].get('custom_values'), f_s['arrays'].get('custom_values')):
                        fails.append((k, 'a reused decoder answers success={!r} custom_values={} where a fresh instance '
                                         'answers success={!r} custom_values={}'.format(
                                             a_s['success'], a_s['arrays'].get('custom_values'), f_s['success'],
                                             f_s['arrays'].get('custom_values')), 'fresh'))
                if stable and not np.array_equal(a_s['arrays'].get('recovery'), f_s['arrays'].get('recovery')):
                    fails.append((k, 'a reused decoder returns another recovery than a fresh instance on the same input '
                                     '(no cluster matching involved)', 'fresh'))
                if stats is not None:
                    stats['fresh-compared' if stable else 'fresh-unstable-matching'] += 1
            answers.append({'out': out, 'snap': c['snap'], 'step': k})
            check_unchanged(k, 'during a later call')
        for b in hist_app_failures(fam, st, data, proxy.calls):
            fails.append((k, b, 'app'))
        if stats is not None:
            stats['calls'] += len(proxy.calls)
            for c in proxy.calls:
                o = c['out']
                if isinstance(o, DecodeResult) and o.success is False:
                    stats['timelike-failures'] += 1
    check_unchanged(len(steps) - 1, 'at the end of the history')
    fails.sort(key=lambda f: (f[2] == 'shared', f[0]))    # clauses of the property first, hazards (aliasing) last
    return fails


def part_histories(ctx, chk, rec):
    """ONE decoder object reused across a sequence of decode_ftp / decode / run_once_ftp / run_once / run_ftp calls mixing
    T>1 (incl. constructed time-like failures), T=1 and ideal calls on codes of different sizes, with callers that
    overwrite returned arrays in place"""
    import random
    rng = random.Random(ctx.seed * 7919 + 31)
    # flip patterns with odd X- and/or Z-plaquette parity, taken from the MODEL (`c03 mtp`, measurement_tparities_spec)
    tl_pool, lines, cands = {}, [], []
    for size in HIST_SIZES['toric']:
        m = size[0] * size[1]
        for _ in range(24):
            v = [0] * m
            for i in rng.sample(range(m), rng.choice([1, 1, 2, 3])):
                v[i] = 1
            cands.append((size, v)); lines.append('c03 mtp {} {} {}'.format(size[0], size[1], bits(v)))
    for (size, v), rep in zip(cands, ctx.driver.ask(lines)):
        if rep in ('1,0', '0,1', '1,1'):
            tl_pool.setdefault(tuple(size), []).append(v)
    if any(tuple(s) not in tl_pool for s in HIST_SIZES['toric']):
        raise core.Infra('no time-like flip pattern found by the model for some size')
    stats = collections.Counter()
    scripted = []
    for follow in ('ftp1', 'decode', 'app1', 'once', 'runs1'):
        for s1, s2 in (((4, 4), (4, 4)), ((2, 4), (4, 2)), ((6, 4), (2, 2))):
            scripted.append(('toric', None, False, [('tl', s1), (follow, s2), ('ftp', s1), 'scribble', (follow, s1)]))
    scripted.append(('toric', 10, False, [('tl', (4, 4)), 'scribble', ('ftp1', (4, 4)), ('tl', (2, 2)), ('decode', (6, 2))]))
    scripted.append(('toric', None, True, [('tl', (4, 4)), ('ftp1', (4, 4)), ('ftp', (2, 4)), ('decode', (2, 4))]))
    scripted.append(('planar', None, False, [('ftp', (3, 3)), ('ftp1', (4, 3)), 'scribble', ('decode', (3, 3)),
                                             ('app1', (3, 5)), ('once', (3, 3))]))
    n_rand = ctx.scale(110, 800)
    n_hist = 0
    for i in range(len(scripted) + n_rand):
        if i < len(scripted):
            fam, eta, itp, script = scripted[i]; n_steps = len(script)
        else:
            fam = rng.choice(['toric', 'toric', 'toric', 'planar'])
            eta = rng.choice([None, None, 0.5, 10]); itp = fam == 'toric' and rng.random() < 0.15
            script = None; n_steps = rng.randint(3, 8)
        h = {'family': fam, 'eta': eta, 'itp': bool(itp), 'steps': hist_steps(rng, fam, eta, tl_pool, n_steps, script)}
        fails = run_history(h, None, ctx, chk, rec, stats)
        n_hist += 1
        ctx.count('history.family', fam); ctx.count('history.steps', len(h['steps']))
        for st in h['steps']:
            ctx.count('history.call', st.get('kind', st['call']))
        seen = set()
        for k, what, suffix in fails:
            if (k, what) in seen:
                continue
            seen.add((k, what))
            ctx.monitor_fail('decoder-instance history, step {} ({}): {}'.format(k, h['steps'][k].get('kind', h['steps'][k]['call']), what),
                             {'history': h, 'upto': k, 'via': 'history', 'failing_step': k, 'step': h['steps'][k]},
                             key='Rotated{}SMWPM.history:{}'.format('Planar' if fam == 'planar' else 'Toric', suffix))
    return n_hist, stats



# ----------------------------------------------------------------------------------------------- part (d) bias contexts

def derived_bias(em):
    """independent statement of the documented bias derivation (eta=None): the bias of a Y-biased depolarizing model,
    else p_y / (p_x + p_z) of probability_distribution(1) in plain Python floats.
    -> ('finite', b) | ('infinite', None) | ('invalid', why)"""
    from qecsim.models.generic import BiasedDepolarizingErrorModel
    if isinstance(em, BiasedDepolarizingErrorModel) and em.axis == 'Y':
        b = float(em.bias)
    else:
        _, px, py, pz = (float(x) for x in em.probability_distribution(1))
        if px + pz == 0:
            return ('infinite', None) if py > 0 else ('invalid', 'no error at all')
        b = py / (px + pz)
    if b > 0 and b != float('inf') and b == b:
        return 'finite', b
    return 'invalid', 'bias {!r}'.format(b)


TINY = [1e-15, 1e-13, 1e-12, 1e-11, 1e-10, 3e-10, 1e-9, 1e-8, 1e-7, 1e-6]
BIASES = [1e-12, 1e-9, 1e-6, 1e-3, 0.5, 1, 30, 1e3, 1e6, 1e9, 1e10, 1e11, 1e12]


def bias_context_specs():
    """CONTEXT error models as a class: every model family with its parameters at the extremes"""
    out = [('dep',), ('bpf',), ('bf',), ('pf',)]
    for b in BIASES:
        out += [('bdep', b, 'Y'), ('bdep', b, 'X'), ('bdep', b, 'Z'), ('byx', b)]
    out.append(('byx', 0))
    for t in TINY:
        # one tiny component beside a dominant one; pos = 1 is the limit itself, pos = -1 the opposite boundary point
        for lim in ([0, 1, t], [t, 1, 0], [1, t, 0], [0, t, 1], [t, 0, 1], [1, 0, t]):
            out += [('cs', lim, 1.0), ('cs', lim, -1.0)]
        out += [('cs', [0, 1, t], 1 - t), ('cs', [t, 1, 0], 0.5), ('cs', [0, 1, 0], 1 - t), ('cs', [0, 1, 0], 1.0)]
    return out


BIAS_SIZES = {'planar': [(3, 3), (3, 4), (4, 3), (4, 4), (3, 5), (5, 5)],
              'toric': [(2, 2), (2, 4), (4, 2), (4, 4), (4, 6), (6, 4), (6, 6)]}


def qubit_classes(fam, size, n):
    """representatives of every qubit class of the lattice (row-major flat index: corners, edges, bulk) - on the torus
    all qubits are equivalent up to translation, so the same positions are simply a spread"""
    R, C = size
    cand = {0, C - 1, n - C, n - 1, C // 2, n - 1 - C // 2, (R // 2) * C, (R // 2) * C + C - 1, (R // 2) * C + C // 2,
            min(n - 1, C + 1)}
    return sorted(c for c in cand if 0 <= c < n)


def support_errors(rng, fam, size, n, allowed, count):
    """step errors in the SUPPORT of the model (improbable but possible): single X / Z / Y on each qubit class, pairs,
    a light random error - only operators of positive probability"""
    cls = qubit_classes(fam, size, n)
    singles = [(q, o) for q in cls for o in allowed]
    rng.shuffle(singles)
    out = []
    for o in allowed:                     # every operator of the support at least once
        out.append([(rng.choice(cls), o)])
    for q, o in singles[:max(0, count - len(out) - 2)]:
        out.append([(q, o)])
    out.append([(rng.randrange(n), rng.choice(allowed)) for _ in range(2)])
    out.append([(rng.randrange(n), rng.choice(allowed)) for _ in range(rng.randint(2, 4))])
    vecs = []
    for ops in out:
        v = np.zeros(2 * n, dtype=int)
        for q, o in ops:
            if o in 'XY':
                v[q] ^= 1
            if o in 'ZY':
                v[n + q] ^= 1
        vecs.append((v, ops))
    return vecs


def part_bias_contexts(ctx, chk, rec):
    """derived-bias path (eta=None) of both decoders over extreme CONTEXT models x step errors in the model's support"""
    import random
    import warnings
    rng = random.Random(ctx.seed * 6151 + 47)
    specs = bias_context_specs()
    reps = ctx.scale(1, 4)
    per_ctx = ctx.scale(5, 8)
    stats = collections.Counter()
    for ems in specs * reps:
        em = make_em(ems)
        kind, b = derived_bias(em)
        fam = rng.choice(['planar', 'toric'])
        size = rng.choice(BIAS_SIZES[fam])
        T = rng.choice([1, 1, 2, 3])
        p = rng.choice([0.01, 0.1, 0.3, 0.5, 0.9])
        itp = fam == 'toric' and rng.random() < 0.15
        code = make_code(fam, size); S = code.stabilizers; m, n = S.shape[0], S.shape[1] // 2
        pd = [float(x) for x in em.probability_distribution(p)]
        allowed = [o for o, pr in zip('XYZ', pd[1:]) if pr > 0]
        tag = kind if kind != 'finite' else ('finite<=1e-9' if b <= 1e-9 else 'finite>=1e9' if b >= 1e9 else 'finite')
        ctx.count('bias.context', '{} {}'.format(ems[0], tag))
        if not allowed:
            stats['no-support'] += 1
            continue
        dec = make_decoder(fam, None, itp)
        for v, ops in support_errors(rng, fam, size, n, allowed, per_ctx):
            es = [np.zeros(2 * n, dtype=int) for _ in range(T)]
            es[rng.randrange(T)] = v
            meas = [np.zeros(m, dtype=int) for _ in range(T)]
            q = 0 if T == 1 else rng.choice([0, 0.1, p])
            if T > 1 and q and rng.random() < 0.5:
                for _ in range(rng.randint(1, 2)):
                    meas[rng.randrange(T)][rng.randrange(m)] ^= 1
            rows = np.array([meas[t - 1] ^ synd(S, es[t]) ^ meas[t] for t in range(T)], dtype=int)
            rc = recipe(fam, size, T, None, itp, ems, p, q, q, rows, meas, 'bias-context')
            rc['step_error'] = ['{}{}'.format(o, qq) for qq, o in ops]
            rec.reset()
            out = exc = None
            try:
                with core.TimeLimit(TL), warnings.catch_warnings():
                    warnings.simplefilter('ignore')
                    out = dec.decode_ftp(code, T, rows.copy(), error_model=em, error_probability=p,
                                         measurement_error_probability=q, error=xor_rows(es), step_errors=es,
                                         step_measurement_errors=meas)
            except core.TimeLimit.Expired:
                stats['timeouts'] += 1; continue
            except Exception as ex:  # noqa: B902
                exc = ex
            if kind != 'finite':
                # outside the stated domain unless the decoder takes the bias as infinite (Y-only model, exact zero X/Z)
                if isinstance(exc, ValueError) and 'does not resolve' in str(exc):
                    stats['out-of-domain:' + kind + ' rejected with the documented ValueError'] += 1
                    break
                if kind == 'invalid':
                    stats['out-of-domain:invalid accepted'] += 1
                    break
            stats['decodes'] += 1
            stats['decodes ' + tag] += 1
            ctx.count('bias.step_error', '+'.join(sorted(o for _, o in ops)) if len(ops) < 3 else 'random')
            chk.check(fam, size, code, T, itp, rows, meas, out, exc, rc, 'bias-context')
    return stats


# ----------------------------------------------------------------------------------------------- entry points

def run(ctx):
    rec = Rec()
    chk = Checker(ctx, rec)
    t = time.time()
    part_tparity(ctx)
    part_mtp(ctx)
    part_finalize_scripted(ctx)
    n_single = part_single_step(ctx)
    part_witness(ctx)
    ctx.extra['part_a_s'] = round(time.time() - t, 1)
    with patched(rec):
        t = time.time()
        n_exh, domains = part_exhaustive(ctx, chk, rec)
        ctx.extra['exhaustive_s'] = round(time.time() - t, 1)
        t = time.time()
        n_rand, timeouts = part_app_runs(ctx, chk, rec)
        ctx.extra['app_runs_s'] = round(time.time() - t, 1)
        t = time.time()
        n_hist, hstats = part_histories(ctx, chk, rec)
        ctx.extra['histories_s'] = round(time.time() - t, 1)
        timeouts += hstats.pop('timeouts', 0)
        t = time.time()
        bstats = part_bias_contexts(ctx, chk, rec)
        ctx.extra['bias_contexts_s'] = round(time.time() - t, 1)
        timeouts += bstats.pop('timeouts', 0)
    if timeouts:
        ctx.extra['timeouts'] = ctx.extra.get('timeouts', 0) + timeouts
    ctx.counterexamples.sort(key=lambda c: 0 if isinstance(c.get('input'), dict) and (
        'rows' in c['input'] or 'history' in c['input'] or 'single_step' in c['input']) else 1)
    if HOOKS_MISSING:
        # the stage functions the tie (a) observes are gone: the correspondence can no longer be evaluated
        ctx.case('c03 hooks ' + ','.join(sorted(set(HOOKS_MISSING))), 'present', meta={'part': 'hooks'})
    if os.environ.get('QV_DEBUG'):
        print('[c03] matchings-tie', dict(ctx.hist.get('toric.matchings-tie', {})), dict(ctx.hist.get('smwpm.toric.ftp', {})),
              dict(ctx.hist.get('smwpm.toric.stage-tp', {})))
        print('[c03]', ctx.extra, 'exh', n_exh, 'rand', n_rand, 'hist', n_hist, dict(hstats), [(d['family'], d['size'], d['T'], d['context'], d['arrays'], d['s'])
                                                                  for d in domains if d['s'] > 1.0])
    mon_rule = ('synd(code.stabilizers, recovery) == XOR of the rows handed to decode_ftp (Python and Lean driver), no '
                'exception, recovery present, no codespace warning from app, custom_values/success consistent')
    ctx.explored = {
        'smwpm_decoders_app_runs': {
            'evaluations': n_rand, 'exhaustive': False,
            'rule': 'run_once_ftp behind a recording proxy over random (family, size, T, p, q, bias context, itp); '
                    'monitor: ' + mon_rule},
        'smwpm_decoders_reachable_enumeration': {
            'evaluations': n_exh, 'exhaustive': True, 'domains': domains,
            'rule': 'decode_ftp called directly on EVERY array of `reachable` (characterised by reachable_iff_mid/'
                    '_zero/_one) for each listed (lattice, T, decoder context); monitor: ' + mon_rule},
    }
    ctx.explored['smwpm_decoder_instance_histories'] = {
        'evaluations': int(hstats.get('calls', 0)), 'exhaustive': False, 'histories': n_hist,
        'timelike_failures_in_histories': int(hstats.get('timelike-failures', 0)),
        'compared_with_fresh_instance': int(hstats.get('fresh-compared', 0)),
        'rule': 'ONE decoder object reused over 3-8 calls (decode_ftp T>1 incl. flip patterns that wrap the periodic time '
                'axis, decode_ftp T=1, decode, app.run_once_ftp / run_once / run_ftp) on codes of different sizes, the caller '
                'overwriting returned arrays in place in between; on every answer: monitor: ' + mon_rule + ', same answer '
                'as a fresh instance, no array shared between answers / with the decoder / with the arguments, earlier '
                'answers unchanged'}
    ctx.explored['smwpm_derived_bias_contexts'] = {
        'evaluations': int(bstats.get('decodes', 0)), 'exhaustive': False,
        'counts': {k: int(v) for k, v in sorted(bstats.items())},
        'rule': 'decode_ftp with eta=None on extreme-parameter error models (all families) x step errors in the support of '
                'the model (single X/Z/Y on every qubit class, pairs, light random errors; T in 1..3; optional measurement '
                'flips); domain stated independently (documented p_y/(p_x+p_z) at probability 1 is positive finite, or X/Z '
                'weight exactly 0); monitor: ' + mon_rule}
    ctx.assumptions = [
        'the recovery construction of the SMWPM decoders (graph nodes/edges, clustering, paths, final XOR) is modelled in '
        'Model/Smwpm.lean and proved to return to the code space for ANY perfect matchings; the edge weights are modelled in '
        'Model/SmwpmWeight.lean (step counts, pruning, which contexts raise; the float VALUES of the three step weights are '
        'recomputed in the harness); gt.mwpm (networkx) is not modelled (irrelevant to this property as long as the matching '
        'is perfect, checked per decode)',
        'numpy Generator.choice never returns an outcome of probability 0 (q = 1 gives all flips, checked on every run)',
        'error models generate errors inside the GF(2) span used for the enumeration (all Paulis / Y-only / identity)',
        'code.stabilizers of the rotated codes is the matrix the property is about (C07)',
    ]
    # FTP recovery construction of the two symmetry-matching decoders against Model/Smwpm.lean (theorems: Props/C03/Smwpm.lean)
    from qv import c02_smwpm
    sm = c02_smwpm.cases(ctx)
    ctx.explored['smwpm_model_tie'] = {
        'evaluations': int(sm.get('decodes', 0)), 'exhaustive': False,
        'rule': 'ideal and FTP (T<=3) decodes: recorded graphs, matchings, clusters, both recovery stages and the final '
                'recovery compared exactly with Model/Smwpm.lean given the recorded matchings; rotated toric FTP decodes '
                'are made by the real app.run_once_ftp with scripted step errors / flips and additionally tie the stage '
                't-parities, success, custom_values (op tftp) and the rows / verdict of the run (op trun) to '
                'Model/SmwpmTp.lean'}
    from qv import c03_weights
    wt = c03_weights.cases(ctx)
    ctx.explored['smwpm_edge_weights_tie'] = {
        'evaluations': int(wt['pairs'] + wt['edges'] + wt['clusters']), 'exhaustive': False,
        'rule': '_distance of both SMWPM decoders on all / random ordered node pairs in every argument context (step counts, '
                'value under integer step weights, exception class; float value recomputed, 1e-12), every key and weight of '
                'real _graph / _graphs dictionaries on reachable syndromes (and the _add_edge filter), _cluster_distance on '
                'random cluster pairs — compared exactly with Model/SmwpmWeight.lean (theorems: Props/C03/Weights.lean); '
                'pairs={pairs} graph-edges={edges} cluster-pairs={clusters}'.format(**wt)}
    ctx.explored['single_step_runs'] = {
        'evaluations': int(n_single), 'exhaustive': False,
        'rule': 'app.run_once_ftp / app.run_ftp with time_steps=1 and the real rotated-toric decoder over sizes, p, q in '
                '{default,0,.2,1}, itp, bias contexts: custom_values / custom_totals is the two-element all-zero vector'}
    return ctx.finish(RULE, search=search,
                      explanation='run-level algebra, reachable-input characterisation and result-constructor logic '
                                  'are theorems tied by exact correspondence; the SMWPM matching/clustering internals '
                                  'are explored (randomly and exhaustively on the smallest lattices) with a Lean-verified '
                                  'monitor')


def _tail_property(impl, T, itp):
    """C03's second sentence evaluated on the canonical text of a real decode_ftp answer"""
    kv = dict(x.split('=', 1) for x in impl.split() if '=' in x)
    if 'cv' not in kv:
        return None
    cv = [] if kv['cv'] in ('_', 'N') else [int(x) for x in kv['cv'].split(',')]
    if len(cv) != 2:
        return 'custom_values is not a two-element vector'
    nz = any(cv)
    if nz and kv['su'] != '0':
        return 'non-zero time parities without success=False'
    if (T == 1 or itp) and (nz or kv['su'] != 'N'):
        return 'time-like failure declared although time_steps == 1 or itp'
    return None


def fin_counterexample(op, rc=None):
    """re-evaluate the second sentence of C03 (two time parities, non-zero only with success=False, never for a single
    step / itp) on the CURRENT tree: for a recorded real call via its recipe, else by driving the real tail with the
    stage outputs of the op line"""
    R, C, itp, T, sop, sx, sz, cop, cx, cz, meas = parse_fin(op)
    if rc:
        fails, txt = run_recipe(rc)
        fails = [f for f in fails]
        if fails:
            return {'what': fails[0], 'recipe': rc, 'decode_ftp_returned': txt}
        return None
    if max(sx, sz, cx, cz) > 1:
        return None
    impl = run_scripted_tail(R, C, itp, T, sop, sx, sz, cop, cx, cz, meas)
    why = _tail_property(impl, T, itp)
    if why:
        return {'what': why, 'op': op, 'decode_ftp_returned': impl,
                'how': 'real decode_ftp tail driven with these stage outputs (symmetry op/x/z, cluster op/x/z) and '
                       'step_measurement_errors'}
    return None


def search(m):
    """is the PROPERTY false on the real code for the disagreeing case?"""
    toks = m['op'].split()
    meta = m.get('meta') or {}
    if meta.get('kind') == 'weights':
        from qv import c03_weights
        return c03_weights.search(m)
    if toks[1] == 'mon':
        S, rows = unmat(toks[2]), unmat(toks[3])
        r = np.array([int(c) for c in toks[4]], dtype=int)
        if not np.array_equal(synd(S, r), xor_rows(rows)):
            out = {'what': 'recovery returned by decode_ftp does not have the syndrome of the total error (XOR of all '
                           'syndrome rows): recovery XOR error anticommutes with a stabilizer',
                   'recipe': meta.get('recipe'), 'recovery': toks[4],
                   'syndrome_of_recovery': bits(synd(S, r)), 'xor_of_rows': bits(xor_rows(rows))}
            if meta.get('recipe'):
                fails, txt = run_recipe(meta['recipe'])
                out['reproduced_by_direct_call'] = bool(fails)
            return out
        return None
    if toks[1] == 'fin':
        return fin_counterexample(m['op'], meta.get('recipe'))
    if toks[0] == 'smwpm' and meta.get('recipe'):
        # t-parities / success / custom_values as functions of the recorded matchings differ from Model/SmwpmTp.lean:
        # is the property itself false for this call?
        fails, txt = run_recipe(meta['recipe'])
        if fails:
            return {'what': fails[0], 'recipe': meta['recipe'], 'decode_ftp_returned': txt}
    return None


def replay(ctx, path):
    """re-run the recorded case(s) on the current tree; 1 iff the property still fails"""
    body = json.load(open(path)); bad = 0
    for v in body.get('violations', []):
        ce = v.get('counterexample') or {}
        inp = ce.get('input') if isinstance(ce.get('input'), dict) else {}
        mm = v.get('first_mismatch') or {}
        rc = (inp if 'rows' in inp or 'history' in inp or 'single_step' in inp else None) or ce.get('recipe') or (mm.get('meta') or {}).get('recipe')
        op = ce.get('op') or inp.get('op') or mm.get('op') or ''
        if rc:
            fails, txt = run_recipe(rc)
            print('replay', {k: rc[k] for k in ('family', 'size', 'T', 'eta', 'itp', 'em', 'p', 'qeff', 'upto') if k in rc}
                  or rc.get('single_step') or 'history', '->',
                  fails or 'property holds', '|', txt[:200])
            bad += bool(fails)
        elif op.startswith('c03 fin'):
            r = fin_counterexample(op); print('replay', op[:160], '->', r or 'property holds'); bad += bool(r)
    return 1 if bad else 0
