"""
C10 helper — the planar Y decoder on LARGE lattices, EXTREME probabilities and EVERY residual class, one decoder object reused throughout, against an exact reference that is independent of the decoder.

The exact specification of the Y decoder is cheap at any size: for pure-Y noise only Y-only operators have non-zero
probability, the Y-only operators with the syndrome of a Y-only error `e` are `e ⊕ ker A` (A = the m x n GF(2) matrix
whose column q is the syndrome of a single Y on qubit q; dim ker A = gcd(R, C)), and ker A splits into the all-Y
stabilizers and the all-Y logicals.  `YRef` computes ker A by Gaussian elimination over GF(2) (nothing of the decoder
is used), enumerates its 2^gcd elements, and returns for an error the weight histogram of each of the two classes, from
which the two coset sums follow as exact integers over D^n for any distribution (floats taken at their exact value).

Inputs (`cases(ctx)`), all decoded by ONE `PlanarYDecoder` object in shuffled order across codes (so lattices with equal
qubit count and transposed shapes — 6x9 / 9x6, 8x12 / 12x8, 10x15 / 15x10 — alternate on the same object):
  * sizes 2 <= R, C <= 15 in every gcd regime: co-prime, one side a multiple of the other (incl. square), and gcd not in
    {1, R, C} — the only shapes where the residual look-up table is consulted (quick: 6x9, 9x6, 8x10, 8x12, 10x15, 4x5,
    14x15 always, plus a seed-rotated choice from all the others; thorough: every shape up to 10x10, and larger ones);
  * errors (Y-only): none, light (weight 1..4), typical (every qubit with probability 0.05..0.2), heavy (weight up to
    n/3), and errors confined to ONE BOUNDARY LINE (top / bottom row, left / right column of horizontal edges): every
    subset when the line has <= 6 edges, else sampled subsets of every weight — on a shape with a look-up table these
    reach every residual class, i.e. every product of the boundary operators the table is built from;
  * distributions (1 - p, 0, p, 0) with p from 1e-6 to 0.95 (raw floats of BitPhaseFlipErrorModel and 2^-k values), so
    coset probabilities range from ~1 down to below 1e-1000 (legitimate: the decoder uses mpmath for exactly this);
    inputs whose two coset probabilities are both below 1e-60 are decoded three times.

Monitors per decode (`verdict`): the result is Y-only and has the syndrome; the two cosets the
decoder evaluates (its sample recovery times the all-Y stabilizers, with and without the all-Y logical) are, as sets, exactly the two classes of `e ⊕ ker A`; each recorded coset probability is within
relative 1e-11 of the exact rational; the class of the result is the exact arg-max whenever the exact RELATIVE gap
exceeds 1e-9 (never an absolute tolerance).  Where the model is cheap the same input is also a correspondence case:
`planary decode` (Model/PlanarY.lean, exact arithmetic) must return the same operator (model `tie` / gap <= 1e-9:
either class), and `planary ystabs` / `planary ylogical` must equal `_y_stabilizers` / `_y_logical` row for row.

`evaluate_input(meta)` (family 'planar-ybig') re-evaluates the monitors for a recorded input on the real code.
"""
import math
from fractions import Fraction

import numpy as np

from qv import core
from qv.core import bits, mat

FAMILY = 'planar-ybig'
REPEAT_BELOW = Fraction(1, 10 ** 60)
PS = [1e-6, 1e-5, 1e-4, 1e-3, 0.01, 0.03, 0.05, 0.1, 0.15, 0.2, 0.3, 0.4, 0.45, 0.5, 0.6, 0.8, 0.95,
      2.0 ** -20, 2.0 ** -10, 2.0 ** -4, 0.25]
FIXED_QUICK = [(6, 9), (9, 6), (8, 10), (8, 12), (10, 15), (4, 5), (14, 15)]
TIME_LIMIT = 120


def _c10():
    from qv.props import c10   # lazy: c10.py imports this module
    return c10


# ------------------------------------------------------------------------------------------------ exact reference

def gf2_kernel(A):
    """basis (list of 0/1 uint8 vectors) of {y : A y = 0 over GF(2)} by Gauss-Jordan elimination on Python integers"""
    m, n = A.shape
    rows = [int(''.join('1' if x else '0' for x in r[::-1]), 2) for r in A]   # bit q = column q
    pivots = []          # (column, row int) in reduced form
    used = [False] * m
    for col in range(n):
        bit = 1 << col
        pr = next((i for i in range(m) if not used[i] and rows[i] & bit), None)
        if pr is None:
            continue
        used[pr] = True
        prow = rows[pr]
        for i in range(m):
            if i != pr and rows[i] & bit:
                rows[i] ^= prow
        pivots.append((col, pr))
    pivcols = {c for c, _ in pivots}
    basis = []
    for free in range(n):
        if free in pivcols:
            continue
        v = np.zeros(n, dtype=np.uint8)
        v[free] = 1
        fb = 1 << free
        for col, pr in pivots:
            if rows[pr] & fb:
                v[col] = 1
        basis.append(v)
    return basis


class YRef:
    """exact Y-only reference for PlanarCode(R, C), built from code.stabilizers / code.logicals only"""

    def __init__(self, code):
        S = np.array(code.stabilizers, dtype=np.uint8)
        L = np.array(code.logicals, dtype=np.uint8)
        self.n = n = S.shape[1] // 2
        self.A = (S[:, :n] ^ S[:, n:]).astype(np.int64)     # A @ e % 2 = syndrome of the Y-only operator e
        self.LA = (L[:, :n] ^ L[:, n:]).astype(np.int64)
        basis = gf2_kernel(self.A.astype(np.uint8))
        if len(basis) > 16:
            raise core.Infra('Y-only kernel of {} has dimension {}'.format(code, len(basis)))
        self.dim = len(basis)
        K = np.zeros((1, n), dtype=np.uint8)
        for b in basis:
            K = np.concatenate((K, K ^ b))
        self.K = K
        self.cls = ((K.astype(np.int64) @ self.LA.T) % 2).any(axis=1)    # True = all-Y logical
        self.sanity = None
        if basis and ((np.array(basis, dtype=np.int64) @ self.A.T) % 2).any():
            self.sanity = 'kernel basis element with a syndrome'

    def syndrome(self, e):
        return (self.A @ np.asarray(e, dtype=np.int64)) % 2

    def classes(self, e):
        """the two classes of Y-only operators with the syndrome of e (x-halves, uint8 rows): [same class as e, other]"""
        rows = self.K ^ np.asarray(e, dtype=np.uint8)
        return [rows[~self.cls], rows[self.cls]]

    def class_of(self, y, e):
        """class (0 / 1) of the Y-only operator with x-half y relative to e; None when y ⊕ e has a syndrome"""
        d = (np.asarray(y, dtype=np.int64) ^ np.asarray(e, dtype=np.int64))
        if ((self.A @ d) % 2).any():
            return None
        return int(((self.LA @ d) % 2).any())


_POW = {}


def exact_sums(classes, n, aI, aY):
    """Σ_rows aY^wt aI^(n - wt) per class: exact integers (probabilities = these / D^n)"""
    key = (n, aI, aY)
    if key not in _POW:
        if len(_POW) > 64:
            _POW.clear()
        pi, py = [1], [1]
        for _ in range(n):
            pi.append(pi[-1] * aI)
            py.append(py[-1] * aY)
        _POW[key] = (pi, py)
    pi, py = _POW[key]
    out = []
    for rows in classes:
        cnt = np.bincount(rows.sum(axis=1, dtype=np.int64), minlength=n + 1)
        out.append(sum(int(c) * py[k] * pi[n - k] for k, c in enumerate(cnt) if c))
    return out


# ------------------------------------------------------------------------------------------------ real decoder

def run_real(dec, code, syndrome, dist):
    """one real decode on the GIVEN decoder object, its `_coset_probability` calls recorded (x-halves only)"""
    c10 = _c10()
    n = code.n_k_d[0]
    calls = []
    orig = dec._coset_probability

    def proxy(prob_dist, coset):
        p = orig(prob_dist, coset)
        coset = np.asarray(coset)
        calls.append((tuple(prob_dist), coset[:, :n].astype(np.uint8), bool(np.array_equal(coset[:, :n], coset[:, n:])),
                      +p))
        return p
    dec._coset_probability = proxy
    s = np.array(syndrome, dtype=int)
    try:
        with core.TimeLimit(TIME_LIMIT):
            out = dec.decode(code, s, error_model=c10.DistModel(dist), error_probability=0.1)
    except core.TimeLimit.Expired:
        return {'error': 'timeout'}
    except Exception as ex:  # any exception of the real decoder is part of the observed behaviour
        return {'error': type(ex).__name__ + ':' + str(ex)[:80]}
    finally:
        del dec._coset_probability
    return {'out': np.array(out, dtype=int), 'calls': calls,
            'syndrome_kept': bool(np.array_equal(s, np.array(syndrome, dtype=int)))}


def rowset(rows):
    return set(map(bytes, np.packbits(rows, axis=1)))


def verdict(ref, e, syndrome, dist, r, full=True):
    """the property for one recorded real decode; returns ('ok' | description, info dict)"""
    c10 = _c10()
    n = ref.n
    info = {}
    if 'error' in r:
        return 'raised ' + r['error'], info
    a, D = c10.numerators(dist)
    classes = ref.classes(e)
    nums = exact_sums(classes, n, a[0], a[2])
    den = D ** n
    exact = [Fraction(x, den) for x in nums]
    best = max(exact)
    info['exact'] = exact
    info['gap'] = (abs(exact[0] - exact[1]) / best) if best > 0 else Fraction(0)
    s = np.array(syndrome, dtype=np.int64)
    v = r['out']
    if len(v) != 2 * n or not np.array_equal(v[:n], v[n:]):
        return 'decode result is not a Y-only operator', info
    if not np.array_equal(ref.syndrome(v[:n]), s):
        return 'decode result does not have the syndrome', info
    if not r.get('syndrome_kept', True):
        return 'decode changed the syndrome array it was given', info
    if len(r['calls']) != 2:
        return 'expected two coset evaluations, saw {}'.format(len(r['calls'])), info
    seen = []
    want = [None, None]
    for pd, xs, yonly, p in r['calls']:
        if tuple(pd) != tuple(float(x) for x in dist):
            return 'decoder used distribution {}'.format(pd), info
        if not yonly:
            return 'coset evaluated by the decoder has an element that is not Y-only', info
        c = ref.class_of(xs[0], e)
        if c is None:
            return 'coset evaluated by the decoder has an element without the syndrome', info
        if full:
            if want[c] is None:
                want[c] = rowset(classes[c])
            got = rowset(xs)
            if len(got) != len(xs) or got != want[c]:
                return ('coset evaluated by the decoder ({} rows, {} distinct) is not the class of {} Y-only operators '
                        'with the syndrome'.format(len(xs), len(got), len(want[c]))), info
        seen.append(c)
        pf = c10.to_fraction(p)
        if pf is None or abs(pf - exact[c]) > (c10.REL_TOL * exact[c] if exact[c] > 0 else c10.REL_TOL * (best or 1)):
            return 'coset class {} probability {} differs from the exact coset sum {}'.format(
                c, sci(pf), sci(exact[c])), info
    if sorted(seen) != [0, 1]:
        return 'the two cosets evaluated are not the two logical classes', info
    cr = ref.class_of(r['out'][:n], e)
    info['class'] = cr
    if best > 0 and info['gap'] > c10.GAP_TOL and cr != exact.index(best):
        return ('decode returned a recovery of the coset of probability {} but the other coset has probability {} '
                '(exact relative gap {})'.format(sci(exact[cr]), sci(best), sci(info['gap']))), info
    return 'ok', info


def log10_floor(fr):
    """floor(log10(fr)) up to one unit, from bit lengths (str() of a huge int is refused by CPython >= 3.11)"""
    return int(math.floor((fr.numerator.bit_length() - fr.denominator.bit_length()) * math.log10(2)))


def sci(fr):
    """scientific notation of a Fraction of any magnitude (floats underflow below 1e-308)"""
    if fr is None:
        return 'non-finite'
    fr = Fraction(fr)
    if fr == 0:
        return '0'
    sign = '-' if fr < 0 else ''
    fr = abs(fr)
    ex = log10_floor(fr)
    m = fr / Fraction(10) ** ex
    while m >= 10:
        m /= 10; ex += 1
    while m < 1:
        m *= 10; ex -= 1
    txt = '{:.4f}'.format(float(m))
    if txt.startswith('10.'):
        txt, ex = '1.0000', ex + 1
    return '{}{}e{:+d}'.format(sign, txt, ex)


# ------------------------------------------------------------------------------------------------ generators

def regime(size):
    g = math.gcd(*size)
    return 'coprime' if g == 1 else 'multiple' if max(size) % min(size) == 0 else 'table'


def pick_sizes(ctx):
    rng = ctx.rng
    allsz = [(r, c) for r in range(2, 16) for c in range(2, 16)]
    if ctx.quick():
        rest = [s for s in allsz if s not in FIXED_QUICK and s[0] * s[1] <= 170]
        rng.shuffle(rest)
        pick = []
        for reg, k in (('coprime', 2), ('multiple', 2), ('table', 2)):
            pick += [s for s in rest if regime(s) == reg][:k]
        # one large square (gcd = side: the biggest all-Y stabilizer groups) and one large co-prime shape
        pick.append(rng.choice([(9, 9), (10, 10), (11, 11), (12, 12)]))
        pick.append(rng.choice([(11, 13), (13, 11), (12, 13), (13, 14), (11, 15), (15, 11)]))
        return FIXED_QUICK + [s for i, s in enumerate(pick) if s not in pick[:i]]
    small = [s for s in allsz if max(s) <= 10]
    large = [s for s in allsz if max(s) > 10]
    rng.shuffle(large)
    pick = []
    for reg, k in (('coprime', 6), ('multiple', 6), ('table', 10)):
        pick += [s for s in large if regime(s) == reg and s != (15, 15)][:k]
    out = small + pick + [(15, 15), (14, 15), (10, 15), (15, 10), (12, 15), (9, 12), (8, 12), (12, 8)]
    return [s for i, s in enumerate(out) if s not in out[:i]]


def boundary_lines(code):
    """qubit indices (into the x-half) of the four boundary lines of horizontal edges"""
    R, C = code.size
    n = code.n_k_d[0]
    # qubit index of a site through the code's own pauli: set one Y and read the position
    def q(idx):
        return int(np.flatnonzero(code.new_pauli().site('Y', idx).to_bsf()[:n])[0])
    return {'top': [q((0, 2 * j)) for j in range(C)], 'bottom': [q((2 * R - 2, 2 * j)) for j in range(C)],
            'left': [q((2 * i, 0)) for i in range(R)], 'right': [q((2 * i, 2 * C - 2)) for i in range(R)]}


def errors_for(ctx, code, size):
    """list of (kind, sorted support) of Y-only errors"""
    rng, quick = ctx.rng, ctx.quick()
    n = code.n_k_d[0]
    big = n > 300
    out = [('none', [])]
    k = 2 if big else 3 if quick else 4
    for _ in range(k):
        out.append(('light', sorted(rng.sample(range(n), rng.randint(1, min(4, n))))))
    for _ in range(k):
        d = rng.choice([0.05, 0.1, 0.2])
        out.append(('typical', [q for q in range(n) if rng.random() < d]))
    for _ in range(k):
        out.append(('heavy', sorted(rng.sample(range(n), rng.randint(max(1, n // 6), max(1, n // 3))))))
    table = regime(size) == 'table'
    for name, line in sorted(boundary_lines(code).items()):
        L = len(line)
        if table and L <= 6:
            subs = [[line[i] for i in range(L) if (msk >> i) & 1] for msk in range(1, 1 << L)]
        else:
            cnt = (8 if quick else 24) if table else (2 if quick else 5)
            if big:
                cnt = max(2, cnt // 4)
            subs = []
            for j in range(cnt):
                w = 3 + j % max(1, min(L, 8) - 2) if L >= 3 else rng.randint(1, L)   # weights 3, 4, … (>= 3 operators)
                subs.append(rng.sample(line, min(w, L)))
        out += [('line-' + name, sorted(sub)) for sub in subs]
    return out


def bitphaseflip_dist(p):
    from qecsim.models.generic import BitPhaseFlipErrorModel
    return tuple(float(x) for x in BitPhaseFlipErrorModel().probability_distribution(p))


def model_cheap(size, quick):
    """is `planary decode R C …` cheap in the model?  (it rebuilds the look-up table, 2^(min(R, C) - gcd) keys found by
    linear search, and the co-prime destabilizers on every line)"""
    R, C = size
    if regime(size) == 'coprime':
        return R * C <= 42
    if regime(size) == 'multiple':
        return math.gcd(R, C) <= 8
    return min(R, C) - math.gcd(R, C) <= (4 if quick else 6) and R * C <= 150


# ------------------------------------------------------------------------------------------------ cases

def cases(ctx):
    from qecsim.models.planar import PlanarCode, PlanarYDecoder
    c10 = _c10()
    rng, quick = ctx.rng, ctx.quick()
    dec = PlanarYDecoder()            # ONE decoder object for the whole part
    sizes = pick_sizes(ctx)
    refs, codes, items = {}, {}, []
    for size in sizes:
        code = PlanarCode(*size)
        codes[size] = code
        ref = refs[size] = YRef(code)
        R, C = size
        ctx.count('ybig_size', '{}x{}'.format(R, C)); ctx.count('ybig_regime', regime(size))
        info = {'family': FAMILY, 'size': list(size)}
        if ref.sanity or ref.dim != math.gcd(R, C) or int(ref.cls.sum()) * 2 != len(ref.K):
            # the reference itself relies on code.stabilizers / code.logicals (property C07) being those of the planar code
            ctx.monitor_fail('Y-only kernel of {} has dimension {} (gcd {}), {} logical elements: {}'.format(
                code, ref.dim, math.gcd(R, C), int(ref.cls.sum()), ref.sanity), info, key='C10:ybig:reference')
            continue
        # the decoder's all-Y stabilizers / logical against the model (cheap below 2^12 elements) and the reference
        try:
            ys = np.array(PlanarYDecoder._y_stabilizers(code), dtype=np.uint8)
            yl = np.array(PlanarYDecoder._y_logical(code), dtype=np.uint8)
            n = ref.n
            if rowset(ys[:, :n]) != rowset(ref.K[~ref.cls]) or not np.array_equal(ys[:, :n], ys[:, n:]):
                ctx.monitor_fail('_y_stabilizers is not the complete group of all-Y stabilizers', info,
                                 key='C10:ybig:ystabs')
            if ref.class_of(yl[:n], np.zeros(n, dtype=int)) != 1 or not np.array_equal(yl[:n], yl[n:]):
                ctx.monitor_fail('_y_logical is not an all-Y non-trivial logical', info, key='C10:ybig:ylogical')
            if ref.dim <= (10 if quick else 12):
                ctx.case('planary ystabs {} {}'.format(R, C), mat(ys), meta=dict(info, op='ystabs'))
                ctx.case('planary ylogical {} {}'.format(R, C), bits(yl), meta=dict(info, op='ylogical'))
        except Exception as ex:  # noqa: BLE001
            ctx.monitor_fail('_y_stabilizers / _y_logical raised ' + repr(ex)[:80], info, key='C10:ybig:ystabs-raised')
            continue
        for kind, support in errors_for(ctx, code, size):
            p = rng.choice(PS)
            items.append((size, kind, support, p))
    rng.shuffle(items)
    n_model = {}
    for size, kind, support, p in items:
        code, ref = codes[size], refs[size]
        n = ref.n
        e = np.zeros(n, dtype=np.uint8)
        e[support] = 1
        syndrome = [int(x) for x in ref.syndrome(e)]
        dist = bitphaseflip_dist(p)
        meta = {'family': FAMILY, 'size': list(size), 'error_y_qubits': [int(q) for q in support],
                'dist': [float(x).hex() for x in dist], 'p': p, 'error_kind': kind}
        r = run_real(dec, code, syndrome, dist)
        v, info = verdict(ref, e, syndrome, dist, r)
        reps = 1
        if v == 'ok' and info.get('exact') and max(info['exact']) < REPEAT_BELOW and info['gap'] > c10.GAP_TOL:
            # far below any absolute scale: away from ties decode is a function of its input
            for _ in range(2):
                r2 = run_real(dec, code, syndrome, dist)
                v, info = verdict(ref, e, syndrome, dist, r2, full=False)
                reps += 1
                if v != 'ok':
                    break
                if not np.array_equal(r2['out'], r['out']):
                    v = 'two decodes of the same input, away from a tie, returned different recoveries'
                    break
            ctx.count('ybig_extreme', 'both cosets < 1e-60')
        ctx.extra['real_decodes'] = ctx.extra.get('real_decodes', 0) + reps
        ctx.extra['ybig_decodes'] = ctx.extra.get('ybig_decodes', 0) + reps
        ctx.count('decoder', 'PlanarYDecoder'); ctx.count('ybig_error', kind.split('-')[0])
        ctx.count('ybig_p', p if p >= 1e-3 else '<1e-3')
        if info.get('exact'):
            b = max(info['exact'])
            ctx.count('ybig_log10_best', 'zero' if b == 0 else (log10_floor(b) // 50) * 50)
            ctx.count('ybig_gap', 'tie' if info['gap'] == 0 else 'near-tie' if info['gap'] <= c10.GAP_TOL else 'decided')
        if v != 'ok':
            ctx.monitor_fail('PlanarYDecoder on PlanarCode{}: {}'.format(tuple(size), v), dict(meta, repeats=reps),
                             key='C10:ybig:' + v.split(' (')[0][:40])
            continue
        # the same input as a correspondence case where the model is cheap
        if model_cheap(size, quick) and n_model.get(size, 0) < (6 if quick else 10):
            n_model[size] = n_model.get(size, 0) + 1
            a, _D = c10.numerators(dist)
            want = bits(r['out'])

            def post(model, want=want, gap=info['gap']):
                return want if (model == 'tie' or gap <= c10.GAP_TOL) else model
            ctx.case('planary decode {} {} {} {} {}'.format(size[0], size[1], a[0], a[2], bits(syndrome)), want,
                     nontrivial=any(syndrome), meta=meta, post=post)
    ctx.flush()


# ------------------------------------------------------------------------------------------------ search / replay

def evaluate_input(meta):
    """the property on the real code for a recorded input (fresh decoder object; up to 6 decodes: away from a tie every
    one of them must return the exact arg-max class)"""
    from qecsim.models.planar import PlanarCode, PlanarYDecoder
    size = tuple(meta['size'])
    if meta.get('op') in ('ystabs', 'ylogical') or 'error_y_qubits' not in meta:
        return None
    code = PlanarCode(*size)
    ref = YRef(code)
    n = ref.n
    e = np.zeros(n, dtype=np.uint8)
    e[[int(q) for q in meta['error_y_qubits']]] = 1
    dist = tuple(float.fromhex(x) for x in meta['dist'])
    syndrome = [int(x) for x in ref.syndrome(e)]
    dec = PlanarYDecoder()
    for k in range(6):
        r = run_real(dec, code, syndrome, dist)
        v, info = verdict(ref, e, syndrome, dist, r, full=(k == 0))
        if v != 'ok':
            return {'what': 'PlanarYDecoder: ' + v, 'decoder': 'PlanarYDecoder', 'code': 'PlanarCode{}'.format(size),
                    'family': FAMILY, 'size': list(size), 'error_y_qubits': meta['error_y_qubits'],
                    'syndrome': bits(syndrome), 'prob_dist': list(dist), 'dist': meta['dist'], 'decode_number': k + 1,
                    'exact_coset_probabilities': [sci(x) for x in info.get('exact', [])]}
    return None
