"""C07 strengthening — site access / bsf agreement under HISTORIES, read-back on every family, constructor value universe.

Three input classes that the per-size structural cases of qv/families/*.py do not reach:

A. read-back.  For every family, on square and non-square sizes in both orientations, after every kind of write (each
   single-site operator, each plaquette, each logical, sampled paths) on a fresh Pauli, `operator()` is read at EVERY
   in-lattice site and at indices outside the lattice (which the tori wrap and the other families must refuse with
   IndexError).  Property monitor: the Pauli read at a site is the one the bsf holds at the flattened index, where the
   flattened index is stated independently (position of the site in the documented enumeration order), not taken from
   the code.  Where the Lean model has an `operatorAt` (planar, toric, colour) the same reads are also correspondence
   cases (`<family> opat …`).

B. histories.  Random sequences of site / plaquette / path / logical_* / to_bsf / operator / copy / new_pauli(bsf) /
   == calls on ONE Pauli object.  An accumulator holds the XOR of what each write does to a FRESH Pauli (single-site
   writes are additionally checked against the independent flattened index); `to_bsf()` of the object under test must
   equal the accumulator after every step (mode 'every') or at the random read points and the end (mode 'sparse': so
   that a stale cache that only shows when to_bsf was NOT read in between is reachable too).  `copy()` must be
   independent of its source, `code.new_pauli(bsf)` must be a view of the given array in both directions (documented
   in every `__init__`), `==` must follow the bsf.

C. constructors.  Every family's constructor is called with a universe of values in EACH argument position: plain
   ints around the documented range, bools, integral-valued and fractional floats, non-finite floats, numpy floats,
   Fraction, Decimal, complex, every numpy integer width, numpy bool, 0-d integer arrays, str, bytes, None, containers.
   Property monitor (independent of the model): a call is REJECTED with ValueError/TypeError unless every argument is
   an index (`operator.index` works — the documented meaning of "can be treated as an int") inside the documented
   range; an ACCEPTED object must be a usable code (integral n_k_d equal to that of the plain-int code, working
   stabilizers / logicals equal to the plain-int code's, working new_pauli).  Outcomes are also correspondence cases
   against the Lean `ctor` (tokens: i<int> index, bT/bF, f<a>/<b> any real-number object WITHOUT `__index__` of value
   a/b — float, numpy float, Fraction, Decimal —, s str, n None).

Every call into qecsim is guarded: an exception the property does not allow becomes a concrete monitor failure (with
the call that raised), never a harness crash.
"""
import decimal
import fractions
import numbers
import operator as _operator
import os
import traceback
import warnings

import numpy as np

from qv.core import bits, REPO

_SRC = os.path.realpath(os.path.join(REPO, 'src'))
_CAP = 4            # at most this many monitor failures per (family, kind): the first one is what gets reported


# ------------------------------------------------------------------------------------------------ families

class Fam:
    """independent statement of a family's lattice: ordered site list (= qubit order), wrap rule, size range"""
    name = None
    two = True              # two size arguments
    paths = False
    logicals = ('logical_x', 'logical_z')
    lean_opat = False

    def load(self):
        raise NotImplementedError

    def sites(self, size):
        raise NotImplementedError

    def norm(self, size, i):
        """tori: the in-lattice index that `i` wraps to; other families: None (no wrapping)"""
        return None

    def in_range(self, *ints):
        raise NotImplementedError

    def outside(self, size, rng, k):
        """k indices that are not in-lattice site indices (margin, far multiples of the period, wrong kind)"""
        raise NotImplementedError

    def plaquettes(self, code):
        return [tuple(int(x) for x in i) for i in code._plaquette_indices]

    def plaq_op(self, rng, i):
        return ('plaquette', i)

    plaq_operators = None   # the documented values of the `operator` argument of plaquette(), when it has one

    def plaq_spec(self, size, flat, op):
        """independent statement of what a `plaquette` write does to a fresh Pauli, for the families whose plaquette takes
        an OPERATOR argument: bsf vector, 'IndexError' (not a plaquette index), or None (no statement here: the other
        families' plaquettes are compared with the Lean model by qv/families/*)"""
        return None

    def path_pair(self, code, rng):
        return None

    def sizes(self, tier):
        raise NotImplementedError

    def opat_line(self, size, v, i):
        return None

    def tag(self, size):
        return '{} {}'.format(self.name, 'x'.join(str(s) for s in size))


def strip_sizes(legal, bound, tier):
    """tall-narrow / short-wide extremes beyond the square grid, both orientations: narrowest legal side against long
    sides 2*bound and 2*bound + 1 (aspect ratio >= 4 for every family; the per-size structural cases of qv/families/*
    carry the dense strip grid)"""
    legal = sorted(legal)
    longs = [v for v in legal if v in (2 * bound, 2 * bound + 1)]
    if tier != 'quick':
        longs += [v for v in legal if v in (3 * bound, 3 * bound + 1)][:1]
    return [x for l in longs for x in ((l, legal[0]), (legal[0], l))]


def _box(lo_r, hi_r, lo_c, hi_c):
    return [(r, c) for r in range(lo_r, hi_r + 1) for c in range(lo_c, hi_c + 1)]


class Planar(Fam):
    name = 'planar'
    paths = True
    lean_opat = True

    def load(self):
        from qecsim.models.planar import PlanarCode
        return PlanarCode

    def sites(self, size):
        R, C = size
        # qubit order: primal sites (even row, even column) row-major, then dual sites (odd, odd) row-major
        return [(r, c) for r in range(0, 2 * R - 1, 2) for c in range(0, 2 * C - 1, 2)] + \
               [(r, c) for r in range(1, 2 * R - 2, 2) for c in range(1, 2 * C - 2, 2)]

    def in_range(self, r, c):
        return r >= 2 and c >= 2

    def outside(self, size, rng, k):
        R, C = size
        inside = set(self.sites(size))
        cand = [i for i in _box(-3, 2 * R + 1, -3, 2 * C + 1) if i not in inside]
        return [rng.choice(cand) for _ in range(k)]

    def path_pair(self, code, rng):
        from qv.families.planar import plaquettes_with_virtual
        real, virt = plaquettes_with_virtual(code)
        allp = real + virt
        a = rng.choice(allp)
        same = [b for b in allp if code.is_primal(b) == code.is_primal(a)]
        return a, (rng.choice(same) if rng.random() < 0.9 else rng.choice(allp))

    def sizes(self, tier):
        b = 5 if tier == 'quick' else 7
        return [(r, c) for r in range(2, b + 1) for c in range(2, b + 1)] + strip_sizes(range(2, 64), b, tier)

    def opat_line(self, size, v, i):
        return 'planar opat {} {} {} {},{}'.format(size[0], size[1], bits(v), i[0], i[1])


class RotatedPlanar(Fam):
    name = 'rotatedplanar'

    def load(self):
        from qecsim.models.rotatedplanar import RotatedPlanarCode
        return RotatedPlanarCode

    def sites(self, size):
        R, C = size
        return [(x, y) for y in range(R) for x in range(C)]     # index = (x over columns, y over rows), flat = x + y*C

    def in_range(self, r, c):
        return r >= 3 and c >= 3

    def outside(self, size, rng, k):
        R, C = size
        inside = set(self.sites(size))
        cand = [i for i in _box(-3, C + 2, -3, R + 2) if i not in inside] + [(C, 0), (0, R), (R, C), (C + R, 0)]
        cand = [i for i in cand if i not in inside]
        return [rng.choice(cand) for _ in range(k)]

    def sizes(self, tier):
        b = 6 if tier == 'quick' else 8
        return [(r, c) for r in range(3, b + 1) for c in range(3, b + 1)] + strip_sizes(range(3, 64), b, tier)


class Toric(Fam):
    name = 'toric'
    paths = True
    logicals = ('logical_x1', 'logical_x2', 'logical_z1', 'logical_z2')
    lean_opat = True

    def load(self):
        from qecsim.models.toric import ToricCode
        return ToricCode

    def sites(self, size):
        R, C = size
        return [(l, r, c) for l in (0, 1) for r in range(R) for c in range(C)]

    def norm(self, size, i):
        R, C = size
        return (int(i[0]) % 2, int(i[1]) % R, int(i[2]) % C)

    def in_range(self, r, c):
        return r >= 2 and c >= 2

    def outside(self, size, rng, k):
        R, C = size
        out = []
        while len(out) < k:
            i = (rng.randint(-3, 4), rng.choice([rng.randint(-R - 2, 2 * R + 2), R, -1, rng.randint(-50, 50) * R + rng.randrange(R)]),
                 rng.choice([rng.randint(-C - 2, 2 * C + 2), C, -1, rng.randint(-50, 50) * C + rng.randrange(C)]))
            if not (0 <= i[0] < 2 and 0 <= i[1] < R and 0 <= i[2] < C):
                out.append(i)
        return out

    def plaquettes(self, code):
        return [tuple(int(x) for x in i) for i in code._indices]

    def path_pair(self, code, rng):
        R, C = code.size
        a = (rng.randint(0, 1), rng.randrange(R), rng.randrange(C))
        b = (a[0] if rng.random() < 0.9 else 1 - a[0], rng.randrange(R), rng.randrange(C))
        if rng.random() < 0.2:
            a = (a[0] + 2 * rng.randint(-1, 1), a[1] + R * rng.randint(-2, 2), a[2] + C * rng.randint(-2, 2))
        return a, b

    def sizes(self, tier):
        b = 5 if tier == 'quick' else 7
        return [(r, c) for r in range(2, b + 1) for c in range(2, b + 1)] + strip_sizes(range(2, 64), b, tier)

    def opat_line(self, size, v, i):
        return 'toric opat {} {} {} {},{},{}'.format(size[0], size[1], bits(v), i[0], i[1], i[2])


class RotatedToric(Fam):
    name = 'rotatedtoric'
    paths = True
    logicals = ('logical_x1', 'logical_x2', 'logical_z1', 'logical_z2')

    def load(self):
        from qecsim.models.rotatedtoric import RotatedToricCode
        return RotatedToricCode

    def sites(self, size):
        R, C = size
        return [(x, y) for y in range(R) for x in range(C)]

    def norm(self, size, i):
        R, C = size
        return (int(i[0]) % C, int(i[1]) % R)

    def in_range(self, r, c):
        return r >= 2 and c >= 2 and r % 2 == 0 and c % 2 == 0

    def outside(self, size, rng, k):
        R, C = size
        out = []
        while len(out) < k:
            i = (rng.choice([rng.randint(-C - 2, 2 * C + 2), C, -1, R, rng.randint(-50, 50) * C + rng.randrange(C)]),
                 rng.choice([rng.randint(-R - 2, 2 * R + 2), R, -1, C, rng.randint(-50, 50) * R + rng.randrange(R)]))
            if not (0 <= i[0] < C and 0 <= i[1] < R):
                out.append(i)
        return out

    def path_pair(self, code, rng):
        real = self.plaquettes(code)
        a = rng.choice(real)
        same = [b for b in real if code.is_z_plaquette(b) == code.is_z_plaquette(a)]
        b = rng.choice(same) if rng.random() < 0.9 else rng.choice(real)
        if rng.random() < 0.2:
            R, C = code.size
            a = (a[0] + C * rng.randint(-2, 2), a[1] + R * rng.randint(-2, 2))
        return a, b

    def sizes(self, tier):
        b = 6 if tier == 'quick' else 10
        ev = list(range(2, b + 1, 2))
        return [(r, c) for r in ev for c in ev] + strip_sizes(range(2, 64, 2), b, tier)


class Color666(Fam):
    name = 'color666'
    two = False
    lean_opat = True

    def load(self):
        from qecsim.models.color import Color666Code
        return Color666Code

    @staticmethod
    def _bound(L):
        return 3 * (L - 1) // 2

    def sites(self, size):
        b = self._bound(size[0])
        # triangular lattice 0 <= c <= r <= bound; plaquettes are the indices with c mod 3 == 2 - (r mod 3)
        return [(r, c) for r in range(b + 1) for c in range(r + 1) if c % 3 != 2 - (r % 3)]

    def in_range(self, s):
        return s >= 3 and s % 2 == 1

    def outside(self, size, rng, k):
        b = self._bound(size[0])
        inside = set(self.sites(size))
        cand = [i for i in _box(-3, b + 3, -3, b + 3) if i not in inside]
        return [rng.choice(cand) for _ in range(k)]

    plaq_operators = 'IXYZ'

    def plaq_op(self, rng, i):
        return ('plaquette', rng.choice(self.plaq_operators), i)   # every documented operator value, not just X / Z

    def plaq_spec(self, size, flat, op):
        o, (r, c) = op[1], op[2]
        if c % 3 != 2 - (r % 3):
            return 'IndexError'        # not a plaquette index
        n = len(flat)
        v = np.zeros(2 * n, dtype=int)
        # the operator on each of the six sites around the plaquette that lie in the lattice
        for s in ((r - 1, c - 1), (r - 1, c), (r, c - 1), (r, c + 1), (r + 1, c), (r + 1, c + 1)):
            j = flat.get(s)
            if j is None:
                continue
            if o in 'XY':
                v[j] ^= 1
            if o in 'ZY':
                v[n + j] ^= 1
        return v

    def sizes(self, tier):
        return [(s,) for s in range(3, (9 if tier == 'quick' else 13) + 1, 2)]

    def opat_line(self, size, v, i):
        return 'color666 opat {} {} {},{}'.format(size[0], bits(v), i[0], i[1])


FAMS = [Planar(), RotatedPlanar(), Toric(), RotatedToric(), Color666()]
BY_NAME = {f.name: f for f in FAMS}


# ------------------------------------------------------------------------------------------------ helpers

def clear_caches(cls):
    """qecsim caches n_k_d / stabilizers / … with functools.lru_cache keyed on `self`, and codes compare equal by size:
    a code built from numpy-typed sizes would otherwise answer (or be answered) from another object's cache entry"""
    for k in dir(cls):
        a = getattr(cls, k, None)
        a = a.fget if isinstance(a, property) else a
        if hasattr(a, 'cache_clear'):
            a.cache_clear()


def from_qecsim(tb):
    """does the traceback pass through the qecsim sources under test?"""
    for fr in traceback.extract_tb(tb):
        if os.path.realpath(fr.filename).startswith(_SRC):
            return True
    return False


def pauli_char(x, z):
    return 'IXZY'[int(x) + 2 * int(z)]


class Mon:
    """capped monitor reporter"""

    def __init__(self, ctx):
        self.ctx = ctx
        self.n = {}

    def fail(self, fam, kind, what, inp, key=None):
        k = (fam, kind)
        self.n[k] = self.n.get(k, 0) + 1
        if self.n[k] <= _CAP:
            self.ctx.monitor_fail('C07 fails on the real code: ' + what, inp, key=key)


def read(p, i):
    try:
        return str(p.operator(i))
    except IndexError:
        return 'IndexError'
    except Exception as ex:        # anything else is reported by the caller as a disagreement
        return 'raised ' + type(ex).__name__


def expected_read(fam, size, flat, acc, i):
    """what the bsf `acc` holds at the flattened index of `i` (tori: of the index `i` wraps to); IndexError when the
    family does not wrap and `i` is not an in-lattice site"""
    n = len(flat)
    j = flat.get(tuple(i))
    if j is None and fam.norm(size, i) is not None:
        j = flat.get(fam.norm(size, i))
    if j is None:
        return 'IndexError'
    return pauli_char(acc[j], acc[n + j])


def apply(p, op):
    k = op[0]
    if k == 'site':
        return p.site(op[1], *op[2])
    if k == 'plaquette':
        return p.plaquette(*op[1:])
    if k == 'path':
        return p.path(op[1], op[2])
    return getattr(p, k)()


def may_refuse(op):
    """IndexError is a documented answer only of the writes that take an index (site / plaquette / path outside the
    lattice or across lattices); a logical operator of a constructible code always exists"""
    return op[0] in ('site', 'plaquette', 'path')


def show(op):
    return [list(x) if isinstance(x, tuple) else ([list(y) for y in x] if isinstance(x, list) else x) for x in op]


def fresh_delta(code, op):
    """what `op` does to a fresh Pauli: (bsf, exception name or None)"""
    q = code.new_pauli()
    exc = None
    try:
        apply(q, op)
    except Exception as ex:
        exc = type(ex).__name__
    return np.array(q.to_bsf(), dtype=int), exc


def fresh_after(code, op):
    q = code.new_pauli()
    try:
        apply(q, op)
    except Exception:
        pass
    return q


def site_spec(fam, size, flat, op):
    """independent statement of a `site` write: XOR of the unit vectors at the flattened (wrapped) indices; an index
    that is not an in-lattice site contributes nothing (out of bounds = no effect) or raises (wrong kind) — None then"""
    n = len(flat)
    v = np.zeros(2 * n, dtype=int)
    for i in op[2]:
        j = flat.get(tuple(i))
        if j is None and fam.norm(size, i) is not None:
            j = flat.get(fam.norm(size, i))
        if j is None:
            return None
        if op[1] in 'XY':
            v[j] ^= 1
        if op[1] in 'ZY':
            v[n + j] ^= 1
    return v


def random_write(fam, code, size, sites, plaqs, rng, outside_share=0.3):
    u = rng.random()
    if u < 0.40:
        k = rng.choice([1, 1, 1, 2, 3])
        idx = [rng.choice(sites) if rng.random() > outside_share else fam.outside(size, rng, 1)[0] for _ in range(k)]
        if any(tuple(i) not in set(sites) and fam.norm(size, i) is None for i in idx):
            idx = idx[-1:]            # an index that may raise / be ignored goes alone (no partial application)
        return ('site', rng.choice('XYZXYZI'), idx)
    if u < 0.62:
        i = rng.choice(plaqs) if rng.random() < 0.85 else fam.outside(size, rng, 1)[0]
        return fam.plaq_op(rng, i)
    if u < 0.75 and fam.paths:
        a, b = fam.path_pair(code, rng)
        return ('path', a, b)
    return (rng.choice(fam.logicals),)


def plaq_agrees(want, v, exc):
    if isinstance(want, str):
        return exc == want and not v.any()
    return exc is None and np.array_equal(v, want)


def plaq_report(fam, size, flat, p, w, v, want, exc, tag):
    """concrete input for a plaquette write that is not the documented operator: the call, both bsfs, and what
    operator() reads at the sites the documented operator touches"""
    d = {'family': fam.name, 'size': list(size), 'code': tag, 'call': show(w), 'raised': exc, 'to_bsf': bits(v),
         'expected': want if isinstance(want, str) else bits(want)}
    if not isinstance(want, str):
        n = len(flat)
        inv = {k: s for s, k in flat.items()}
        touched = sorted({j % n for j in np.flatnonzero(want)} | {j % n for j in np.flatnonzero(v)})
        d['operator()_reads'] = {str(list(inv[j])): read(p, inv[j]) for j in touched[:8]}
        d['documented_reads'] = {str(list(inv[j])): pauli_char(want[j], want[n + j]) for j in touched[:8]}
    return d


# ------------------------------------------------------------------------------------------------ A. read-back

def readback(ctx, mon, fam, code, size):
    rng = ctx.rng
    sites = fam.sites(size)
    flat = {s: k for k, s in enumerate(sites)}
    n = len(sites)
    tag = fam.tag(size)
    if int(code.n_k_d[0]) != n:
        mon.fail(fam.name, 'n', 'n differs from the number of lattice sites', {'code': tag, 'n': int(code.n_k_d[0]),
                                                                               'sites': n})
        return
    plaqs = fam.plaquettes(code)
    # OPERATOR values as a class: every value the API documents ('I', 'X', 'Y', 'Z') wherever a write takes an operator
    writes = [('site', o, [s]) for s in sites for o in 'XYZ']
    writes += [('site', 'I', [s]) for s in rng.sample(sites, min(len(sites), ctx.scale(6, 16)))]
    if fam.plaq_operators:
        writes += [('plaquette', o, i) for i in plaqs for o in fam.plaq_operators]
        writes += [('plaquette', rng.choice(fam.plaq_operators), i) for i in fam.outside(size, rng, ctx.scale(6, 16))]
    else:
        writes += [fam.plaq_op(rng, i) for i in plaqs]
    writes += [(l,) for l in fam.logicals]
    if fam.paths:
        writes += [('path',) + tuple(fam.path_pair(code, rng)) for _ in range(ctx.scale(8, 20))]
    # wrapped / out-of-lattice single-site writes
    writes += [('site', rng.choice('IXYZ'), [i]) for i in fam.outside(size, rng, ctx.scale(10, 30))]
    lean_budget = ctx.scale(6, 16)
    for w in writes:
        p = code.new_pauli()
        exc = None
        try:
            apply(p, w)
        except Exception as ex:
            if isinstance(ex, IndexError) and may_refuse(w):
                exc = 'IndexError'
            else:
                mon.fail(fam.name, 'write-exc', 'constructible code {} raises {} from new_pauli().{}()'.format(
                    tag, type(ex).__name__, w[0]), {'family': fam.name, 'size': list(size), 'code': tag,
                                                    'call': show(w), 'error': repr(ex)[:200]})
                continue
        try:
            v = np.array(p.to_bsf(), dtype=int)
        except Exception as ex:
            mon.fail(fam.name, 'to_bsf-exc', 'to_bsf() raised', {'code': tag, 'call': show(w), 'error': repr(ex)[:200]})
            continue
        if v.shape != (2 * n,):
            mon.fail(fam.name, 'bsf-shape', 'to_bsf() has the wrong length', {'code': tag, 'call': show(w),
                                                                              'length': int(v.size)})
            continue
        if w[0] == 'site':
            want = site_spec(fam, size, flat, w)
            if want is not None and (exc is not None or not np.array_equal(v, want)):
                mon.fail(fam.name, 'site-write', 'site() does not toggle exactly the bit at the flattened index',
                         {'code': tag, 'call': show(w), 'to_bsf': bits(v), 'expected': bits(want), 'raised': exc})
                continue
            if want is None and v.any():
                mon.fail(fam.name, 'site-write-outside', 'site() at an index outside the lattice changes the operator',
                         {'code': tag, 'call': show(w), 'to_bsf': bits(v)})
                continue
        if w[0] == 'plaquette':
            want = fam.plaq_spec(size, flat, w)
            if want is not None and not plaq_agrees(want, v, exc):
                mon.fail(fam.name, 'plaq-write', 'plaquette({!r}, index) does not apply {!r} to exactly the in-lattice sites '
                         'around the plaquette: what was written is not what the bsf holds / operator() reads back'.format(
                             w[1], w[1]), plaq_report(fam, size, flat, p, w, v, want, exc, tag))
                continue
        idxs = list(sites) + fam.outside(size, rng, ctx.scale(6, 16))
        use_lean = fam.lean_opat and lean_budget > 0 and (w[0] != 'site' or rng.random() < 0.05)
        if use_lean:
            lean_budget -= 1
        for i in idxs:
            got = read(p, i)
            want = expected_read(fam, size, flat, v, i)
            if got != want:
                mon.fail(fam.name, 'read', 'operator() differs from what the bsf holds at the flattened index',
                         {'code': tag, 'writes': [show(w)], 'read_index': list(i), 'operator()': got,
                          'bsf_holds': want, 'flattened_index': flat.get(tuple(i), flat.get(fam.norm(size, i) or ())),
                          'to_bsf': bits(v)})
            if use_lean:
                ctx.case(fam.opat_line(size, v, i), got, nontrivial=(want not in ('I', 'IndexError')),
                         meta={'tag': tag, 'part': 'readback'})
    ctx.count('c07_readback_size', tag)


# ------------------------------------------------------------------------------------------------ B. histories

def history(ctx, mon, fam, code, size, length, mode, lean):
    rng = ctx.rng
    sites = fam.sites(size)
    sset = set(sites)
    flat = {s: k for k, s in enumerate(sites)}
    n = len(sites)
    tag = fam.tag(size)
    plaqs = fam.plaquettes(code)
    acc = np.zeros(2 * n, dtype=int)
    p = code.new_pauli()
    backing = None            # array the object under test is documented to be a view of
    retired = []              # (object, bsf it must still have, why)
    log = []
    state = {'ok': True}

    def ctxt(extra=None):
        d = {'code': tag, 'history': [show(o) for o in log], 'mode': mode}
        d.update(extra or {})
        return d

    def bad(kind, what, extra=None):
        state['ok'] = False
        mon.fail(fam.name, kind, what, ctxt(extra))

    def check_bsf(why):
        try:
            v = np.array(p.to_bsf(), dtype=int)
        except Exception as ex:
            bad('to_bsf-exc', 'to_bsf() raised {}'.format(type(ex).__name__), {'error': repr(ex)[:200]})
            return False
        if v.shape != acc.shape or not np.array_equal(v, acc):
            bad('hist-bsf', 'to_bsf() of a Pauli differs from the XOR of the operators applied to it ({})'.format(why),
                {'to_bsf': bits(v), 'expected': bits(acc)})
            return False
        if backing is not None and not np.array_equal(backing, acc):
            bad('view', 'new_pauli(bsf) is not a view of the given bsf: the array and the Pauli diverge',
                {'array': bits(backing), 'expected': bits(acc)})
            return False
        return True

    def check_read(i):
        got = read(p, i)
        want = expected_read(fam, size, flat, acc, i)
        if got != want:
            bad('hist-read', 'operator() differs from what the bsf holds at the flattened index',
                {'read_index': list(i), 'operator()': got, 'bsf_holds': want,
                 'flattened_index': flat.get(tuple(i), flat.get(fam.norm(size, i) or ())), 'bsf': bits(acc)})
            return False
        return True

    def do_write(obj, op):
        """apply op to obj; returns the delta it must have had (None when the comparison is impossible)"""
        d, dexc = fresh_delta(code, op)
        if op[0] == 'site':
            spec = site_spec(fam, size, flat, op)
            if spec is not None and (dexc is not None or not np.array_equal(d, spec)):
                bad('site-write', 'site() on a fresh Pauli does not toggle exactly the bits at the flattened indices',
                    {'call': show(op), 'to_bsf': bits(d), 'expected': bits(spec), 'raised': dexc})
                return None
        if op[0] == 'plaquette':
            spec = fam.plaq_spec(size, flat, op)
            if spec is not None and not plaq_agrees(spec, d, dexc):
                bad('plaq-write', 'plaquette({!r}, index) on a fresh Pauli does not apply {!r} to exactly the in-lattice '
                    'sites around the plaquette'.format(op[1], op[1]),
                    plaq_report(fam, size, flat, fresh_after(code, op), op, d, spec, dexc, tag))
                return None
        exc = None
        try:
            apply(obj, op)
        except Exception as ex:
            exc = type(ex).__name__
        if exc != dexc:
            bad('hist-exc', 'a write behaves differently on a used Pauli than on a fresh one',
                {'call': show(op), 'raised': exc, 'raised_on_fresh': dexc})
            return None
        if exc not in (None, 'IndexError') or (exc == 'IndexError' and not may_refuse(op)):
            bad('write-exc', 'constructible code {} raises {} from new_pauli().{}()'.format(tag, exc, op[0]),
                {'family': fam.name, 'size': list(size), 'call': show(op)})
            return None
        return d

    for step in range(length):
        if not state['ok']:
            return
        u = rng.random()
        if u < 0.50:
            op = random_write(fam, code, size, sites, plaqs, rng)
            log.append(op)
            d = do_write(p, op)
            if d is None:
                return
            acc ^= d
        elif u < 0.62:
            log.append(('to_bsf',))
            if not check_bsf('explicit read'):
                return
        elif u < 0.74:
            i = rng.choice(sites) if rng.random() < 0.7 else fam.outside(size, rng, 1)[0]
            log.append(('operator', i))
            if not check_read(i):
                return
        elif u < 0.84:
            try:
                q = p.copy()
                qv = np.array(q.to_bsf(), dtype=int)
            except Exception as ex:
                log.append(('copy',))
                bad('copy-exc', 'copy() raised', {'error': repr(ex)[:200]})
                return
            if not np.array_equal(qv, acc):
                log.append(('copy',))
                bad('copy', 'copy() of a Pauli has a different bsf than the XOR of the operators applied',
                    {'copy.to_bsf': bits(qv), 'expected': bits(acc)})
                return
            if not (q == p):
                log.append(('copy',))
                bad('copy-eq', 'copy() != original', {})
                return
            if rng.random() < 0.5:
                log.append(('copy', 'continue-on-copy (copy.to_bsf() was read)'))
                retired.append((p, acc.copy(), 'the source of a copy changed when the copy was modified'))
                if backing is not None:
                    retired.append((backing, acc.copy(), 'the array behind the source of a copy changed'))
                p, backing = q, None
            else:
                op = random_write(fam, code, size, sites, plaqs, rng)
                log.append(('copy', 'modify-copy', show(op)))
                d = do_write(q, op)
                if d is None:
                    return
                if not np.array_equal(np.array(q.to_bsf(), dtype=int), acc ^ d):
                    bad('copy-write', 'a write on a copy does not XOR its operator onto the copy', {})
                    return
                if d.any() and q == p:
                    bad('copy-eq', 'a modified copy still == the original', {})
                    return
        elif u < 0.92:
            log.append(('new_pauli(to_bsf())', 'continue-on-view'))
            try:
                arr = np.array(p.to_bsf(), dtype=int)
                q = code.new_pauli(arr)
            except Exception as ex:
                bad('view-exc', 'new_pauli(bsf) raised', {'error': repr(ex)[:200]})
                return
            if not np.array_equal(arr, acc):
                bad('hist-bsf', 'to_bsf() of a Pauli differs from the XOR of the operators applied to it (re-wrap)',
                    {'to_bsf': bits(arr), 'expected': bits(acc)})
                return
            retired.append((p, acc.copy(), 'a Pauli changed when a Pauli built from its to_bsf() was modified'))
            p, backing = q, arr
        elif u < 0.96 and backing is not None:
            j = rng.randrange(2 * n)
            log.append(('bsf_array[{}] ^= 1'.format(j),))
            backing[j] ^= 1
            acc[j] ^= 1
        else:
            log.append(('==',))
            try:
                same = (p == code.new_pauli(acc.copy()))
                other = acc.copy(); other[rng.randrange(2 * n)] ^= 1
                diff = (p == code.new_pauli(other))
            except Exception as ex:
                bad('eq-exc', '== raised', {'error': repr(ex)[:200]})
                return
            if not same or diff:
                bad('eq', '== between Paulis does not follow their bsf', {'equal_to_same_bsf': bool(same),
                                                                         'equal_to_other_bsf': bool(diff)})
                return
        if mode == 'every' and not check_bsf('checked after every step'):
            return
    log.append(('to_bsf',))
    if not check_bsf('end of history'):
        return
    for obj, want, why in retired:
        got = np.array(obj.to_bsf(), dtype=int) if hasattr(obj, 'to_bsf') else np.array(obj, dtype=int)
        if not np.array_equal(got, want):
            bad('alias', why, {'bsf': bits(got), 'expected': bits(want)})
            return
    idxs = list(sites) + fam.outside(size, rng, ctx.scale(8, 20))
    for i in idxs:
        log.append(('operator', i))
        ok = check_read(i)
        if lean and fam.lean_opat:
            ctx.case(fam.opat_line(size, acc, i), read(p, i), meta={'tag': tag, 'part': 'history'},
                     nontrivial=(tuple(i) in sset or fam.norm(size, i) is not None))
        log.pop()
        if not ok:
            return
    ctx.count('c07_history_len', min(length // 10 * 10, 60))
    ctx.count('c07_history_mode', mode)


def histories(ctx, mon, fam, code, size):
    rng = ctx.rng
    for h in range(ctx.scale(12, 40)):
        length = rng.choice([3, 5, 8, 12, 20, 30, 60])
        history(ctx, mon, fam, code, size, length, 'every' if h % 2 == 0 else 'sparse', lean=(h < 3))
    # the shortest stale-state shapes, systematically: read, one write of each kind, read — on one object
    sites = fam.sites(size)
    plaqs = fam.plaquettes(code)
    n = len(sites)
    firsts = [('site', 'Y', [sites[0]]), fam.plaq_op(rng, plaqs[0]), (fam.logicals[0],)]
    seconds = [('site', 'X', [sites[-1]]), fam.plaq_op(rng, plaqs[-1])] + [(l,) for l in fam.logicals]
    if fam.paths:
        seconds.append(('path',) + tuple(fam.path_pair(code, rng)))
    tag = fam.tag(size)
    for a in firsts:
        for b in seconds:
            p = code.new_pauli()
            doing = a
            try:
                da, _ = fresh_delta(code, a)
                db, _ = fresh_delta(code, b)
                apply(p, a)
                v1 = np.array(p.to_bsf(), dtype=int)
                doing = b
                apply(p, b)
                v2 = np.array(p.to_bsf(), dtype=int)
            except Exception as ex:
                if isinstance(ex, IndexError) and may_refuse(doing):
                    continue
                mon.fail(fam.name, 'short-exc', 'constructible code {} raises {} from new_pauli().{}()'.format(
                    tag, type(ex).__name__, doing[0]),
                    {'family': fam.name, 'size': list(size), 'code': tag, 'call': show(doing),
                     'history': [show(a), ['to_bsf'], show(b), ['to_bsf']], 'error': repr(ex)[:200]})
                continue
            if not np.array_equal(v1, da) or not np.array_equal(v2, da ^ db):
                mon.fail(fam.name, 'hist-bsf', 'to_bsf() of a Pauli differs from the XOR of the operators applied to it',
                         {'code': tag, 'history': [show(a), ['to_bsf'], show(b), ['to_bsf']],
                          'to_bsf': bits(v2), 'expected': bits(da ^ db)})


# ------------------------------------------------------------------------------------------------ C. constructors

CTX = [None]     # the running check context (set by `run`), for failures reported from inside `ctor_verdict`
NP_INTS = ['int8', 'uint8', 'int16', 'uint16', 'int32', 'uint32', 'int64', 'uint64', 'intp']


def universe():
    """(label, value, Lean token or None).  Labels are stable names used in replays."""
    U = []
    for v in range(-1, 8):
        U.append(('int {}'.format(v), v, 'i{}'.format(v)))
    U += [('bool True', True, 'bT'), ('bool False', False, 'bF')]
    for v in (2.0, 3.0, 4.0, 5.0, 6.0, -4.0, 0.0):
        U.append(('float {!r}'.format(v), v, 'f{}/1'.format(int(v))))
    U += [('float 2.5', 2.5, 'f5/2'), ('float 4.5', 4.5, 'f9/2'), ('float 4.1', 4.1, 'f41/10'),
          ('float inf', float('inf'), None), ('float -inf', float('-inf'), None), ('float nan', float('nan'), None)]
    U += [('numpy.float64 4.0', np.float64(4.0), 'f4/1'), ('numpy.float64 3.0', np.float64(3.0), 'f3/1'),
          ('numpy.float32 6.0', np.float32(6.0), 'f6/1'), ('numpy.float16 5.0', np.float16(5.0), 'f5/1')]
    U += [('Fraction 4', fractions.Fraction(4), 'f4/1'), ('Fraction 5', fractions.Fraction(5), 'f5/1'),
          ('Fraction 9/2', fractions.Fraction(9, 2), 'f9/2'),
          ('Decimal 4', decimal.Decimal(4), 'f4/1'), ('Decimal 3', decimal.Decimal(3), 'f3/1'),
          ('Decimal 4.5', decimal.Decimal('4.5'), 'f9/2')]
    U += [('complex 4+0j', complex(4, 0), None)]
    for t in NP_INTS:
        for v in (3, 4):
            U.append(('numpy.{} {}'.format(t, v), getattr(np, t)(v), 'i{}'.format(v)))
    U += [('numpy.int64 1', np.int64(1), 'i1'), ('numpy.int8 -4', np.int8(-4), 'i-4'), ('numpy.uint8 0', np.uint8(0), 'i0')]
    U += [('numpy.bool True', np.True_, None), ('numpy 0-d int array 4', np.array(4), None)]
    U += [('str 4', '4', 's'), ('str 3', '3', 's'), ('str asdf', 'asdf', 's'), ('bytes 4', b'4', None),
          ('None', None, 'n'), ('list [4]', [4], None), ('tuple (4,)', (4,), None), ('set {4}', {4}, None)]
    return U


def as_index(v):
    """the documented criterion 'can be treated as an int': operator.index works"""
    try:
        return int(_operator.index(v))
    except TypeError:
        return None


def plain(v):
    return type(v) is int


def reference(cls, ints):
    """what the plain-int code of this size publishes, or None when the plain-int code itself does not answer (that is
    reported per size by `published`, with the access that raised)"""
    clear_caches(cls)
    try:
        c = cls(*ints)
        ref = (tuple(int(x) for x in c.n_k_d), np.array(c.stabilizers), np.array(c.logical_xs), np.array(c.logical_zs))
    except Exception:
        ref = None
    clear_caches(cls)
    return ref


def usable(fam, cls, args, ref):
    """is the object the constructor returns for `args` the code the plain-int constructor gives? -> problem or None"""
    clear_caches(cls)
    try:
        with warnings.catch_warnings():
            warnings.simplefilter('ignore')
            c = cls(*args)
            nkd = c.n_k_d
            if not all(isinstance(x, numbers.Integral) for x in nkd):
                return 'n_k_d = {!r} is not integral'.format(nkd)
            if tuple(int(x) for x in nkd) != ref[0]:
                return 'n_k_d = {!r} but the code of this size has {!r}'.format(nkd, ref[0])
            for name, want in (('stabilizers', ref[1]), ('logical_xs', ref[2]), ('logical_zs', ref[3])):
                got = np.array(getattr(c, name))
                if got.shape != want.shape or not np.array_equal(got, want):
                    return '{} differ from those of the code of this size'.format(name)
            c.validate()
            i = fam.plaquettes(c)[0]
            v = apply(c.new_pauli(), ('plaquette', 'X', i) if fam.name == 'color666' else ('plaquette', i)).to_bsf()
            if len(v) != 2 * ref[0][0]:
                return 'new_pauli().plaquette(...).to_bsf() has length {}'.format(len(v))
        return None
    except Exception as ex:
        return 'n_k_d / stabilizers / logicals / new_pauli raise {}: {}'.format(type(ex).__name__, str(ex)[:120])
    finally:
        clear_caches(cls)


def ctor_verdict(fam, cls, labels, args, refs):
    """evaluates the constructor clause of C07 for one call -> (outcome string, violation dict or None, key or None)"""
    idx = [as_index(a) for a in args]
    documented = all(i is not None for i in idx) and fam.in_range(*idx)
    call = '{}({})'.format(cls.__name__, ', '.join(repr(a) for a in args))
    inp = {'family': fam.name, 'call': call, 'arguments': list(labels)}
    try:
        with warnings.catch_warnings():
            warnings.simplefilter('ignore')
            cls(*args)
    except (ValueError, TypeError) as ex:
        out = type(ex).__name__
        if documented and all(plain(a) for a in args):
            return out, dict(inp, what='a size in the documented range is rejected', error=repr(ex)[:200]), None
        return out, None, None
    except Exception as ex:
        return type(ex).__name__, dict(inp, what='constructor raises {} instead of ValueError/TypeError'.format(
            type(ex).__name__), error=repr(ex)[:200]), None
    if not documented:
        # accepted although out of range / not an int: show what the object is worth
        why = 'not an int' if any(i is None for i in idx) else 'outside the documented range'
        detail = None
        if all(i is not None for i in idx):
            pass
        try:
            with warnings.catch_warnings():
                warnings.simplefilter('ignore')
                clear_caches(cls)
                c = cls(*args)
                detail = 'n_k_d = {!r}'.format(c.n_k_d)
                detail += ', stabilizers.shape = {!r}'.format(np.array(c.stabilizers).shape)
        except Exception as ex:
            detail = (detail or '') + ' and then raises {}: {}'.format(type(ex).__name__, str(ex)[:120])
        finally:
            clear_caches(cls)
        return 'ok', dict(inp, what='a size that is {} is accepted instead of ValueError/TypeError'.format(why),
                          accepted_object=detail), None
    ints = tuple(idx)
    if ints not in refs:
        refs[ints] = reference(cls, ints)
    if refs[ints] is None:
        # the plain-int code of this (documented) size does not publish its data: a failure of C07 for that SIZE, whatever
        # the argument types — reported once per size with the access that raises
        from qv.families import common
        if CTX[0] is not None:
            common.published(CTX[0], fam.name, ints, lambda: cls(*ints))
            clear_caches(cls)
        return 'ok', None, None
    problem = usable(fam, cls, args, refs[ints])
    if problem:
        odd = sorted({type(a).__name__ for a in args if not plain(a)})
        key = 'ctor-accepts-unusable-index-type:{}'.format(fam.name) if odd and all(
            type(a).__module__ == 'numpy' for a in args if not plain(a)) else None
        return 'ok', dict(inp, what='the constructor accepts the sizes but the object is not the [[n,k]] code of that '
                                    'size: ' + problem), key
    return 'ok', None, None


def constructors(ctx, mon, fam):
    cls = fam.load()
    U = universe()
    refs = {}
    combos = [((la, lb), (a, b), (ta, tb)) for la, a, ta in U for lb, b, tb in U] if fam.two else \
        [((la,), (a,), (ta,)) for la, a, ta in U]
    for labels, args, toks in combos:
        out, viol, key = ctor_verdict(fam, cls, labels, args, refs)
        if viol:
            mon.fail(fam.name, 'ctor:' + viol['what'][:40] + (key or ''), viol.pop('what'), viol, key=key)
        if all(t is not None for t in toks):
            ctx.case('{} ctor {}'.format(fam.name, ' '.join(toks)), out, nontrivial=True,
                     meta={'tag': 'ctor', 'family': fam.name, 'labels': list(labels)})
        ctx.count('c07_ctor_outcome', fam.name + ' ' + out)
    # numpy-typed sizes over the whole size range of the family (same type in every position)
    for size in fam.sizes(ctx.tier):
        for t in NP_INTS:
            args = tuple(getattr(np, t)(s) for s in size)
            labels = tuple('numpy.{} {}'.format(t, s) for s in size)
            out, viol, key = ctor_verdict(fam, cls, labels, args, refs)
            if viol:
                mon.fail(fam.name, 'ctor:' + viol['what'][:40] + (key or ''), viol.pop('what'), viol, key=key)
            ctx.count('c07_ctor_numpy', fam.name + ' ' + t)
    clear_caches(cls)


def ctor_search(meta):
    """failing-input search for a broken `ctor` correspondence: evaluate the constructor clause on the recorded call
    and on every call that differs from it in one position"""
    fam = BY_NAME.get(meta.get('family'))
    if fam is None:
        return None
    cls = fam.load()
    U = {l: v for l, v, _ in universe()}
    base = list(meta['labels'])
    cands = [list(base)]
    for pos in range(len(base)):
        for l in U:
            c = list(base); c[pos] = l
            cands.append(c)
    refs = {}
    for labels in cands:
        out, viol, key = ctor_verdict(fam, cls, labels, tuple(U[l] for l in labels), refs)
        if viol and not key:
            return viol
    return None


# ------------------------------------------------------------------------------------------------ entry

def run(ctx, only=None):
    from qv.families import common
    mon = Mon(ctx)
    CTX[0] = ctx
    for fam in FAMS:
        if only and fam.name not in only:
            continue
        cls = fam.load()
        clear_caches(cls)
        grid = fam.sizes(ctx.tier)
        common.grid_report(ctx, fam.name + ' (site access / histories)', grid)
        for size in grid:
            # everything the code publishes first, each access guarded ('constructible code … raises …'); read-back and
            # histories need only the constructor and n_k_d, so they run even when e.g. a logical is not published
            pub = common.published(ctx, fam.name, size, lambda: cls(*size))
            if pub.code is None or 'n_k_d' in pub.failed:
                continue
            code = pub.code
            for part in (readback, histories):
                try:
                    part(ctx, mon, fam, code, size)
                except Exception as ex:
                    import sys
                    tb = sys.exc_info()[2]
                    if not from_qecsim(tb):
                        raise
                    line, inner = common.where_raised(tb)
                    common.report_raises(ctx, fam.name, size, line or part.__name__, ex, tb=tb)
        constructors(ctx, mon, fam)
    CTX[0] = None
    return mon
