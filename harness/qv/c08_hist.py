"""C08 strengthening — the distance facts under constructor argument TYPES and under HISTORIES.

"The advertised d is the true minimum distance" quantifies over every code OBJECT a user can obtain, whatever happened in
the process before.  Three input classes that the per-size checks of props/c08.py (one pristine plain-int object per
size) do not reach:

T. argument TYPES at overflow sizes.  The size arguments are narrow numpy integers (int8 / uint8 / int16 / uint16) at the
   sizes where a quantity derived from the RAW argument would first wrap in that type (r*c, 2rc, 3(s-1), s*s … around the
   type's maximum: squares around sqrt(M/k), strips and single sizes around M/k).  The object so built must be the code
   of that size: n_k_d, the supplied logicals (always cheap), and — where n(n-k) fits the budget — the stabilizers are
   compared with the plain-int code of the same size, typed object first / plain object first (caches NOT cleared in
   between: the typed object is ==/hash-equal to the plain one and shares the per-size caches) and with caches cleared.
M. caller MUTATIONS of library results.  Before a code is first used (fresh process) and after it was used, the caller
   converts the very operators the code publishes (paulitools.pauli_to_bsf of each string, of lists; pack/unpack; bsf
   views of its own Pauli objects; generated errors) and edits IN PLACE the arrays it was handed back (xor, zero, ones,
   single entries).  Only arrays the API hands out as results are edited (never code.stabilizers / logicals themselves).
S. user SUBCLASSES.  For every family a trivial subclass, the X/Z-swapped labelling, logicals times a stabilizer (qv/
   c06_exec.subclass) and a genuine code VARIANT through the public extension points (new_pauli returns a Pauli subclass
   whose `plaquette` skips one plaquette; own n_k_d) of the SAME size are used before / after the genuine code, in both
   orders; afterwards a new genuine code object of that size is evaluated (and the valid subclasses themselves).

After every history the distance facts are re-evaluated on a NEW code object:
   every supplied logical has weight >= d, commutes with every stabilizer and pairs canonically (so it is a non-trivial
   logical); rank S = n - k; no single-qubit operator is an undetected non-trivial logical; on the small sizes, when
   the matrices differ from the pristine ones, the full statement (optmode.c08_problem: all Paulis of weight <= 2 by brute
   force, then the independent level search with the logical basis derived from the stabilizers alone; d attained).
Every history runs in its own forked process (parent: qecsim imported, never called), so the first use of a code in a
history really is its first use in that process.  This file is also the worker script (job on stdin).
"""
import hashlib
import json
import math
import os
import subprocess
import sys

import numpy as np

STAB_CAP = 2.5 * 10 ** 6    # n * (n - k): stabilizers are built only below this
LOGICAL_CAP = 3 * 10 ** 5  # n: logicals are built only below this
SMALL_CAP = 2 * 10 ** 5     # C08 search space: matrices are dumped (full statement evaluated by the parent)
SMALL_N = 100               # … and at most this many qubits
NP_TYPES = ('int8', 'uint8', 'int16', 'uint16')
READ = ('n_k_d', 'stabilizers', 'logical_xs', 'logical_zs', 'logicals')


# ------------------------------------------------------------------------------------------ worker side

def typed(a):
    t, v = a
    return int(v) if t == 'int' else getattr(np, t)(v)


def show_arg(a):
    return str(a[1]) if a[0] == 'int' else 'numpy.{}({})'.format(*a)


_VAR = {}


def punctured(base, hole):
    """a code VARIANT defined through the public extension points: the plaquette `hole` is not measured"""
    k = (base, tuple(hole))
    if k in _VAR:
        return _VAR[k]

    def var_pauli(P):
        if ('pauli', P) not in _VAR:
            class VarPauli(P):
                def plaquette(self, *a):
                    if tuple(a[-1]) == self.code.HOLE:
                        return self
                    return super().plaquette(*a)
            VarPauli.__name__ = VarPauli.__qualname__ = 'Punctured' + P.__name__
            _VAR[('pauli', P)] = VarPauli
        return _VAR[('pauli', P)]

    class Var(base):
        HOLE = tuple(hole)

        @property
        def n_k_d(self):
            n, k, _ = super().n_k_d
            return n, k + 1, 1

        @property
        def label(self):
            return 'Punctured ' + super().label

        def new_pauli(self, bsf=None):
            return var_pauli(type(super().new_pauli()))(self, bsf)
    Var.__name__ = Var.__qualname__ = 'Punctured' + base.__name__
    _VAR[k] = Var
    return Var


def construct(op):
    from qv import c06_exec, optmode
    import importlib
    mod, name = optmode.CLASSES[op['fam']]
    cls = getattr(importlib.import_module(mod), name)
    sub = op.get('sub')
    if sub == 'punct':
        cls = punctured(cls, op['hole'])
    elif sub:
        cls = c06_exec.subclass(cls, sub)
    return cls(*[typed(a) for a in op['args']])


def show_ctor(op):
    from qv import optmode
    name = optmode.CLASSES[op['fam']][1]
    sub = op.get('sub')
    if sub == 'punct':
        name = 'Punctured{}[plaquette {} skipped]'.format(name, tuple(op['hole']))
    elif sub:
        name = '{}_{}'.format(name, sub)
    return '{}({})'.format(name, ', '.join(show_arg(a) for a in op['args']))


def _sha(M):
    M = np.ascontiguousarray(M)
    h = hashlib.sha256(np.packbits((M % 2).astype(np.uint8)).tobytes() + repr(M.shape).encode())
    if M.size and not (int(M.min()) >= 0 and int(M.max()) <= 1):
        h.update(b'values')
    return h.hexdigest()[:24]


def _rows_int(M):
    """rows of a binary matrix as Python ints (bit i = column i)"""
    P = np.packbits((M % 2).astype(np.uint8), axis=1, bitorder='little')
    return [int.from_bytes(r.tobytes(), 'little') for r in P]


def _bsp(A, B):
    n = A.shape[1] // 2
    A, B = (A % 2).astype(np.float64), (B % 2).astype(np.float64)   # BLAS; exact (entries < 2^53)
    return ((A[:, :n] @ B[:, n:].T + A[:, n:] @ B[:, :n].T) % 2).astype(np.int64)


DEEP_ROWS = 400             # rank / single-qubit tests run at once up to this many stabilizers, else only on request


def facts(code, fam, args, deep=False):
    """record of one code object: what it publishes + every cheap necessary condition of C08 that is false on it.
    Beyond DEEP_ROWS stabilizers the rank and single-qubit tests run only with deep=True: the parent asks for them when
    the digests differ from those of the pristine code of that size (equal matrices have equal facts)."""
    from qv import c08_search as cs
    rec = {'fam': fam, 'args': [int(a[1]) for a in args], 'type': type(code).__name__, 'cheap': [], 'shape': {}, 'sha': {}}
    bad = rec['cheap']
    try:
        nkd = code.n_k_d
        rec['n_k_d'] = [None if x is None else int(x) for x in nkd]
        n, k, d = rec['n_k_d']
        if d is None:
            return rec
        L = {}
        if n <= LOGICAL_CAP:
            for nm in ('logical_xs', 'logical_zs'):
                M = np.atleast_2d(np.array(getattr(code, nm)))
                if M.size == 0:
                    M = np.zeros((0, 2 * n), dtype=int)
                L[nm] = M
                rec['shape'][nm], rec['sha'][nm] = list(M.shape), _sha(M)
                if M.shape != (k, 2 * n):
                    bad.append('{} has shape {} for [[n,k]] = [[{},{}]]'.format(nm, M.shape, n, k))
        S = None
        if n * max(n - k, 1) <= STAB_CAP:
            S = np.atleast_2d(np.array(code.stabilizers))
            if S.size == 0:
                S = np.zeros((0, 2 * n), dtype=int)
            rec['shape']['stabilizers'], rec['sha']['stabilizers'] = list(S.shape), _sha(S)
            if S.shape[1] != 2 * n:
                bad.append('stabilizers have {} columns for n = {}'.format(S.shape[1], n))
                S = None
        if bad:
            return rec
        ok_L = len(L) == 2
        if ok_L:
            for nm, M in L.items():
                for i, r in enumerate(M % 2):
                    w = int(np.count_nonzero(r[:n] | r[n:]))
                    if w < d:
                        bad.append('supplied {}[{}] has weight {} < d = {}'.format(nm, i, w, d))
                        rec.setdefault('operator', ''.join(str(int(x)) for x in r) if 2 * n <= 400 else 'weight-{} row'.format(w))
                        rec.setdefault('true_min_weight', w)
            if not np.array_equal(_bsp(L['logical_xs'], L['logical_zs']), np.identity(k, dtype=np.int64)):
                bad.append('supplied logical_xs / logical_zs do not pair canonically')
        if S is not None:
            m = len(S)
            if ok_L and m and (_bsp(L['logical_xs'], S).any() or _bsp(L['logical_zs'], S).any()):
                bad.append('a supplied logical does not commute with the stabilizers')
            if m <= DEEP_ROWS and m and _bsp(S, S).any():
                bad.append('stabilizers do not mutually commute')
            rec['deep'] = bool(deep or m <= DEEP_ROWS)
            if not rec['deep']:
                return rec
            rows = _rows_int(S)
            span = cs.Span(rows)
            if span.rank != n - k:
                bad.append('stabilizer rank {} != n - k = {}: the normaliser quotient is larger than 4^k'.format(span.rank, n - k))
            if d > 1:
                Sx, Sz = (S[:, :n] % 2).astype(bool), (S[:, n:] % 2).astype(bool)
                cand = [('X', q, 1 << q) for q in np.nonzero(~Sz.any(0))[0].tolist()] + \
                       [('Z', q, 1 << (n + q)) for q in np.nonzero(~Sx.any(0))[0].tolist()] + \
                       [('Y', q, (1 << q) | (1 << (n + q))) for q in np.nonzero(~(Sx ^ Sz).any(0))[0].tolist()]
                for p, q, e in cand:
                    if not span.contains(e):
                        bad.append('operator of weight 1 < d = {} ({} on qubit {}) commutes with all {} stabilizers and is '
                                   'not a product of stabilizers'.format(d, p, q, m))
                        rec['operator'] = '{}{}'.format(p, q)
                        rec['true_min_weight'] = 1
                        break
            if cs.count_ops(n, d, fam != 'five') <= SMALL_CAP and n <= SMALL_N and ok_L:
                rec['mat'] = {nm: '/'.join(((r % 2) + 48).astype(np.uint8).tobytes().decode() for r in M)
                              for nm, M in (('stabilizers', S), ('logical_xs', L['logical_xs']), ('logical_zs', L['logical_zs']))}
    except Exception as ex:  # noqa: an exception is a difference too
        rec['exc'] = '{}: {}'.format(type(ex).__name__, ex)[:200]
    return rec


def api_call(op, keep):
    """one library call whose RESULT array is then edited in place by the caller"""
    from qecsim import paulitools as pt
    fn = op['fn']
    if fn == 'pauli_to_bsf':
        arr = pt.pauli_to_bsf(op['arg'])
    elif fn == 'unpack':
        arr = pt.unpack(pt.pack(pt.pauli_to_bsf(op['arg'])))
    elif fn == 'pauli_view':
        code = construct(op)
        p = code.new_pauli()
        p = getattr(p, op['what'])()
        keep.append(p)
        arr = p.to_bsf()
    elif fn == 'generate':
        from qecsim.models.generic import DepolarizingErrorModel
        arr = DepolarizingErrorModel().generate(construct(op), 0.3, np.random.default_rng(op['seed']))
    else:
        raise ValueError(fn)
    mut = op['mut']
    if not isinstance(arr, np.ndarray) or not arr.flags.writeable or arr.size == 0:
        return
    flat = arr.reshape(-1)
    if mut[0] == 'zero':
        arr[...] = 0
    elif mut[0] == 'ones':
        arr[...] = 1
    elif mut[0] == 'flip':
        for i in mut[1]:
            flat[i % flat.size] ^= 1
    elif mut[0] == 'set':
        flat[mut[1] % flat.size] = mut[2]
    elif mut[0] == 'xor':
        other = pt.pauli_to_bsf(mut[1])
        if other.shape == arr.shape:
            arr ^= other
        else:
            flat[0] ^= 1
    keep.append(arr)


def show_api(op):
    fn, mut = op['fn'], op['mut']
    call = {'pauli_to_bsf': 'pt.pauli_to_bsf({!r})'.format(op.get('arg')),
            'unpack': 'pt.unpack(pt.pack(pt.pauli_to_bsf({!r})))'.format(op.get('arg')),
            'pauli_view': '{}.new_pauli().{}().to_bsf()'.format(show_ctor(op) if 'fam' in op else '', op.get('what')),
            'generate': 'DepolarizingErrorModel().generate({}, 0.3, numpy.random.default_rng({}))'.format(
                show_ctor(op) if 'fam' in op else '', op.get('seed'))}[fn]
    edit = {'zero': 'a[...] = 0', 'ones': 'a[...] = 1', 'flip': 'for i in {}: a.reshape(-1)[i % a.size] ^= 1'.format(mut[1] if len(mut) > 1 else ''),
            'set': 'a.reshape(-1)[{} % a.size] = {}'.format(*(mut[1:] + [None, None])[:2]),
            'xor': 'a ^= pt.pauli_to_bsf({!r})'.format(mut[1] if len(mut) > 1 else '')}[mut[0]]
    return 'a = {}; {}'.format(call, edit)


def render(ops):
    """the history as the statements a user would type"""
    out = []
    for op in ops:
        k = op['k']
        if k == 'clear':
            out.append('<all functools caches of qecsim cleared>')
        elif k == 'touch':
            out.append('c = {}; {}'.format(show_ctor(op), '; '.join('c.' + r for r in op['read'])))
        elif k == 'api':
            out.append(show_api(op))
        elif k == 'eval':
            out.append('code = {}  # <- evaluated: n_k_d, stabilizers, logical_xs, logical_zs'.format(show_ctor(op)))
    return out


def run_history(ops):
    from qv import c06_exec
    keep, out, errors = [], [], []
    for j, op in enumerate(ops):
        k = op['k']
        try:
            if k == 'clear':
                c06_exec.clear_all_caches()
            elif k == 'touch':
                code = construct(op)
                n, kk, _ = code.n_k_d
                for r in op['read']:
                    # the same budget as `facts`: no 10^4-qubit matrices
                    if (r == 'stabilizers' and n * max(n - kk, 1) > STAB_CAP) or (r != 'n_k_d' and n > LOGICAL_CAP):
                        continue
                    getattr(code, r)
                keep.append(code)
            elif k == 'api':
                api_call(op, keep)
            elif k == 'eval':
                try:
                    code = construct(op)
                except (ValueError, TypeError) as ex:
                    out.append({'fam': op['fam'], 'args': [int(a[1]) for a in op['args']], 'rejected': type(ex).__name__})
                    continue
                keep.append(code)
                out.append(facts(code, op['fam'], op['args'], deep=op.get('deep', False)))
        except Exception as ex:  # noqa
            errors.append('op {} ({}): {}: {}'.format(j, k, type(ex).__name__, str(ex)[:120]))
            if k == 'eval':
                out.append({'fam': op['fam'], 'args': [int(a[1]) for a in op['args']],
                            'exc': '{}: {}'.format(type(ex).__name__, ex)[:200]})
    return {'recs': out, 'errors': errors}


def worker_main():
    import logging
    import warnings
    logging.disable(logging.CRITICAL)
    warnings.simplefilter('ignore')
    sys.path.insert(0, os.path.dirname(os.path.dirname(os.path.abspath(__file__))))
    from qv import c06_exec
    job = json.load(sys.stdin)
    import qecsim
    c06_exec._scan_caches()  # imports every qecsim module; nothing of qecsim is CALLED in this (parent) process
    res = [c06_exec.in_child(lambda h=h: run_history(h)) if job.get('fork', True) else run_history(h)
           for h in job['histories']]
    json.dump({'qecsim': os.path.realpath(os.path.dirname(qecsim.__file__)), 'results': res}, sys.stdout)


# ------------------------------------------------------------------------------------------ parent side

def spawn(histories):
    from qv import core
    env = dict(os.environ)
    env['PYTHONPATH'] = os.path.join(core.REPO, 'src') + (os.pathsep + env['PYTHONPATH'] if env.get('PYTHONPATH') else '')
    for k in ('OPENBLAS_NUM_THREADS', 'OMP_NUM_THREADS', 'MKL_NUM_THREADS'):
        env[k] = '1'
    p = subprocess.Popen([sys.executable, '-W', 'ignore', os.path.abspath(__file__)], stdin=subprocess.PIPE,
                         stdout=subprocess.PIPE, stderr=subprocess.PIPE, env=env, text=True)
    p.stdin.write(json.dumps({'histories': histories}))
    p.stdin.close()
    return p


def collect(p, timeout=1800):
    from qv import core
    try:
        out = p.stdout.read()
        p.wait(timeout=timeout)
    except subprocess.TimeoutExpired:
        p.kill()
        raise core.Infra('C08 history worker timed out')
    if p.returncode != 0:
        raise core.Infra('C08 history worker failed: ' + p.stderr.read()[-600:])
    body = json.loads(out[out.index('{'):])
    want = os.path.realpath(os.path.join(core.REPO, 'src', 'qecsim'))
    if body['qecsim'] != want:
        raise core.Infra('C08 history worker: qecsim resolves to {} not {}'.format(body['qecsim'], want))
    return body['results']


def run_histories(histories, workers=4):
    chunks = [list(range(len(histories)))[k::workers] for k in range(workers)]
    procs = [(ch, spawn([histories[i] for i in ch])) for ch in chunks if ch]
    out = [None] * len(histories)
    try:
        for ch, p in procs:
            for i, r in zip(ch, collect(p)):
                out[i] = r
    finally:
        for _, p in procs:
            if p.poll() is None:
                p.kill()
    return out


def plain(args):
    return [['int', int(a)] for a in args]


def ev(fam, args, **kw):
    return dict({'k': 'eval', 'fam': fam, 'args': [list(a) for a in args]}, **kw)


def touch(fam, args, read=READ, **kw):
    return dict({'k': 'touch', 'fam': fam, 'args': [list(a) for a in args], 'read': list(read)}, **kw)


# ---- T: argument types

def thresholds(M):
    """values around which a polynomial of low degree in the size first exceeds M (k*s and k*s*s for k = 1..4)"""
    return sorted({M // k for k in (1, 2, 3, 4)} | {math.isqrt(M // k) for k in (1, 2, 3, 4)})


LEGAL = {
    'planar': lambda v: v >= 2, 'toric': lambda v: v >= 2, 'rotatedplanar': lambda v: v >= 3,
    'rotatedtoric': lambda v: v >= 2 and v % 2 == 0, 'color666': lambda v: v >= 3 and v % 2 == 1,
}


def around(fam, v, M, above=2):
    """legal size values next to the threshold v: the largest one <= v and the `above` smallest ones > v (within the type)"""
    ok = LEGAL[fam]
    lo = next((x for x in range(v, max(v - 4, 0), -1) if ok(x)), None)
    hi = [x for x in range(v + 1, v + 6) if ok(x) and x <= M][:above]
    return ([lo] if lo is not None else []) + hi


def type_sizes(fam, t, tier):
    M = int(np.iinfo(getattr(np, t)).max)
    big = 10 ** 5 if tier == 'quick' else 3 * 10 ** 5        # n of the largest code touched (logicals only there)
    out = set()
    for v in thresholds(M):
        vals = around(fam, v, M, above=1 if tier == 'quick' else 2)
        if fam == 'color666':
            out |= {(s,) for s in vals if (3 * s * s + 1) // 4 <= big}
            continue
        a = min(x for x in range(2, 6) if LEGAL[fam](x))       # the narrowest legal side
        for x in vals:
            for size in ((x, x), (a, x), (x, a)) + (((x, vals[0]), (vals[0], x)) if tier != 'quick' else ()):
                if 2 * size[0] * size[1] <= big:
                    out.add(size)
    return sorted(out)


def type_histories(tier):
    """(meta, ops) per (family, size, type, order)"""
    H = []
    for fam in ('planar', 'toric', 'rotatedplanar', 'rotatedtoric', 'color666'):
        for t in NP_TYPES:
            for size in type_sizes(fam, t, tier):
                ta, pa = [[t, int(s)] for s in size], plain(size)
                meta = {'part': 'types', 'fam': fam, 'size': list(size), 'type': t,
                        'order': 'typed object first, then plain (caches shared); caches cleared; plain first, then typed'}
                H.append((meta, [ev(fam, ta, role='typed, first use of the size in the process'),
                                 ev(fam, pa, role='plain, after the typed object'), {'k': 'clear'},
                                 touch(fam, pa), ev(fam, ta, role='typed, after the plain object')]))
    return H


# ---- M / S: the codes whose facts are re-evaluated after a history

def small_codes(tier):
    out = [('five', ()), ('steane', ()), ('planar', (2, 2)), ('planar', (2, 3)), ('planar', (3, 3)), ('planar', (2, 4)),
           ('toric', (2, 2)), ('toric', (2, 3)), ('toric', (3, 3)), ('rotatedplanar', (3, 3)), ('rotatedplanar', (3, 4)),
           ('rotatedplanar', (4, 4)), ('rotatedtoric', (2, 2)), ('rotatedtoric', (2, 4)), ('rotatedtoric', (4, 4)),
           ('color666', (3,)), ('color666', (5,))]
    if tier != 'quick':
        out += [('planar', (3, 4)), ('planar', (4, 4)), ('planar', (4, 3)), ('toric', (4, 4)), ('toric', (3, 4)),
                ('rotatedplanar', (5, 5)), ('rotatedplanar', (4, 5)), ('rotatedtoric', (4, 6)), ('color666', (7,))]
    return out


def published_strings(fam, args):
    """the operators a code publishes, as Pauli strings (computed in THIS process, not in the workers)"""
    from qecsim import paulitools as pt
    from qv import optmode
    c = optmode.make_code(fam, args)
    f = lambda M: [pt.bsf_to_pauli(r) for r in np.atleast_2d(M)]  # noqa: E731
    return {'stabilizers': f(c.stabilizers), 'logical_xs': f(c.logical_xs), 'logical_zs': f(c.logical_zs)}


def rand_mut(rng, strings):
    k = rng.choice(['zero', 'ones', 'flip', 'flip', 'set', 'xor', 'xor'])
    if k == 'flip':
        return ['flip', [rng.randrange(10 ** 4) for _ in range(rng.choice([1, 2, 3]))]]
    if k == 'set':
        return ['set', rng.randrange(10 ** 4), 0]
    if k == 'xor':
        s = rng.choice(strings)
        other = ''.join(ch if rng.random() < 0.6 else 'I' for ch in s)
        return ['xor', other if other != s else 'I' * len(s)]
    return [k]


def mutation_histories(rng, tier):
    H = []
    codes = small_codes(tier)
    lattice = [c for c in codes if c[1]]
    for fam, args in codes:
        pub = published_strings(fam, args)
        allstr = pub['stabilizers'] + pub['logical_xs'] + pub['logical_zs']
        n = len(allstr[0])
        for order in ('before-first-use', 'after-first-use'):
            for rep in range(1 if tier == 'quick' else 3):
                ops = []
                if order == 'after-first-use':
                    ops.append(touch(fam, plain(args)))
                # the caller converts the operators the code publishes (each string on its own, whole lists, round trips)
                # and edits the arrays it gets back
                for s in allstr:
                    ops.append({'k': 'api', 'fn': rng.choice(['pauli_to_bsf', 'pauli_to_bsf', 'pauli_to_bsf', 'unpack']),
                                'arg': s, 'mut': rand_mut(rng, allstr)})
                for key in ('stabilizers', 'logical_xs', 'logical_zs'):
                    ops.append({'k': 'api', 'fn': 'pauli_to_bsf', 'arg': pub[key], 'mut': rand_mut(rng, allstr)})
                for s in ('I' * n, 'X' * n, 'Y' * n, 'Z' * n, ''.join(rng.choice('IXYZ') for _ in range(n))):
                    ops.append({'k': 'api', 'fn': 'pauli_to_bsf', 'arg': s, 'mut': rand_mut(rng, allstr)})
                if args:
                    from qv import optmode
                    names = sorted(m for m in dir(optmode.make_code(fam, args).new_pauli()) if m.startswith('logical_'))
                    for what in names + ['copy']:
                        ops.append({'k': 'api', 'fn': 'pauli_view', 'fam': fam, 'args': plain(args), 'what': what,
                                    'mut': rng.choice([['zero'], ['ones'], ['flip', [rng.randrange(10 ** 4)]]])})
                ops.append({'k': 'api', 'fn': 'generate', 'fam': fam, 'args': plain(args), 'seed': rng.randrange(2 ** 16),
                            'mut': rng.choice([['zero'], ['ones']])})
                rng.shuffle(ops) if order == 'before-first-use' else None
                others = rng.sample(lattice, 2)
                ops += [ev(fam, plain(args), role='after-mutations')] + [ev(f, plain(a), role='other-code') for f, a in others]
                H.append(({'part': 'mutation', 'fam': fam, 'size': list(args), 'order': order}, ops))
    return H


def holes(fam, args):
    from qv import optmode
    c = optmode.make_code(fam, args)
    idx = [tuple(int(x) for x in i) for i in (c._plaquette_indices if hasattr(c, '_plaquette_indices') else c._indices)]
    return [idx[0], idx[len(idx) // 2], idx[-1]]


def subclass_histories(rng, tier):
    H = []
    for fam, args in small_codes(tier):
        variants = ['plain', 'swap', 'stab'] + (['punct'] if args else [])
        for v in variants:
            kw = {'sub': v}
            if v == 'punct':
                kw['hole'] = list(rng.choice(holes(fam, args)))
            pa = plain(args)
            meta = {'part': 'subclass', 'fam': fam, 'size': list(args), 'variant': v}
            tail = [ev(fam, pa, role='genuine-after-subclass')]
            if v != 'punct':
                tail.append(ev(fam, pa, role='valid-subclass', **kw))
            # which of the published data the subclass reads first matters (each is cached separately)
            for read in (READ, ('stabilizers',), ('logicals',), ('logical_zs', 'logical_xs')):
                H.append((dict(meta, order='subclass-first', read=list(read)), [touch(fam, pa, read=read, **kw)] + tail))
            H.append((dict(meta, order='genuine-first'), [touch(fam, pa), touch(fam, pa, **kw)] + tail))
            if tier != 'quick':
                H.append((dict(meta, order='genuine-first-partial'),
                          [touch(fam, pa, read=('n_k_d', 'logical_xs')), touch(fam, pa, **kw)] + tail))
    return H


# ---- judging

def differs(a, b):
    return [k for k in ('n_k_d', 'shape', 'sha') if a.get(k) != b.get(k)]


def judge(rec, pristine):
    """(what, extra) when C08 is false on the code object of `rec`, else None; `lead` strings are returned separately"""
    from qv import optmode
    if rec.get('rejected'):
        return None
    if rec.get('cheap'):
        # the statement of C08 itself first (a light operator), then the facts that only imply it
        first = sorted(rec['cheap'], key=lambda w: 0 if w.startswith(('operator of weight', 'supplied logical_')) and
                       ' weight ' in w else 1)[0]
        extra = {k: rec[k] for k in ('operator', 'true_min_weight') if k in rec}
        if len(rec['cheap']) > 1:
            extra['also'] = [w for w in rec['cheap'] if w != first][:4]
        return first, extra
    if 'exc' in rec:
        return None
    if 'mat' in rec and (pristine is None or differs(rec, pristine)):
        pr = optmode.c08_problem(rec, budget=SMALL_CAP * 20)
        if pr:
            return pr['what'], {k: v for k, v in pr.items() if k != 'what'}
    return None


def tag(fam, args):
    return fam + ' ' + 'x'.join(str(a) for a in args) if args else fam


def minimise(ops, eval_index, pristine_rec, is_sub):
    """shortest history found that still makes the evaluated object fail: the evaluated op alone after one earlier op"""
    evals = [op for op in ops if op['k'] == 'eval']
    target = evals[eval_index]
    pre = ops[:ops.index(target)]
    cands = [[op, target] for op in pre if op['k'] != 'eval'][:40]
    if len(pre) <= 1 or not cands:
        return None
    for h, res in zip(cands, run_histories(cands, workers=min(6, len(cands)))):
        if res['recs'] and judge(res['recs'][0], None if is_sub else pristine_rec):
            return h
    return None


def evaluate(ctx, H, results, pristine, reported):
    """judge every eval record of every history; one monitor failure per (part, family)"""
    n_eval = n_diff = 0
    for (meta, ops), res in zip(H, results):
        evals = [op for op in ops if op['k'] == 'eval']
        for op, rec in zip(evals, res['recs']):
            n_eval += 1
            fam, args = rec['fam'], tuple(rec['args'])
            base = pristine.get((fam, args))
            is_sub = bool(op.get('sub'))
            if 'exc' in rec:
                ctx.count('c08_history_raises', '{} {}'.format(meta['part'], fam))
            dif = differs(rec, base) if base is not None and not rec.get('rejected') and 'exc' not in rec and \
                op.get('sub') != 'punct' else []
            if dif and not (is_sub and op.get('sub') in ('swap', 'stab') and dif == ['sha']):
                n_diff += 1
            bad = judge(rec, None if is_sub else base)
            ctx.count('c08_history_part', meta['part'])
            if not bad:
                continue
            key = 'C08:history:{}:{}'.format(meta['part'], fam)
            if key in reported:
                continue
            reported.add(key)
            eval_index = evals.index(op)
            short = minimise(ops, eval_index, base, is_sub)
            if short:
                ops, eval_index = short, 0
            else:   # what comes after the evaluated object is irrelevant
                ops = ops[:ops.index(op) + 1]
            inp = {'part': meta['part'], 'code': tag(fam, args), 'family': fam, 'args': list(args),
                   'object': show_ctor(op), 'role': op.get('role'), 'n_k_d': rec.get('n_k_d'), 'what': bad[0],
                   'history': render(ops), 'ops': ops, 'eval_index': eval_index, 'meta': meta,
                   'differs_from_pristine_code_in': dif, 'history_kind': True}
            inp.update(bad[1])
            ctx.monitor_fail('{} (n_k_d = {}) after the history [{}]: {}'.format(
                show_ctor(op), rec.get('n_k_d'), meta['part'] + ' / ' + str(meta.get('order')), bad[0]), inp, key=key)
    return n_eval, n_diff


def probe(ctx):
    """parts T, M, S; fills ctx.explored['histories_and_types']"""
    import time
    t0 = time.time()
    rng = ctx.rng
    T, M, S = type_histories(ctx.tier), mutation_histories(rng, ctx.tier), subclass_histories(rng, ctx.tier)
    # pristine reference: each code alone in a fresh process
    want = sorted({(op['fam'], tuple(int(a[1]) for a in op['args'])) for _, ops in T + M + S for op in ops if op['k'] == 'eval'})
    P = [({'part': 'pristine'}, [ev(f, plain(a))]) for f, a in want]
    H = P + T + M + S
    results = run_histories([ops for _, ops in H], workers=6)
    pristine = {}
    for (f, a), res in zip(want, results[:len(P)]):
        pristine[(f, a)] = res['recs'][0]
    # large codes whose digests differ from the pristine code of that size: evaluate the rank / single-qubit facts too
    redo = []
    for i, ((meta, ops), res) in enumerate(zip(H, results)):
        for rec in res['recs']:
            base = pristine.get((rec['fam'], tuple(rec['args'])))
            if base is not None and rec.get('deep') is False and not rec.get('cheap') and differs(rec, base):
                redo.append(i)
                break
    if redo:
        for i in redo:
            for op in H[i][1]:
                if op['k'] == 'eval':
                    op['deep'] = True
        for i, res in zip(redo, run_histories([H[i][1] for i in redo], workers=6)):
            results[i] = res
    reported = set()
    t1 = time.time()
    n_eval, n_diff = evaluate(ctx, H, results, pristine, reported)
    if os.environ.get('QV_DEBUG'):
        print('[c08_hist] histories P/T/M/S = {}/{}/{}/{} workers {:.1f}s judge {:.1f}s redo {}'.format(
            len(P), len(T), len(M), len(S), t1 - t0, time.time() - t1, len(redo)))
    for meta, _ in T:
        ctx.count('c08_types', '{} {}'.format(meta['fam'], meta['type']))
    for meta, _ in M + S:
        ctx.count('c08_histories', '{} {} {}'.format(meta['part'], meta['fam'], meta.get('variant', meta.get('order'))))
    ctx.explored['histories_and_types'] = {
        'evaluations': n_eval, 'exhaustive': False, 'histories': {'types': len(T), 'mutation': len(M), 'subclass': len(S)},
        'code_objects_differing_from_pristine': n_diff, 'wall_s': round(time.time() - t0, 1),
        'rule': 'every history in its own forked process; after it a NEW code object is evaluated: supplied logicals have '
                'weight >= d, commute with S, pair canonically; rank S = n-k; no undetected single-qubit logical; small '
                'sizes whose matrices differ from the pristine ones: full C08 statement by the independent search. '
                'types: numpy int8/uint8/int16/uint16 sizes at the overflow thresholds of each type, typed / plain '
                'object first, caches shared or cleared; mutation: the caller edits in place the arrays returned by '
                'paulitools.pauli_to_bsf (every published string, lists), pack/unpack, Pauli bsf views, generate, before / '
                'after the first use of the code; subclass: trivial / XZ-swapped / stabilizer-multiplied subclasses and a '
                'punctured variant (Pauli subclass) of the same size, before / after the genuine code'}
    ctx.evaluations += n_eval


def recheck(inp):
    """replay of a recorded history: is C08 still false on the evaluated object?"""
    ops = inp['ops']
    evals = [op for op in ops if op['k'] == 'eval']
    res = run_histories([ops], workers=1)[0]
    rec = res['recs'][inp['eval_index']]
    op = evals[inp['eval_index']]
    base = None
    if not op.get('sub'):
        base = run_histories([[ev(op['fam'], plain(rec['args']))]], workers=1)[0]['recs'][0]
    bad = judge(rec, base)
    print('replay history ({}) -> {}: {}'.format(inp.get('part'), show_ctor(op), bad[0] if bad else 'facts hold'))
    return bool(bad)


if __name__ == '__main__':
    worker_main()
