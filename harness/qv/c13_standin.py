"""C13 helper — the Blossom V backend path of qecsim.graphtools exercised through a STAND-IN `libpypm.so`.

Blossom V may not be redistributed and is absent from this sandbox, so `blossom5.available()` is False in the harness
process and `gt.mwpm_blossom5`, `blossom5.mwpm`, `blossom5.mwpm_ids`, and the Blossom branch of `gt.mwpm` never run
there.  This module
  * compiles `c13_pypm_standin.c` (same C interface as the wrapper library: `int infty()`, `void mwpm(n_nodes, mates,
    n_edges, nodes_a, nodes_b, weights)`; an EXACT bitmask-DP minimum-weight perfect matching on the ints it is handed)
    into `<fresh temp dir>/clib/libpypm.so` — the temp dir is created under /var/tmp and removed by `Lib.__exit__`;
  * starts a CHILD python process with `QECSIM_CFG=<temp dir>` (the documented plug-in point, qecsim.util.load_clib), so
    that the lru_caches of `blossom5._libpypm / available / infty` are filled in the child only and the harness process
    keeps the original no-library state the rest of the C13 harness relies on;
  * in the child runs the REAL wrapper code on generated inputs (small ints, floats, all-int graphs mixing tiny weights
    with weights >= infty/10, negative / zero / bool weights, duplicate edges, arbitrary hashable node objects, plain
    dict and SimpleGraph input, empty graphs, call histories, graphs built by the real MWPM decoders) with spies on
    `blossom5.mwpm`, `blossom5.mwpm_ids` and the C boundary, judges every answer and streams JSON records back;
  * in the parent turns the records into correspondence cases for the Lean driver (`c13 w2i`: the integer weight really
    handed to the C library = the model's weight_to_int; `c13 check`: the returned pairs are a perfect matching of
    minimum total INTEGER weight as handed over — verified oracle; `c13 check/checkops` on the ORIGINAL weights within
    the documented rounding allowance) and into monitor failures;
  * TIES THE LEAN MODEL OF THE WRAPPER (Model/Blossom5.lean: `mwpmIds` <-> blossom5.mwpm_ids, `mwpmObjs` <-> blossom5.mwpm,
    `mwpmBlossom5` <-> gt.mwpm_blossom5, `Matching.mwpm` <-> the dispatch of gt.mwpm) to the real wrapper: for every call
    that reaches it the child records (a) the arrays the C function really received and (b) the mates array it left
    behind (both dumped by the stand-in C code itself into $QV_PYPM_TRACE, one line per call), (c) the Python result,
    and the node listing `list(set(...))` of blossom5.mwpm (rebuilt from the very edge list handed to blossom5.mwpm,
    by the wrapper's own expression, in the same process: same objects, same insertion sequence => same hash order).
    The driver ops `c13 b5ids / b5objs / b5gt / b5mwpm` run the model on the function's argument, that listing and the
    mates array (`clib` := table look-up) and print the id edge arrays handed to clib, n_nodes, the assert outcome, the
    id pairs and the node pairs; all of these must EQUAL the recorded ones (sets in sorted order; the weights also
    after the 32-bit truncation ctypes applies when it fills a c_int array).  Error paths: the contiguity assert of
    mwpm_ids (no C call), the empty-graph shortcut of mwpm_blossom5 (no call of blossom5.mwpm), empty edge lists.

What is claimed about the ORIGINAL weights (no false alarms): scaling floats (or large ints) to ints legitimately loses
precision.  With s = infty/10/max|w| the documented factor, every weight is replaced by round(w*s); a matching that is
optimal for the rounded weights exceeds the true minimum by at most (n/2) * (1/s) (n/2 pairs, rounding error <= 1/2 per
pair on either side), so the monitor is  weight(M) - min <= (n/2)(1 + 1e-6)/s  (the 1e-6 covers the float product);
when the docstring promises the identity (all weights ints, max|w| < infty/10) or all weights are zero the allowance
is 0 and the comparison is exact.  A two-variant build (infty = 2**30 and infty = 1000) exercises both regimes.
These allowances are theorems about the model (Props/C13/Blossom.lean: scaled_optimum_within_allowance with k = n/2 and
float-product error d <= 2**-53 * infty/10 < 5e-7, ident_optimum_exact, round_within_half, scaled_weight_bounded).
"""
import json
import os
import random
import shutil
import subprocess
import sys
import tempfile
from fractions import Fraction

HERE = os.path.dirname(os.path.abspath(__file__))
HARNESS = os.path.abspath(os.path.join(HERE, '..'))
C_SOURCE = os.path.join(HERE, 'c13_pypm_standin.c')
INFTYS = [1 << 30, 1000]        # documented in c13_pypm_standin.c
MAX_N = 16                       # judged by the Python DP; the Lean oracle is used up to c13.ORACLE_MAX_NODES
MARK = '@@'
TRACE_NAME = 'pypm_trace.txt'    # written by the stand-in C code (one line per call of its mwpm), inside Lib.cfg


class NoCompiler(Exception):
    pass


# ------------------------------------------------------------------------------------------ parent side

class Lib:
    """context manager: build the stand-in for a given infty() into a fresh temp dir, remove it afterwards"""

    def __init__(self, infty):
        self.infty = int(infty)
        self.cfg = None

    def __enter__(self):
        cc = shutil.which('gcc') or shutil.which('cc') or ('/usr/bin/gcc' if os.path.exists('/usr/bin/gcc') else None)
        if cc is None:
            raise NoCompiler('no C compiler (gcc / cc) found')
        base = '/var/tmp' if os.path.isdir('/var/tmp') and os.access('/var/tmp', os.W_OK) else None
        self.cfg = tempfile.mkdtemp(prefix='qv_c13_pypm_', dir=base)
        try:
            os.mkdir(os.path.join(self.cfg, 'clib'))
            r = subprocess.run([cc, '-O2', '-shared', '-fPIC', '-DQV_INFTY={}'.format(self.infty), '-o',
                                os.path.join(self.cfg, 'clib', 'libpypm.so'), C_SOURCE],
                               stdout=subprocess.PIPE, stderr=subprocess.STDOUT, text=True, timeout=300)
            if r.returncode != 0:
                from qv import core
                raise core.Infra('stand-in libpypm.so does not compile: ' + r.stdout[-400:])
        except BaseException:
            shutil.rmtree(self.cfg, ignore_errors=True)
            raise
        return self

    def __exit__(self, *a):
        shutil.rmtree(self.cfg, ignore_errors=True)
        return False


CHILD_CODE = 'import sys; sys.path.insert(0, sys.argv[1]); from qv import c13_standin; c13_standin.child_main()'


def start_child(cfg, request):
    env = dict(os.environ, QECSIM_CFG=cfg, QV_PYPM_TRACE=os.path.join(cfg, TRACE_NAME))
    p = subprocess.Popen([sys.executable, '-c', CHILD_CODE, HARNESS], stdin=subprocess.PIPE, stdout=subprocess.PIPE,
                         stderr=subprocess.PIPE, text=True, env=env)
    p._qv_request = json.dumps(request)
    return p


def finish_child(p, timeout):
    """-> (records, died): died = description when the child did not end with a `done` record"""
    from qv import core
    try:
        out, err = p.communicate(p._qv_request, timeout=timeout)
    except subprocess.TimeoutExpired:
        p.kill()
        out, err = p.communicate()
        err = (err or '') + '\n[stand-in child killed after {} s]'.format(timeout)
    recs = []
    for line in (out or '').splitlines():
        if line.startswith(MARK):
            try:
                recs.append(json.loads(line[len(MARK):]))
            except ValueError:
                pass
    if any(r.get('type') == 'infra' for r in recs):
        raise core.Infra('stand-in child: ' + next(r['what'] for r in recs if r.get('type') == 'infra'))
    died = None
    if not recs or recs[-1].get('type') != 'done':
        died = 'rc={} stderr={}'.format(p.returncode, (err or '')[-300:])
    return recs, died


def run_child(cfg, request, timeout=1800):
    return finish_child(start_child(cfg, request), timeout)


def make_post(spec, impl, ctx):
    from qv.props import c13
    if not spec:
        return None
    if spec[0] == 'tie':
        return post_tie
    if spec[0] == 'tok1':
        return lambda reply: reply.split(' ')[1] if ' ' in reply else reply
    if spec[0] == 'check':
        allow = spec[1]
        scale = None if allow is None else Fraction(allow) / Fraction(c13.REL_TOL)
        return c13.make_post_check(scale, impl, ctx)
    raise ValueError(spec)


def wrap32(x):
    """value of a Python int stored into a ctypes c_int slot (ctypes truncates to 32 bits, two's complement)"""
    return ((int(x) + 2 ** 31) % 2 ** 32) - 2 ** 31


def post_tie(reply):
    """model reply of a b5* op + the weights as a c_int array holds them (the model keeps the Python ints)"""
    for tok in reply.split(' '):
        if tok.startswith('w='):
            ws = [] if tok == 'w=_' else [int(x) for x in tok[2:].split(',')]
            return reply + ' cw=' + (','.join(str(wrap32(x)) for x in ws) or '_')
    return reply


def feed(ctx, recs, died, inf):
    """turn the child's records into cases / monitor failures / counts of the harness context"""
    last_begin = None
    n_cases = 0
    for r in recs:
        t = r.get('type')
        if t == 'begin':
            last_begin = r.get('input')
        elif t == 'case':
            ctx.case(r['line'], r['impl'], nontrivial=bool(r.get('nontrivial')), meta=r.get('meta'),
                     post=make_post(r.get('post'), r['impl'], ctx))
            n_cases += 1
        elif t == 'fail':
            ctx.monitor_fail(r['what'], r['input'], key=r.get('key'))
        elif t == 'candidate':
            decided = any(k.get('property') == ctx.pid and k.get('key') == r['key'] for k in ctx.known)
            if decided or os.environ.get('QV_C13_EXTREME') == 'strict':
                ctx.monitor_fail(r['what'], r['input'], key=r['key'])
            elif not any(c['key'] == r['key'] and c['what'][:60] == r['what'][:60]
                         for c in ctx.extra.get('finding_candidates', [])):
                # outside the magnitude classes of the property's check and not yet decided upon (known_findings.json
                # has no entry for the key): shown on every run, does not fail the run
                print('FINDING-CANDIDATE: property={} {} [{}]'.format(ctx.pid, r['what'][:300], r['key']))
                ctx.extra.setdefault('finding_candidates', []).append(
                    {'key': r['key'], 'what': r['what'], 'input': r['input']})
        elif t == 'eval':
            ctx.evaluations += int(r.get('n', 1))
        elif t == 'unavailable':
            ctx.count('standin.state', 'library-built-but-blossom5.available()-is-False')
            ctx.extra['standin_unavailable'] = r.get('what')
        elif t == 'done':
            for name, d in (r.get('counts') or {}).items():
                for v, k in d.items():
                    ctx.hist[name][v] += k
    if died:
        ctx.monitor_fail('the process running the Blossom-backend wrapper on the stand-in library died or hung ({}) '
                         'while handling this input'.format(died),
                         last_begin if last_begin is not None else {'standin': inf, 'note': 'before the first input'},
                         key='standin.child-died')
    return n_cases


def part_standin(ctx):
    """entry point used by c13.run: both infty variants, children run concurrently"""
    rng = ctx.rng
    seeds = [rng.getrandbits(48) for _ in INFTYS]
    libs, procs = [], []
    n_before = ctx.evaluations
    try:
        try:
            for inf, sd in zip(INFTYS, seeds):
                lib = Lib(inf)
                lib.__enter__()
                libs.append(lib)
                share = 1.0 if inf == INFTYS[0] else 0.4
                procs.append((inf, start_child(lib.cfg, {
                    'mode': 'explore', 'infty': inf, 'seed': sd,
                    'singles': int(ctx.scale(2400, 20000) * share), 'histories': int(ctx.scale(240, 2000) * share),
                    'decodes': int(ctx.scale(150, 1500) * share), 'nmax': ctx.scale(14, 16)})))
        except NoCompiler as ex:
            ctx.count('standin.state', 'not-built:' + str(ex))
            ctx.extra['standin_not_built'] = str(ex)
            return {'built': False, 'evaluations': 0}
        for inf, p in procs:
            recs, died = finish_child(p, ctx.scale(600, 3000))
            feed(ctx, recs, died, inf)
        procs = []
    finally:
        for _, p in procs:
            try:
                p.kill()
            except Exception:
                pass
        for lib in libs:
            lib.__exit__(None, None, None)
    return {'built': True, 'evaluations': ctx.evaluations - n_before}


def amplify(inp):
    """near variants of a recorded single-call input for the failing-input search: the recorded weights with the
    heavy ones pushed far above infty/10 and beyond the C int range (all-int graphs stay all-int)"""
    from qv.props import c13
    if 'ops_repr' not in inp or not inp['ops_repr'] or str(inp.get('fn', '')).startswith('b5.') or \
            inp.get('fn') == 'mwpm_networkx':
        return []
    ops = [(a, b, c13.parse_w(w)) for a, b, w in inp['ops_repr']]
    mags = sorted({abs(w) for _, _, w in ops if w != 0})
    if not mags:
        return []
    med = mags[len(mags) // 2]
    out = []
    for factor in (2 ** 32, 3 * 2 ** 33, 10 ** 12):
        v = [(a, b, (w * factor if abs(w) >= med and abs(w) > 1 else w)) for a, b, w in ops]
        out.append(dict(inp, ops_repr=[[a, b, repr(w)] for a, b, w in v]))
    v = [(a, b, (int(w) if float(w).is_integer() else w) if not isinstance(w, bool) else w) for a, b, w in ops]
    v = [(a, b, (w * 2 ** 32 if isinstance(w, int) and abs(w) > 1 else w)) for a, b, w in v]
    out.append(dict(inp, ops_repr=[[a, b, repr(w)] for a, b, w in v]))
    return out


def eval_inputs(inf, inputs, std=0, timeout=900):
    """property evaluated on the real code (stand-in child) for the listed inputs, then for a fixed family of `std`
    generated inputs: the first failing one as a dict, or None"""
    try:
        with Lib(inf) as lib:
            recs, died = run_child(lib.cfg, {'mode': 'eval', 'infty': inf, 'inputs': inputs, 'std': std}, timeout)
    except NoCompiler:
        return None
    for r in recs:
        if r.get('type') == 'result' and r.get('bad'):
            return {'what': r['bad'], 'input': r['input'], 'returned': r.get('returned'), 'standin': inf,
                    'recipe': RECIPE}
    if died:
        begins = [r for r in recs if r.get('type') == 'begin']
        if begins:
            return {'what': 'the process running the wrapper on the stand-in library died or hung (' + died + ')',
                    'input': begins[-1]['input'], 'standin': inf, 'recipe': RECIPE}
    return None


RECIPE = ('compile harness/qv/c13_pypm_standin.c with -DQV_INFTY=<standin> into $QECSIM_CFG/clib/libpypm.so, start a fresh '
          'python; nodes = c13.make_nodes(Random(node_seed), n, nodes) (ids 0..n-1 for b5.mwpm_ids); single call: build '
          'a SimpleGraph by add_edge over ops_repr (kind simple), a dict (kind dict) or the edge list (kind edges) and '
          'call gt.<fn> / blossom5.<fn>; history: the steps in order in one process as in c13.build_step / apply_after')


def search(m):
    meta = m.get('meta') or {}
    inp = meta.get('input')
    if not isinstance(inp, dict) or 'standin' not in inp:
        return None
    return eval_inputs(inp['standin'], [inp] + amplify(inp), std=400)


def replay_input(inp):
    """1 iff the property still fails on the recorded stand-in input"""
    r = eval_inputs(int(inp['standin']), [inp], std=0)
    print('replay stand-in input ->', r and r['what'])
    return 1 if r else 0


# ------------------------------------------------------------------------------------------ child side

def round_half_away(x):
    x = Fraction(x)
    if x >= 0:
        return (x + Fraction(1, 2)).__floor__()
    return -((-x + Fraction(1, 2)).__floor__())


def native(w):
    """numpy scalars (the SMWPM decoders hand numpy integers to gt.mwpm) as the Python number of the same value"""
    if isinstance(w, (bool, int, float)):
        return w
    try:
        import numpy as np
        if isinstance(w, np.integer):
            return int(w)
        if isinstance(w, np.floating):
            return float(w)
    except ImportError:
        pass
    return w


def doc_rule(weights, inf):
    """what the docstring of blossom5.weight_to_int_fn promises for these weights (in dict order):
    (kind, integer weights, exact scaling factor or None, exact float products or None); `all weights are integers`
    is read as the code reads it: isinstance(w, int) (numpy integers are NOT: they take the scaling rule)"""
    nz = [abs(native(w)) for w in weights if w != 0]
    if not nz:
        return 'zero', [0] * len(weights), None, None
    mx = max(nz)
    allint = all(isinstance(w, int) for w in weights)
    if Fraction(mx) < Fraction(inf, 10) and allint:
        return 'ident', [int(w) for w in weights], None, None
    scaling = inf / 10 / mx                     # the two float operations of the documented rule
    prods = [Fraction(float(native(w) * scaling)) for w in weights]
    return 'scaled', [round_half_away(p) for p in prods], Fraction(scaling), prods


def judge(n, wd, cm, allow):
    """the property on one answer: None when `cm` is a perfect matching of the graph `wd` (frozenset pair -> Fraction)
    on nodes 0..n-1 whose weight exceeds the minimum by at most `allow`; else a description"""
    from qv.props import c13
    if isinstance(cm, str):
        return 'result is ' + cm
    if not wd:
        return None if cm == [] else 'the empty graph does not yield the empty matching: {} pair(s) returned'.format(len(cm))
    best = c13.py_min_pm(n, lambda i, j: wd.get(frozenset((i, j))) if i != j else None)
    if best is None:
        return None          # no perfect matching: outside the property's domain
    seen = [0] * n
    tot = Fraction(0)
    for a, b in cm:
        if a == b or frozenset((a, b)) not in wd:
            return 'pair ({},{}) is not an edge of the graph'.format(a, b)
        seen[a] += 1; seen[b] += 1
        tot += wd[frozenset((a, b))]
    if any(c != 1 for c in seen):
        i = next(i for i, c in enumerate(seen) if c != 1)
        return 'node {} occurs {} times in the matching'.format(i, seen[i])
    if tot - best > allow:
        return ('total weight {} exceeds the minimum over perfect matchings {} by more than the rounding the '
                'documented integer scaling allows ({})'.format(tot, best, 'exact comparison' if allow == 0 else
                                                                '{:.3e}'.format(float(allow))))
    return None


class Trace:
    def __init__(self):
        self.cfile = None
        path = os.environ.get('QV_PYPM_TRACE')
        if path:
            open(path, 'ab').close()
            self.cfile = open(path, 'rb', buffering=0)
        self.reset()

    def reset(self):
        self.mwpm, self.ids, self.c, self.gt_b5, self.gt_nx = [], [], [], 0, 0
        self.listing = []        # per blossom5.mwpm call: list(set(...)) rebuilt from the edges handed over
        self.drain()
        self.cd = []             # per C call: what the stand-in C code itself dumped (arguments + mates)

    def drain(self):
        """lines the C code appended since the last drain -> self.cd"""
        if self.cfile is None:
            return
        data = b''
        while True:
            chunk = self.cfile.read()
            if not chunk:
                break
            data += chunk
        for line in data.decode('ascii', 'replace').splitlines():
            try:
                head, a, b, w, m = line.split('|')
                nn, ne = head.split(' ')
                ints = lambda t: [int(x) for x in t.split(' ')] if t else []      # noqa: E731
                self.cd.append({'n_nodes': int(nn), 'n_edges': int(ne), 'a': ints(a), 'b': ints(b), 'w': ints(w),
                                'mates': ints(m)})
            except ValueError:
                self.cd.append({'unreadable': line[:80]})

    def snapshot(self):
        self.drain()
        return (list(self.mwpm), list(self.ids), list(self.c), self.gt_b5, self.gt_nx, list(self.listing), list(self.cd))

    def restore(self, snap):
        self.reset()
        self.mwpm, self.ids, self.c, self.gt_b5, self.gt_nx, self.listing, self.cd = snap


def install_spies(tr):
    from qecsim import graphtools as gt
    from qecsim.graphtools import blossom5
    o_mwpm, o_ids, o_lib = blossom5.mwpm, blossom5.mwpm_ids, blossom5._libpypm
    o_gb5, o_gnx = gt.mwpm_blossom5, gt.mwpm_networkx

    def s_mwpm(edges):
        try:
            tr.mwpm.append([tuple(e) for e in edges])
        except Exception:
            tr.mwpm.append(None)
        try:
            # the wrapper's own expression on the very list it is about to receive (same objects, same insertion
            # sequence, same process => the same hash order as the wrapper's `nodes`)
            tr.listing.append(list(set(node for (node_a, node_b, _) in edges for node in (node_a, node_b))))
        except Exception:
            tr.listing.append(None)
        return o_mwpm(edges)

    def s_ids(edges):
        rec = {'edges': None, 'ret': None}
        try:
            rec['edges'] = [tuple(e) for e in edges]
        except Exception:
            pass
        tr.ids.append(rec)
        r = o_ids(edges)
        rec['ret'] = r
        return r

    class Proxy:
        def __init__(self, lib):
            self._lib = lib

        def __getattr__(self, name):
            return getattr(self._lib, name)

        def mwpm(self, n_nodes, mates, n_edges, a, b, w):
            rec = {}
            try:
                rec = {'n_nodes': getattr(n_nodes, 'value', n_nodes), 'n_edges': getattr(n_edges, 'value', n_edges),
                       'a': list(a), 'b': list(b), 'w': list(w), 'len_mates': len(mates)}
            except Exception as ex:
                rec = {'error': repr(ex)}
            tr.c.append(rec)
            r = self._lib.mwpm(n_nodes, mates, n_edges, a, b, w)
            try:
                rec['mates'] = list(mates)
            except Exception:
                pass
            return r

    proxy = Proxy(o_lib())
    blossom5.mwpm, blossom5.mwpm_ids, blossom5._libpypm = s_mwpm, s_ids, (lambda: proxy)

    def g_b5(graph):
        tr.gt_b5 += 1
        return o_gb5(graph)

    def g_nx(graph):
        tr.gt_nx += 1
        return o_gnx(graph)
    gt.mwpm_blossom5, gt.mwpm_networkx = g_b5, g_nx


B5_INT_KINDS = ['smallint', 'negative', 'zero-int', 'int', 'bool', 'c-int-wide', 'tied-int']   # documented: int weights
GT_EXTRA_KINDS = ['bool', 'allzero', 'big-2^32', 'big-2^32', 'big-any', 'big-any', 'big-neg', 'big-uniform', 'boundary',
                  'boundary', 'c-int-edge', 'int-straddle', 'int-straddle', 'float-int-valued', 'one-float']


def law(rng, kind, inf):
    """per-graph weight law of the Blossom path (inf-aware)"""
    from qv.props import c13
    t = inf // 10
    if kind in c13.WKINDS or kind in c13.RANGE_KINDS:
        return c13.weight_sampler(rng, kind)
    if kind == 'bool':
        return lambda: rng.choice([True, False, True, 2, 3])
    if kind == 'zero-int':
        return lambda: rng.choice([0, 0, 0, 0, 1, 2])
    if kind == 'tied-int':
        return lambda: rng.choice([1, 1, 1, 2, 2, 0])
    if kind == 'allzero':
        zs = rng.choice([[0], [0.0], [0, 0.0, False]])
        return lambda: rng.choice(zs)
    if kind == 'big-2^32':          # all ints: tiny weights next to multiples of 2**32 (zero as a C int)
        small = rng.choice([[1], [0, 1], [1, 2, 3], [-1, 1]])
        p = rng.choice([0.3, 0.5, 0.7])
        return lambda: rng.choice(small) if rng.random() < p else rng.randint(1, 59) * 2 ** 32
    if kind == 'big-any':           # all ints: tiny weights next to weights >= infty/10 of any size up to 1e20
        hi = max(10 ** rng.randint(len(str(t)), 20), 10 * t + 10)
        p = rng.choice([0.3, 0.5, 0.7])
        return lambda: rng.randint(0, 9) if rng.random() < p else rng.randint(t + 1, hi)
    if kind == 'big-neg':
        hi = max(10 ** rng.randint(len(str(t)), 20), 10 * t + 10)
        return lambda: rng.randint(-9, 9) if rng.random() < 0.5 else -rng.randint(t + 1, hi)
    if kind == 'big-uniform':
        base = 10 ** rng.randint(12, 18)
        return lambda: rng.randint(base, 2 * base)
    if kind == 'boundary':          # ints at the documented threshold infty/10
        return lambda: (rng.choice([t - 1, t, t + 1, t + 2, -t, -(t + 1)]) if rng.random() < 0.3 else rng.randint(0, 5))
    if kind == 'c-int-edge':        # ints at the limits of the C int type
        return lambda: (rng.choice([2 ** 31 - 1, 2 ** 31, 2 ** 31 + 1, 2 ** 32 - 1, 2 ** 32, 2 ** 32 + 1, -2 ** 31,
                                    -2 ** 31 - 1]) if rng.random() < 0.4 else rng.randint(-3, 9))
    if kind == 'int-straddle':      # ints whose maximum lands on either side of the threshold
        top = rng.choice([t // 2 + 2, t + 2, 2 * t, 4 * t + 3])
        return lambda: rng.randint(0, max(top, 8))
    if kind == 'float-int-valued':
        return lambda: float(rng.randint(0, 40))
    if kind == 'one-float':
        return lambda: rng.randint(0, 30) if rng.random() < 0.85 else rng.randint(0, 30) + rng.choice([0.5, 0.25, 0.0])
    if kind == 'c-int-wide':
        return lambda: rng.randint(-(2 ** 31 - 1), 2 ** 31 - 1)
    raise ValueError(kind)


def gen_single(rng, inf, nmax=14):
    from qv.props import c13
    fn = rng.choice(['mwpm', 'mwpm', 'mwpm_blossom5', 'mwpm_blossom5', 'mwpm_blossom5', 'b5.mwpm', 'b5.mwpm_ids'])
    n = rng.choice([2, 4, 4, 4, 6, 6, 6, 8, 8, 10])
    if rng.random() < 0.04:
        n = rng.choice([12, 14] + ([16] if nmax >= 16 else []))
    shape = rng.choice(['complete', 'complete', 'sparse', 'few', 'path'])
    if n >= 14 and shape == 'complete':
        shape = 'sparse'
    if fn.startswith('b5.'):
        wk = rng.choice(B5_INT_KINDS)
        kind = 'edges'
        nk = 'ids' if fn == 'b5.mwpm_ids' else rng.choice(c13.NODE_KINDS)
    else:
        wk = rng.choice(c13.WKINDS + c13.RANGE_KINDS + GT_EXTRA_KINDS + GT_EXTRA_KINDS)
        kind = 'simple' if rng.random() < 0.7 else 'dict'
        nk = rng.choice(c13.NODE_KINDS)
    draw = law(rng, wk, inf)
    edges = c13.gen_planted(rng, n, shape, None, draw)
    if kind == 'simple':
        ops = c13.gen_ops(rng, edges, None, rng.random() < 0.5, draw)
    else:
        ops = [(b, a, w) if rng.random() < 0.5 else (a, b, w) for a, b, w in edges]
        rng.shuffle(ops)
        if kind == 'edges' and rng.random() < 0.5:       # parallel edges, either orientation: the lightest one counts
            for _ in range(rng.randint(1, 4)):
                a, b, w = rng.choice(ops)
                if rng.random() < 0.5:
                    a, b = b, a
                ops.insert(rng.randrange(len(ops) + 1), (a, b, draw()))
    return {'standin': inf, 'fn': fn, 'kind': kind, 'ops_repr': [[a, b, repr(w)] for a, b, w in ops], 'nodes': nk,
            'node_seed': rng.getrandbits(32), 'n': n, 'wkind': wk, 'shape': shape}


def nodes_of(inp):
    from qv.props import c13
    if inp['nodes'] == 'ids':
        return list(range(inp['n']))
    return c13.make_nodes(random.Random(inp.get('node_seed', 0)), inp['n'], inp['nodes'])


def meaning(kind, ops):
    """the graph an input MEANS: frozenset pair -> Fraction (SimpleGraph: last write; edge list: lightest parallel edge)"""
    from qv.props import c13
    if kind == 'edges':
        wd = {}
        for a, b, w in ops:
            k = frozenset((a, b))
            if k not in wd or c13.fr(w) < wd[k]:
                wd[k] = c13.fr(w)
        return wd
    return c13.last_write(ops)


def call_fn(name):
    from qecsim import graphtools as gt
    from qecsim.graphtools import blossom5
    return getattr(blossom5, name[3:]) if name.startswith('b5.') else getattr(gt, name)


def allowance(fn, n, weights, wd, inf):
    """(absolute allowance on the ORIGINAL weights, documented rule or None)"""
    from qv.props import c13
    if fn in ('mwpm', 'mwpm_blossom5'):
        doc = doc_rule(weights, inf)
        if doc[0] == 'scaled':
            return Fraction(n, 2) * (1 + Fraction(1, 10 ** 6)) / doc[2], doc
        return Fraction(0), doc
    if fn == 'mwpm_networkx':
        if c13.exact_weights(wd.values()):
            return Fraction(0), None
        return Fraction(c13.REL_TOL) * n * max([abs(w) for w in wd.values()] + [Fraction(0)]), None
    return Fraction(0), None


def diagnose(tr, doc, items):
    """what went on below the API for a failing call (appended to the failure text)"""
    notes = []
    handed = None
    if len(tr.mwpm) >= 1 and tr.mwpm[-1] is not None:
        handed = [e[2] if len(e) == 3 else None for e in tr.mwpm[-1]]
    if doc is not None and handed is not None and len(handed) == len(doc[1]):
        diff = [(i, h, d) for i, (h, d) in enumerate(zip(handed, doc[1])) if not (isinstance(h, int) and h == d)]
        if diff:
            i, h, d = diff[0]
            notes.append('{} of {} integer weights handed to blossom5.mwpm differ from the documented '
                         'weight_to_int_fn value ({} rule), e.g. weight {!r} -> {!r}, documented {}'.format(
                             len(diff), len(handed), doc[0], items[i][1] if i < len(items) else '?', h, d))
    if tr.c and handed is not None and 'w' in tr.c[-1]:
        cw = tr.c[-1]['w']
        wrap = [(h, c) for h, c in zip(handed, cw) if isinstance(h, int) and h != c]
        if wrap:
            notes.append('{} weights changed value on conversion to C int, e.g. {} -> {}'.format(len(wrap), *wrap[0]))
    return ('; ' + '; '.join(notes)) if notes else ''


class Session:
    def __init__(self, inf, emit, explore):
        from qv.props import c13
        self.c13, self.inf, self.emit, self.explore = c13, inf, emit, explore
        self.tr = Trace()
        self.counts = {}
        install_spies(self.tr)

    def count(self, name, value):
        d = self.counts.setdefault(name, {})
        d[str(value)] = d.get(str(value), 0) + 1

    # -- one call on a freshly built argument; returns (bad, returned wire, details)
    def call(self, fn, arg):
        from qv import core
        self.tr.reset()
        try:
            with core.TimeLimit(20):
                return None, call_fn(fn)(arg)
        except core.TimeLimit.Expired:
            return ('did not return within 20 s', 'mwpm.timeout'), None
        except Exception as ex:
            return ('raised {!r} (the graph has a perfect matching)'.format(ex), None), None
        finally:
            self.tr.drain()

    def build_arg(self, inp, nodes):
        from qecsim import graphtools as gt
        c13 = self.c13
        ops = [(a, b, c13.parse_w(w)) for a, b, w in inp['ops_repr']]
        if inp['kind'] == 'edges':
            return [(nodes[a], nodes[b], w) for a, b, w in ops], ops
        if inp['kind'] == 'dict':
            return {(nodes[a], nodes[b]): w for a, b, w in ops}, ops
        g = gt.SimpleGraph()
        for a, b, w in ops:
            g.add_edge(nodes[a], nodes[b], w)
        return g, ops

    def eval_single(self, inp):
        """-> description of the property failure on this input, or None; queues Lean cases in explore mode"""
        c13 = self.c13
        n, fn = inp['n'], inp['fn']
        nodes = nodes_of(inp)
        ids = {x: i for i, x in enumerate(nodes)}
        arg, ops = self.build_arg(inp, nodes)
        wd = meaning(inp['kind'], ops)
        weights = [w for _, _, w in ops] if inp['kind'] == 'edges' else list(arg.values())
        err, r = self.call(fn, arg)
        return self.verdict(inp, fn, n, ids, arg, ops, wd, weights, err, r, 'single')

    def verdict(self, inp, fn, n, ids, arg, ops, wd, weights, err, r, part):
        c13, tr = self.c13, self.tr
        self.emit({'type': 'eval', 'n': 1})
        if err:
            return {'bad': '{} {}'.format(self.fname(fn), err[0]), 'key': err[1], 'returned': 'exception'}
        cm = c13.canon_mates(r, ids)
        try:
            allow, doc = allowance(fn, n, weights, wd, self.inf)
        except (OverflowError, ZeroDivisionError):
            # the documented factor infty/10/max|w| is not a finite float (EXTREME class): only perfection is judged
            allow, doc = Fraction(n) * max([abs(w) for w in wd.values()] + [Fraction(0)]), None
        bad = judge(n, wd, cm, allow)
        items = None
        if inp.get('kind') != 'edges' and isinstance(arg, dict):
            items = [((ids[a], ids[b]), w) for (a, b), w in arg.items()]
        if self.explore and fn != 'mwpm_networkx' and part != 'decoder':      # decoder graphs: tied by explore_decoders
            # model of the wrapper vs what the wrapper did (whatever the verdict on the answer is)
            self.tie_case(inp, fn, n, ids, arg, ops, weights, items, r, doc, part)
        if bad:
            return {'bad': '{}: {}{}'.format(self.fname(fn), bad, diagnose(tr, doc, items or [])), 'key': None,
                    'returned': cm if isinstance(cm, str) else c13.mates_wire(cm)}
        if self.explore:
            self.bookkeeping(fn, doc, n, inp)
            if n <= c13.ORACLE_MAX_NODES and ops and not isinstance(cm, str):
                self.lean_cases(inp, fn, n, ids, ops, wd, weights, items, cm, allow, doc, part)
        return None

    def fname(self, fn):
        return ('blossom5.' + fn[3:]) if fn.startswith('b5.') else ('gt.' + fn)

    def bookkeeping(self, fn, doc, n, inp):
        tr = self.tr
        self.count('standin.fn', fn); self.count('standin.n', n)
        if doc is not None:
            self.count('standin.rule', doc[0])
        if fn == 'mwpm':
            self.count('standin.dispatch', 'blossom5' if tr.gt_b5 and not tr.gt_nx else
                       'networkx' if tr.gt_nx and not tr.gt_b5 else 'other:{}/{}'.format(tr.gt_b5, tr.gt_nx))
        # below-the-API anomalies (diagnostic counts; the property is judged on the result)
        if fn != 'mwpm_networkx' and tr.c:
            c = tr.c[-1]
            ok = 'w' in c and c.get('n_nodes') == n and c.get('len_mates') == n and \
                c.get('n_edges') == len(c['w']) == len(c['a']) == len(c['b']) and \
                sorted(set(c['a']) | set(c['b'])) == list(range(n))
            self.count('standin.c-call', 'consistent' if ok else 'ANOMALY')
            if tr.ids and tr.ids[-1]['edges'] is not None:
                e = tr.ids[-1]['edges']
                same = 'w' in c and [x[2] for x in e] == c['w'] and [x[0] for x in e] == c['a'] and \
                    [x[1] for x in e] == c['b']
                self.count('standin.c-arrays', 'equal-to-id-edges' if same else 'DIFFER')
                ret = tr.ids[-1]['ret']
                if isinstance(ret, set):
                    self.count('standin.ids-result', 'sorted-tuples' if all(
                        isinstance(p, tuple) and len(p) == 2 and p[0] <= p[1] for p in ret) else 'UNSORTED')

    # -- the tie of Model/Blossom5.lean to the real wrapper (see the module docstring)
    def observed(self, r, ids, expect_calls=1):
        """what the real wrapper did, in the driver's reply format; None (+ a count) when outside the model's types"""
        c13, tr = self.c13, self.tr
        if len(tr.cd) != expect_calls or len(tr.ids) != expect_calls:
            return 'c-calls={} mwpm_ids-calls={}'.format(len(tr.cd), len(tr.ids))
        c, idrec = tr.cd[0], tr.ids[0]
        if 'unreadable' in c:
            return 'c-trace-unreadable:' + c['unreadable']
        if any(m < 0 for m in c['mates']):
            self.count('standin.tie', 'skipped: C answered -1 (no perfect matching; outside the C contract, not a Nat)')
            return None
        ie = idrec['edges']
        if ie is None or any(len(e) != 3 for e in ie):
            return 'id-edges-unreadable'
        raw = []
        for e in ie:
            raw.append(str(int(e[2])) if isinstance(e[2], int) else 'non-int:{!r}'.format(e[2]))
        same_ab = [e[0] for e in ie] == c['a'] and [e[1] for e in ie] == c['b']
        ret = idrec['ret']
        if not isinstance(ret, (set, frozenset)) or not all(isinstance(p, tuple) and len(p) == 2 for p in ret):
            idp = 'not-a-set-of-pairs'
        else:
            try:
                idp = c13.mates_wire(sorted(ret)) if ret else '_'
            except TypeError:
                idp = 'unsortable'
        cm = c13.canon_mates(r, ids)
        lst = lambda v: ','.join(str(x) for x in v) or '_'      # noqa: E731
        return 'a={} b={} w={} n={} args=ok assert=ok ids={} mates={} cw={}{}'.format(
            lst(c['a']), lst(c['b']), ','.join(raw) or '_', c['n_nodes'], idp,
            cm if isinstance(cm, str) else c13.mates_wire(cm), lst(c['w']),
            '' if same_ab else ' ids-at-mwpm_ids-differ-from-C-arrays')

    def tie_case(self, inp, fn, n, ids, arg, ops, weights, items, r, doc, part):
        c13, tr, inf = self.c13, self.tr, self.inf
        rat, fr = c13.rat, c13.fr
        meta = {'part': 'standin', 'sub': 'tie:' + part, 'input': inp}
        lst = lambda v: ','.join(str(x) for x in v) or '_'      # noqa: E731
        if fn in ('b5.mwpm_ids', 'b5.mwpm'):
            try:
                edges = [(ids[a], ids[b], w) for a, b, w in arg]
            except (KeyError, TypeError):
                return
            if any(not isinstance(w, int) for _, _, w in edges):
                self.count('standin.tie', 'skipped: non-int weight in an edge list'); return
            ewire = ';'.join('{},{},{}'.format(a, b, int(w)) for a, b, w in edges) or '_'
        else:
            if items is None or doc is None:
                self.count('standin.tie', 'skipped: no dict items / documented factor not a finite float'); return
            if not ops:
                return       # empty graphs: explore_misc
            try:
                gwire = c13.graph_wire([(k, native(w)) for k, w in items])
                prods = ';'.join(rat(p) for p in doc[3]) if doc[3] is not None else ';'.join('0/1' for _ in items)
            except (TypeError, ValueError, OverflowError):
                self.count('standin.tie', 'skipped: weight without an exact rational value'); return
            allint = int(all(isinstance(w, int) for w in weights))
        obs = self.observed(r, ids)
        if obs is None:
            return
        mates = lst(tr.cd[0]['mates']) if len(tr.cd) == 1 and 'mates' in tr.cd[0] else '_'
        if fn == 'b5.mwpm_ids':
            line = 'c13 b5ids {} {}'.format(ewire, mates)
        else:
            if len(tr.listing) != 1 or tr.listing[0] is None or any(x not in ids for x in tr.listing[0]):
                listing = None
            else:
                listing = lst(ids[x] for x in tr.listing[0])
            if listing is None:
                obs, listing = 'blossom5.mwpm-calls={}'.format(len(tr.listing)), '_'
            if fn == 'b5.mwpm':
                line = 'c13 b5objs {} {} {}'.format(listing, ewire, mates)
            elif fn == 'mwpm_blossom5':
                line = 'c13 b5gt {} {} {} {} {} {}'.format(rat(inf), allint, listing, gwire, prods, mates)
            else:
                from qecsim.graphtools import blossom5
                line = 'c13 b5mwpm {} {} {} {} {} {} {}'.format(int(bool(blossom5.available())), rat(inf), allint, listing,
                                                                gwire, prods, mates)
                obs = 'dispatch={} {}'.format('blossom5' if tr.gt_b5 == 1 and tr.gt_nx == 0 else
                                              'networkx' if tr.gt_nx == 1 and tr.gt_b5 == 0 else
                                              'other:{}/{}'.format(tr.gt_b5, tr.gt_nx), obs)
        self.count('standin.tie', fn)
        self.emit({'type': 'case', 'line': line, 'impl': obs, 'nontrivial': n >= 4, 'meta': meta, 'post': ['tie']})

    def lean_cases(self, inp, fn, n, ids, ops, wd, weights, items, cm, allow, doc, part):
        c13, tr, inf = self.c13, self.tr, self.inf
        rat, fr = c13.rat, c13.fr
        meta = {'part': 'standin', 'sub': part, 'input': inp}
        nontrivial = n >= 4
        mw = c13.mates_wire(cm)
        coll = sorted(((min(p), max(p)), w) for p, w in wd.items())
        # (iii) the answer against the verified oracle on the ORIGINAL weights, within the documented allowance
        w_orig = c13.py_weight(coll, cm)
        impl = 'pm=1 opt=1 w=' + (rat(w_orig) if w_orig is not None else 'nonedge')
        self.emit({'type': 'case', 'line': 'c13 check {} {}'.format(c13.graph_wire(coll), mw), 'impl': impl,
                   'nontrivial': nontrivial, 'meta': meta, 'post': ['check', None if allow == 0 else rat(allow)]})
        if fn not in ('mwpm', 'mwpm_blossom5') or doc is None or items is None:
            return
        handed = tr.mwpm[-1] if len(tr.mwpm) == 1 and tr.mwpm[-1] is not None else None
        if handed is None or len(handed) != len(items) or any(len(e) != 3 for e in handed):
            self.count('standin.capture', 'no-single-blossom5.mwpm-call')
            return
        hw = [e[2] for e in handed]
        order_ok = all(e[0] in ids and e[1] in ids and (ids[e[0]], ids[e[1]]) == it[0] for e, it in zip(handed, items))
        self.count('standin.edge-order', 'dict-order' if order_ok else 'OTHER')
        # (i) integer weights really handed over = model weight_to_int (Lean driver op w2i)
        allint = all(isinstance(w, int) for w in weights)
        ws_wire = ';'.join(rat(fr(w)) for w in weights)
        idx = [i for i, (h, d) in enumerate(zip(hw, doc[1])) if not (isinstance(h, int) and h == d)][:4]
        absw = [abs(fr(w)) for w in weights]
        idx += [absw.index(max(absw)), absw.index(min(absw)), len(weights) - 1, len(weights) // 2]
        for i in list(dict.fromkeys(idx))[:6]:
            prod = doc[3][i] if doc[3] is not None else Fraction(0)
            h = hw[i]
            impl = str(int(h)) if isinstance(h, int) else 'non-int:{!r}'.format(h)
            self.emit({'type': 'case', 'line': 'c13 w2i {} {} {} {} {}'.format(
                rat(inf), int(allint), ws_wire, rat(fr(weights[i])), rat(prod)), 'impl': impl,
                'nontrivial': bool(doc[0] != 'zero'), 'meta': meta, 'post': ['tok1']})
        # (ii) the answer is a minimum-weight perfect matching of the INTEGER-weighted graph handed over (verified oracle)
        if order_ok and all(isinstance(h, int) for h in hw):
            int_items = [(it[0], int(h)) for it, h in zip(items, hw)]
            w_int = c13.py_weight(int_items, cm)
            impl = 'pm=1 opt=1 w=' + (rat(w_int) if w_int is not None else 'nonedge')
            self.emit({'type': 'case', 'line': 'c13 check {} {}'.format(c13.graph_wire(int_items), mw), 'impl': impl,
                       'nontrivial': nontrivial, 'meta': meta, 'post': ['check', None]})

    # -- histories
    def eval_history(self, hist, explore_meta=None):
        """steps of c13.gen_history on one node set in this process; -> failure dict or None"""
        c13 = self.c13
        n, nk, steps = hist['n'], hist['nodes'], hist['history']
        nodes = nodes_of({'nodes': nk, 'n': n, 'node_seed': hist.get('node_seed', 0)})
        ids = {x: i for i, x in enumerate(nodes)}
        prev_g, earlier = None, []
        for k, st in enumerate(steps):
            g, ops = c13.build_step(st, nodes, prev_g)
            before = list(g.items())
            fn = st['fn']
            err, r = self.call(fn, g)
            wd = c13.last_write(ops)
            sub = dict(hist, history=steps[:k + 1])
            inp1 = {'standin': self.inf, 'fn': fn, 'kind': 'simple' if isinstance(g, dict) and type(g) is not dict
                    else 'dict', 'ops_repr': st['ops_repr'], 'nodes': nk, 'node_seed': hist.get('node_seed', 0), 'n': n}
            v = self.verdict(sub if not self.explore else dict(sub), fn, n, ids, g, ops, wd, list(g.values()), err, r,
                             'history')
            if v:
                v['bad'] = 'call #{} of this history of matching calls in one process: {}'.format(k + 1, v['bad'])
                return v
            del inp1
            if list(g.items()) != before:
                return {'bad': 'call #{} ({}) modified the graph it was given'.format(k + 1, self.fname(fn)),
                        'returned': ''}
            for j, (old, snap) in enumerate(earlier):
                if old != snap:
                    return {'bad': 'the matching returned by call #{} changed during call #{} ({})'.format(
                        j + 1, k + 1, self.fname(fn)), 'returned': ''}
            if isinstance(r, set) and any(r is old for old, _ in earlier):
                return {'bad': 'call #{} ({}) handed out the very set object returned by an earlier call (which its '
                               'owner has updated since)'.format(k + 1, self.fname(fn)), 'returned': '',
                        'key': 'mwpm.result-aliased'}
            c13.apply_after(st, r, nodes, [e[0] for e in earlier])
            if isinstance(r, set):
                earlier.append([r, set(r)])
            if ops and st['kind'] == 'simple':
                prev_g = g
            if self.explore:
                self.count('standin.history.fn', fn)
        return None

    def eval_any(self, inp):
        if 'history' in inp:
            return self.eval_history(inp)
        return self.eval_single(inp)


def gen_hist(rng, inf):
    from qv.props import c13
    n = rng.choice([4, 4, 4, 6, 6, 8])
    nk = rng.choice(c13.NODE_KINDS)
    hkind, steps = c13.gen_history(rng, n)
    for st in steps:
        if st['fn'] == 'mwpm' and rng.random() < 0.45:
            st['fn'] = 'mwpm_blossom5'
    return {'standin': inf, 'history': steps, 'nodes': nk, 'node_seed': rng.getrandbits(32), 'n': n,
            'history_kind': hkind}


def explore_misc(ses, rng, inf):
    """empty inputs on every entry point, caches, the contiguity assertion of mwpm_ids"""
    from qecsim import graphtools as gt
    from qecsim.graphtools import blossom5
    for fn, arg in (('mwpm', gt.SimpleGraph()), ('mwpm', {}), ('mwpm_blossom5', gt.SimpleGraph()), ('mwpm_blossom5', {}),
                    ('mwpm_networkx', {}), ('b5.mwpm', []), ('b5.mwpm_ids', [])):
        err, r = ses.call(fn, arg)
        ses.emit({'type': 'eval', 'n': 1})
        impl = ('raised:' + err[0]) if err else ('empty' if isinstance(r, (set, frozenset)) and len(r) == 0 else
                                                 'nonempty:' + repr(r)[:60])
        inp = {'standin': inf, 'fn': fn, 'kind': 'edges' if fn.startswith('b5.') else 'dict', 'ops_repr': [],
               'nodes': 'int', 'node_seed': 0, 'n': 0}
        ses.emit({'type': 'case', 'line': 'c13 nxin _', 'impl': impl, 'nontrivial': False,
                  'meta': {'part': 'standin', 'sub': 'empty', 'input': inp}})
        if impl != 'empty':
            ses.emit({'type': 'fail', 'what': '{} on the empty graph does not yield the empty matching: {}'.format(
                ses.fname(fn), impl), 'input': inp, 'key': 'mwpm.empty'})
        elif fn != 'mwpm_networkx':
            # tie to Model/Blossom5.lean: the shortcut `if not graph: return set()` of mwpm_blossom5 reaches neither
            # blossom5.mwpm nor the C library; blossom5.mwpm([]) / mwpm_ids([]) call C with n_nodes = 0 and empty arrays
            tr = ses.tr
            meta = {'part': 'standin', 'sub': 'tie:empty', 'input': inp}
            if fn in ('mwpm', 'mwpm_blossom5'):
                obs = 'empty' if not tr.mwpm and not tr.ids and not tr.cd else 'empty-but-calls={}/{}/{}'.format(
                    len(tr.mwpm), len(tr.ids), len(tr.cd))
                if fn == 'mwpm':
                    obs = 'dispatch={} {}'.format('blossom5' if tr.gt_b5 == 1 and tr.gt_nx == 0 else 'networkx' if
                                                  tr.gt_nx == 1 and tr.gt_b5 == 0 else 'other', obs)
                    line = 'c13 b5mwpm {} {} 1 _ _ _ _'.format(int(bool(blossom5.available())), inf)
                else:
                    line = 'c13 b5gt {} 1 _ _ _ _'.format(inf)
            else:
                obs = ses.observed(r, {})
                line = 'c13 b5ids _ _' if fn == 'b5.mwpm_ids' else 'c13 b5objs _ _ _'
            ses.count('standin.tie', fn + ' (empty)')
            ses.emit({'type': 'case', 'line': line, 'impl': obs, 'nontrivial': False, 'meta': meta, 'post': ['tie']})
    ses.count('standin.infty', '{} (cached: {})'.format(blossom5.infty(), blossom5.infty() == blossom5.infty()))
    ses.count('standin.available', blossom5.available())
    # documented ASSUMPTION of mwpm_ids (ids contiguous from zero): the assertion is observed, not judged
    from qv.props import c13
    fixed = [[(0, 2, 1), (2, 3, 1)], [(1, 2, 5)], [(-1, 0, 1)], [(0, 0, 3)], [(1, 1, 3)], [(0, 1, 2), (3, 2, 1), (3, 5, 0)]]
    for k in range(len(fixed) + 30):
        if k < len(fixed):
            edges = fixed[k]
        else:
            # a perfectly matchable id graph with one id removed / shifted / a gap opened (assert) or left alone (no assert)
            n = rng.choice([2, 4, 4, 6, 8])
            edges = c13.gen_planted(rng, n, rng.choice(['complete', 'sparse', 'path']), None, lambda: rng.randint(-5, 9))
            how = rng.choice(['drop0', 'droplast', 'gap', 'shift', 'none', 'dropmid'])
            v = rng.randrange(n)
            if how == 'drop0':
                edges = [e for e in edges if 0 not in e[:2]]
            elif how == 'droplast':
                edges = [e for e in edges if n - 1 not in e[:2]]        # still contiguous: no assert, n - 1 nodes
            elif how == 'dropmid':
                edges = [e for e in edges if v not in e[:2]]
            elif how == 'gap':
                edges = [(a + (a >= v), b + (b >= v), w) for a, b, w in edges]
            elif how == 'shift':
                edges = [(a + 1, b + 1, w) for a, b, w in edges]
            rng.shuffle(edges)
        err, r = ses.call('b5.mwpm_ids', edges)
        ses.emit({'type': 'eval', 'n': 1})
        what = 'AssertionError' if err and 'AssertionError(' in err[0] else ('raised-other' if err else 'returned')
        ses.count('standin.noncontiguous-ids', what)
        if any(a < 0 or b < 0 for a, b, _ in edges):
            continue                                    # ids of the model are naturals
        inp = {'standin': inf, 'fn': 'b5.mwpm_ids', 'kind': 'edges', 'ops_repr': [[a, b, repr(w)] for a, b, w in edges],
               'nodes': 'ids', 'node_seed': 0, 'n': 1 + max([max(a, b) for a, b, _ in edges] + [0]),
               'note': 'ids not necessarily contiguous: documented assumption of mwpm_ids, the assert is observed'}
        if what == 'AssertionError':
            obs = 'assert=fail' if not ses.tr.cd else 'assert=fail-after-c-call'
        elif what == 'returned':
            obs = ses.observed(r, {i: i for i in range(inp['n'])})
        else:
            obs = 'raised:' + err[0][:80]
        if obs is None:
            continue
        ses.count('standin.tie', 'b5.mwpm_ids (assert path: {})'.format(obs.split(' ')[0] if obs.startswith('assert') else 'no assert'))
        ses.emit({'type': 'case', 'line': 'c13 b5ids {} {}'.format(
            ';'.join('{},{},{}'.format(a, b, int(w)) for a, b, w in edges) or '_',
            ','.join(str(x) for x in ses.tr.cd[0]['mates']) if len(ses.tr.cd) == 1 and ses.tr.cd[0].get('mates') else '_'),
            'impl': obs, 'nontrivial': len(edges) >= 2, 'meta': {'part': 'standin', 'sub': 'tie:assert', 'input': inp},
            'post': ['tie']})


EXTREME_KEY = 'mwpm_blossom5.weight-magnitude-outside-float-range'


def explore_extreme(ses, rng, inf):
    """weights whose magnitude makes the documented factor infty/10/max|w| or the product weight*factor leave the
    float range: all |w| below ~5e-301 (floats, subnormal range included) and Python ints beyond 1.8e308.  Reported as
    a finding candidate under EXTREME_KEY (decided in known_findings.json => monitor failure / KNOWN-FINDING)"""
    from qv.props import c13
    for label, mk in (('float weights, all |w| < 1e-300', lambda: rng.randint(1, 50) * 10.0 ** -rng.choice([305, 310, 320])),
                      ('int weights beyond the float range', lambda: rng.randint(1, 50) * 10 ** rng.choice([309, 400]) + rng.randint(0, 9))):
        for _ in range(3):
            n = rng.choice([4, 6])
            edges = c13.gen_planted(rng, n, 'complete', None, mk)
            inp = {'standin': inf, 'fn': rng.choice(['mwpm', 'mwpm_blossom5']), 'kind': 'simple',
                   'ops_repr': [[a, b, repr(w)] for a, b, w in edges], 'nodes': 'tuple', 'node_seed': 0, 'n': n,
                   'wkind': 'extreme: ' + label}
            ses.emit({'type': 'begin', 'input': inp}, True)
            v = ses.eval_single(inp)
            ses.count('standin.extreme', label + (': property fails' if v else ': ok'))
            if v:
                ses.emit({'type': 'candidate', 'key': EXTREME_KEY, 'what': '{} ({})'.format(v['bad'], label),
                          'input': dict(inp, returned=v.get('returned'), recipe=RECIPE)})
                break


def explore_decoders(ses, rng, inf, n_runs, nmax):
    """graphs the real MWPM decoders hand to gt.mwpm, matched by the Blossom path; captured at gt.mwpm"""
    import numpy as np
    from qv import core
    from qecsim import graphtools as gt
    from qecsim import paulitools as pt
    from qecsim.models.generic import BiasedDepolarizingErrorModel, DepolarizingErrorModel
    from qecsim.models.planar import PlanarCode, PlanarMWPMDecoder, PlanarCMWPMDecoder
    from qecsim.models.toric import ToricCode, ToricMWPMDecoder
    from qecsim.models.rotatedplanar import RotatedPlanarCode, RotatedPlanarSMWPMDecoder
    from qecsim.models.rotatedtoric import RotatedToricCode, RotatedToricSMWPMDecoder
    c13 = ses.c13
    captured = []
    orig = gt.mwpm

    def spy(graph):
        snap = list(graph.items())
        ses.tr.reset()
        mates = orig(graph)
        captured.append((snap, mates, ses.tr.snapshot()))
        return mates

    em = lambda: {'error_model': rng.choice([BiasedDepolarizingErrorModel(rng.choice([1, 3, 10, 100])),  # noqa: E731
                                             DepolarizingErrorModel()]),
                  'error_probability': rng.choice([0.05, 0.1, 0.2])}
    configs = [
        ('PlanarMWPM', lambda: PlanarCode(rng.randint(2, 4), rng.randint(2, 4)), lambda: PlanarMWPMDecoder(), dict),
        ('PlanarCMWPM', lambda: PlanarCode(rng.randint(2, 3), rng.randint(2, 3)),
         lambda: PlanarCMWPMDecoder(factor=rng.choice([3, 2.5, 0]), max_iterations=rng.choice([1, 2]),
                                    box_shape=rng.choice('trfl'), distance_algorithm=rng.choice([1, 2, 4])), dict),
        ('ToricMWPM', lambda: ToricCode(rng.randint(2, 4), rng.randint(2, 4)), lambda: ToricMWPMDecoder(), dict),
        ('RotatedPlanarSMWPM', lambda: RotatedPlanarCode(3, 3), lambda: RotatedPlanarSMWPMDecoder(), em),
        ('RotatedToricSMWPM', lambda: RotatedToricCode(rng.choice([2, 4]), rng.choice([2, 4])),
         lambda: RotatedToricSMWPMDecoder(), em),
    ]
    gt.mwpm = spy
    try:
        for it in range(n_runs):
            name, mk_code, mk_dec, kw = configs[it % len(configs)]
            code, dec = mk_code(), mk_dec()
            nq = code.n_k_d[0]
            err = np.zeros(2 * nq, dtype=int)
            for q in rng.sample(range(nq), min(rng.choice([1, 1, 2, 2, 3]), nq)):
                p = rng.choice('XYZ')
                if p in 'XY':
                    err[q] = 1
                if p in 'ZY':
                    err[nq + q] = 1
            syn = pt.bsp(err, code.stabilizers.T)
            del captured[:]
            try:
                with core.TimeLimit(20):
                    dec.decode(code, syn, **kw())
                ses.count('standin.decoder.outcome', name + ':returned')
            except core.TimeLimit.Expired:
                ses.count('standin.decoder.outcome', name + ':timeout')
            except Exception as ex:
                ses.count('standin.decoder.outcome', name + ':' + type(ex).__name__)
            for snap, mates, trsnap in captured:
                graph = dict(snap)
                if len(graph) != len(snap):
                    continue
                items, ids = c13.number_graph(graph)
                raw = [w for _, w in items]
                items = [(k, native(w)) for k, w in items]
                n = len(ids)
                ses.count('standin.decoder.n', n if n <= nmax else '>{}'.format(nmax))
                if n == 0 or n > nmax or n % 2:
                    continue
                inp = {'standin': inf, 'fn': 'mwpm', 'kind': 'dict', 'ops_repr': [[a, b, repr(w)] for (a, b), w in items],
                       'nodes': 'obj', 'node_seed': 0, 'n': n, 'decoder': name,
                       'weight_types': sorted({type(w).__name__ for w in raw})}
                ops = [(a, b, w) for (a, b), w in items]
                wd = c13.last_write(ops)
                ses.tr.restore(trsnap)
                v = ses.verdict(inp, 'mwpm', n, ids, None, ops, wd, raw, None, mates, 'decoder')
                if not v:
                    try:
                        _, doc = allowance('mwpm', n, raw, wd, inf)
                    except (OverflowError, ZeroDivisionError):
                        doc = None
                    ses.tie_case(inp, 'mwpm', n, ids, None, ops, raw, items, mates, doc, 'decoder')
                if v:
                    ses.emit({'type': 'fail', 'what': 'graph built by {}: {}'.format(name, v['bad']),
                              'input': dict(inp, returned=v.get('returned')), 'key': v.get('key')})
                    return
    finally:
        gt.mwpm = orig


def child_main():
    req = json.load(sys.stdin)
    out = sys.stdout

    def emit(rec, flush=False):
        out.write(MARK + json.dumps(rec, default=str) + '\n')
        if flush:
            out.flush()

    import logging
    logging.disable(logging.WARNING)
    try:
        from qv import core
        core.assert_repo_binding()
    except Exception as ex:
        emit({'type': 'infra', 'what': repr(ex)[:300]}, True)
        return
    from qecsim.graphtools import blossom5
    inf = int(req['infty'])
    try:
        ok = blossom5.available() and blossom5.infty() == inf
        what = 'available()={} infty()={}'.format(blossom5.available(), blossom5.infty() if blossom5.available() else None)
    except Exception as ex:
        ok, what = False, repr(ex)[:200]
    if not ok:
        emit({'type': 'unavailable', 'what': what})
        emit({'type': 'done', 'counts': {}}, True)
        return
    explore = req['mode'] == 'explore'
    ses = Session(inf, emit, explore)
    if explore:
        rng = random.Random(req['seed'])
        explore_misc(ses, rng, inf)
        n_s, n_h = req['singles'], req['histories']
        plan = ['s'] * n_s + ['h'] * n_h
        rng.shuffle(plan)
        failed = 0
        for what in plan:
            inp = gen_single(rng, inf, req.get('nmax', 14)) if what == 's' else gen_hist(rng, inf)
            emit({'type': 'begin', 'input': inp}, True)
            v = ses.eval_any(inp)
            if v:
                if 'history' in inp:
                    k = int(v['bad'].split('#')[1].split(' ')[0])
                    inp = dict(inp, history=inp['history'][:k])
                emit({'type': 'fail', 'what': v['bad'], 'input': dict(inp, returned=v.get('returned'), recipe=RECIPE),
                      'key': v.get('key')})
                failed += 1
                if failed >= 5:
                    break
        if not failed:
            explore_extreme(ses, rng, inf)
            emit({'type': 'begin', 'input': {'standin': inf, 'note': 'decoder graphs'}}, True)
            explore_decoders(ses, rng, inf, req.get('decodes', 0), MAX_N)
        emit({'type': 'done', 'counts': ses.counts}, True)
        return
    # eval mode: the listed inputs, then a fixed family
    todo = list(req.get('inputs') or [])
    rng = random.Random(20240613)
    for _ in range(int(req.get('std') or 0)):
        todo.append(gen_single(rng, inf))
    for inp in todo:
        emit({'type': 'begin', 'input': inp}, True)
        try:
            v = ses.eval_any(inp)
        except Exception as ex:       # malformed recorded input: not a verdict
            emit({'type': 'result', 'bad': None, 'input': inp, 'error': repr(ex)[:200]})
            continue
        emit({'type': 'result', 'bad': v['bad'] if v else None, 'input': inp, 'returned': v.get('returned') if v else None})
        if v:
            break
    emit({'type': 'done', 'counts': {}}, True)
